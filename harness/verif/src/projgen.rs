//! Multi-package project generator (C13–C16): model, renderer, edit operators,
//! defect injectors and the helpers the four checks share.

use crate::behave::{self, GoCheck};
use crate::goml::{self, CompileRes};
use crate::sep;
use std::path::Path;

// ------------------------------------------------------------------ running

#[derive(Clone, Debug, PartialEq)]
pub enum GoRun {
    Ran { stdout: Vec<u8>, end: String },
    /// outside miniGo's subset / step limit: not judged
    Unsupported(String),
    /// the Go type checker rejects the text
    Rejected(String),
}

impl GoRun {
    /// equality of what the program does (messages of rejections carry line numbers)
    pub fn same_behaviour(&self, other: &GoRun) -> bool {
        match (self, other) {
            (GoRun::Ran { stdout: a, end: ea }, GoRun::Ran { stdout: b, end: eb }) => a == b && ea == eb,
            (GoRun::Unsupported(_), GoRun::Unsupported(_)) => true,
            (GoRun::Rejected(_), GoRun::Rejected(_)) => true,
            _ => false,
        }
    }
    pub fn kind(&self) -> &'static str {
        match self {
            GoRun::Ran { .. } => "ran",
            GoRun::Unsupported(_) => "unsupported",
            GoRun::Rejected(_) => "go-rejected",
        }
    }
}

pub fn run_go(text: &str) -> GoRun {
    match behave::go_check(text) {
        GoCheck::Ok(p) => {
            let r = minigo::run(&p, &behave::go_opts());
            match &r.end {
                minigo::End::StepLimit | minigo::End::OutputLimit => GoRun::Unsupported("step-limit".into()),
                minigo::End::Unsupported(u) => GoRun::Unsupported(u.clone()),
                e => GoRun::Ran { stdout: r.stdout.clone(), end: format!("{:?}", e) },
            }
        }
        GoCheck::Unsupported(u) => GoRun::Unsupported(u),
        GoCheck::Rejected(errs) => GoRun::Rejected(behave::describe_go_errors(&errs, text)),
    }
}

pub fn describe_compile(r: &CompileRes) -> String {
    match r {
        CompileRes::Ok(..) => "ok".into(),
        CompileRes::Err(e) => format!("{} error: {}", goml::error_stage(e), goml::diag_messages(e.diagnostics()).join("; ")),
        CompileRes::Panic(p) => format!("PANIC {}:{} {}", p.file, p.line, p.message),
    }
}

pub fn debug_run_dir(dir: &Path, show_go: bool) -> i32 {
    let main = dir.join("main.gom");
    let src = std::fs::read_to_string(&main).unwrap_or_default();
    let w = goml::compile_at(main, &src);
    println!("whole: {}", describe_compile(&w));
    if let CompileRes::Ok(_, t) = &w {
        if show_go {
            println!("{t}");
        }
        match run_go(t) {
            GoRun::Ran { stdout, end } => println!("--- whole run ({end})\n{}", String::from_utf8_lossy(&stdout)),
            other => println!("--- whole run: {:?}", other),
        }
    }
    match sep::discover(dir) {
        Err(e) => println!("separate: discover: {}", e.describe()),
        Ok(d) => {
            println!("order: {:?}", d.order);
            let art = std::path::PathBuf::from(format!("/dev/shm/verif-projrun-{}", std::process::id()));
            let _ = std::fs::remove_dir_all(&art);
            match sep::build_all(&d, &d.order, &art).and_then(|_| sep::link_dir(&art, &d.order)) {
                Err(e) => println!("separate: {}", e.describe()),
                Ok(l) => {
                    if show_go {
                        println!("{}", l.go_text);
                    }
                    match run_go(&l.go_text) {
                        GoRun::Ran { stdout, end } => {
                            println!("--- separate run ({end})\n{}", String::from_utf8_lossy(&stdout))
                        }
                        other => println!("--- separate run: {:?}", other),
                    }
                }
            }
            if std::env::var("KEEP_ART").is_ok() {
                println!("artifacts kept in {}", art.display());
            } else {
                let _ = std::fs::remove_dir_all(&art);
            }
        }
    }
    0
}

// -------------------------------------------------------------------- model

use crate::driver::Ctx;
use crate::util::{fnv_str, mix, Dec};
use std::collections::{BTreeMap, BTreeSet};

/// (package index, item name)
pub type Ref = (usize, String);

#[derive(Clone, Debug, PartialEq, Eq, Hash, PartialOrd, Ord)]
pub enum Ty {
    Int,
    Str,
    Bool,
    /// struct or non-generic enum
    Named(usize, String),
    /// generic enum applied to one argument
    App(usize, String, Box<Ty>),
    Param(String),
}

#[derive(Clone, Debug, PartialEq)]
pub enum Callee {
    Fn(Ref),
    /// `Trait::method(self, ..)`
    Trait(Ref, String),
    /// `Type::method(..)`
    Inh(Ref, String),
    Builtin(&'static str),
}

#[derive(Clone, Debug, PartialEq)]
pub enum Expr {
    Int(i32),
    Str(String),
    Bool(bool),
    Var(String),
    /// + - * on int32, + on string, < == on int32, && on bool
    Bin(&'static str, Box<Expr>, Box<Expr>),
    Not(Box<Expr>),
    If(Box<Expr>, Box<Expr>, Box<Expr>),
    Call(Callee, Vec<Expr>),
    /// `recv.method(args)` (inherent methods on annotated variables only)
    Method(Box<Expr>, String, Vec<Expr>),
    StructLit(Ref, Vec<(String, Expr)>),
    Field(Box<Expr>, String),
    Ctor(Ref, String, Vec<Expr>),
    /// match on an enum value: (variant, binders, arm); `ty` is the result type
    Match { scrut: Box<Expr>, en: Ref, arms: Vec<(String, Vec<String>, Expr)>, ty: Ty },
}

#[derive(Clone, Debug, PartialEq)]
pub enum Stmt {
    Let(String, Option<Ty>, Expr),
    Print(Expr),
}

#[derive(Clone, Debug, PartialEq)]
pub enum Shape {
    Plain,
    /// fn[T](x: T) -> T
    Id,
    /// fn[T](c: bool, a: T, b: T) -> T
    Pick,
    /// fn[T](x: T) -> E[T]
    Wrap(Ref),
    /// fn[T](b: E[T], d: T) -> T
    Unwrap(Ref),
    /// fn[T: Tr](x: T) -> string
    Show(Ref),
}

#[derive(Clone, Debug, PartialEq)]
pub struct FnDef {
    pub name: String,
    /// (type parameter, trait bounds)
    pub tparams: Vec<(String, Vec<Ref>)>,
    pub params: Vec<(String, Ty)>,
    /// None = unit (only `main`)
    pub ret: Option<Ty>,
    pub stmts: Vec<Stmt>,
    pub result: Option<Expr>,
    pub shape: Shape,
}

#[derive(Clone, Debug, PartialEq)]
pub struct TraitMethod {
    pub name: String,
    pub extra: Vec<Ty>,
    pub ret: Ty,
}

#[derive(Clone, Debug, PartialEq)]
pub enum ItemKind {
    Struct { name: String, fields: Vec<(String, Ty)> },
    Enum { name: String, generic: bool, variants: Vec<(String, Vec<Ty>)> },
    Trait { name: String, methods: Vec<TraitMethod> },
    Impl { tr: Ref, for_ty: Ty, methods: Vec<FnDef> },
    Inherent { ty: Ref, methods: Vec<FnDef> },
    Fn(FnDef),
    /// verbatim text (defect injectors); `uses` = packages it refers to
    Raw { text: String, uses: Vec<usize> },
}

#[derive(Clone, Debug, PartialEq)]
pub struct Item {
    pub file: usize,
    pub kind: ItemKind,
}

#[derive(Clone, Debug, PartialEq)]
pub struct Pkg {
    pub name: String,
    /// indices of imported packages (always larger than the own index)
    pub imports: Vec<usize>,
    pub nfiles: usize,
    /// base names of files 1.. (file 0 is main.gom / lib.gom)
    pub file_names: Vec<String>,
    pub items: Vec<Item>,
}

#[derive(Clone, Debug, PartialEq)]
pub struct Project {
    /// pkgs[0] is Main
    pub pkgs: Vec<Pkg>,
    pub counter: u32,
}

// some names are proper prefixes of others (Al, Alpha, AlphaB; Ga, Gamma): package identity must not be decided by prefix
pub const LIB_NAMES: &[&str] = &["Alpha", "Beta", "Al", "AlphaB", "Gamma", "Ga", "Delta", "Eps"];

impl Ty {
    pub fn nominal(&self) -> Option<Ref> {
        match self {
            Ty::Named(p, n) | Ty::App(p, n, _) => Some((*p, n.clone())),
            _ => None,
        }
    }
    pub fn subst(&self, x: &Ty) -> Ty {
        match self {
            Ty::Param(_) => x.clone(),
            Ty::App(p, n, a) => Ty::App(*p, n.clone(), Box::new(a.subst(x))),
            o => o.clone(),
        }
    }
    pub fn has_param(&self) -> bool {
        match self {
            Ty::Param(_) => true,
            Ty::App(_, _, a) => a.has_param(),
            _ => false,
        }
    }
    /// packages named by the type
    pub fn pkgs(&self, out: &mut BTreeSet<usize>) {
        match self {
            Ty::Named(p, _) => {
                out.insert(*p);
            }
            Ty::App(p, _, a) => {
                out.insert(*p);
                a.pkgs(out);
            }
            _ => {}
        }
    }
}

impl Project {
    pub fn file_name(&self, p: usize, f: usize) -> String {
        let base = if f == 0 {
            if p == 0 { "main.gom".to_string() } else { "lib.gom".to_string() }
        } else {
            self.pkgs[p].file_names.get(f - 1).cloned().unwrap_or_else(|| format!("part{f}.gom"))
        };
        if p == 0 {
            base
        } else {
            format!("{}/{}", self.pkgs[p].name, base)
        }
    }
    pub fn visible(&self, p: usize) -> Vec<usize> {
        let mut v = vec![p];
        v.extend(self.pkgs[p].imports.iter().copied());
        v
    }
    pub fn sees(&self, p: usize, q: usize) -> bool {
        p == q || self.pkgs[p].imports.contains(&q)
    }
    /// transitive dependencies of p (without p)
    pub fn closure(&self, p: usize) -> BTreeSet<usize> {
        let mut out = BTreeSet::new();
        let mut todo = self.pkgs[p].imports.clone();
        while let Some(q) = todo.pop() {
            if out.insert(q) {
                todo.extend(self.pkgs[q].imports.iter().copied());
            }
        }
        out
    }
    pub fn struct_fields(&self, r: &Ref) -> Option<&Vec<(String, Ty)>> {
        self.pkgs.get(r.0)?.items.iter().find_map(|i| match &i.kind {
            ItemKind::Struct { name, fields } if *name == r.1 => Some(fields),
            _ => None,
        })
    }
    pub fn enum_def(&self, r: &Ref) -> Option<(bool, &Vec<(String, Vec<Ty>)>)> {
        self.pkgs.get(r.0)?.items.iter().find_map(|i| match &i.kind {
            ItemKind::Enum { name, generic, variants } if *name == r.1 => Some((*generic, variants)),
            _ => None,
        })
    }
    pub fn trait_def(&self, r: &Ref) -> Option<&Vec<TraitMethod>> {
        self.pkgs.get(r.0)?.items.iter().find_map(|i| match &i.kind {
            ItemKind::Trait { name, methods } if *name == r.1 => Some(methods),
            _ => None,
        })
    }
    /// (package holding the impl, trait, type)
    pub fn impls(&self) -> Vec<(usize, Ref, Ty)> {
        let mut out = vec![];
        for (p, pk) in self.pkgs.iter().enumerate() {
            for i in &pk.items {
                if let ItemKind::Impl { tr, for_ty, .. } = &i.kind {
                    out.push((p, tr.clone(), for_ty.clone()));
                }
            }
        }
        out
    }
    pub fn fresh(&mut self, base: &str) -> String {
        self.counter += 1;
        format!("{base}{}", self.counter)
    }
    pub fn item_names(&self, p: usize) -> BTreeSet<String> {
        let mut s = BTreeSet::new();
        for i in &self.pkgs[p].items {
            match &i.kind {
                ItemKind::Struct { name, .. } | ItemKind::Enum { name, .. } | ItemKind::Trait { name, .. } => {
                    s.insert(name.clone());
                }
                ItemKind::Fn(f) => {
                    s.insert(f.name.clone());
                }
                _ => {}
            }
        }
        s
    }
    pub fn variant_names(&self, p: usize) -> BTreeSet<String> {
        let mut s = BTreeSet::new();
        for i in &self.pkgs[p].items {
            if let ItemKind::Enum { variants, .. } = &i.kind {
                for (v, _) in variants {
                    s.insert(v.clone());
                }
            }
        }
        s
    }
    /// a topological order of package names (dependencies first) derived from
    /// the model, Main last
    pub fn topo_names(&self) -> Vec<String> {
        (0..self.pkgs.len()).rev().map(|i| self.pkgs[i].name.clone()).collect()
    }
}

// ------------------------------------------------------------------- render

pub struct RenderOpts {
    /// replace every function body by `{ ... }` (interface view of a package)
    pub erase_bodies: bool,
}

struct R<'a> {
    proj: &'a Project,
    pkg: usize,
    uses: BTreeSet<usize>,
    erase: bool,
}

impl<'a> R<'a> {
    fn path(&mut self, r: &Ref) -> String {
        if r.0 == self.pkg {
            r.1.clone()
        } else {
            self.uses.insert(r.0);
            format!("{}::{}", self.proj.pkgs[r.0].name, r.1)
        }
    }
    fn ty(&mut self, t: &Ty) -> String {
        match t {
            Ty::Int => "int32".into(),
            Ty::Str => "string".into(),
            Ty::Bool => "bool".into(),
            Ty::Named(p, n) => self.path(&(*p, n.clone())),
            Ty::App(p, n, a) => format!("{}[{}]", self.path(&(*p, n.clone())), self.ty(a)),
            Ty::Param(n) => n.clone(),
        }
    }
    fn args(&mut self, a: &[Expr]) -> String {
        a.iter().map(|e| self.expr(e)).collect::<Vec<_>>().join(", ")
    }
    fn expr(&mut self, e: &Expr) -> String {
        match e {
            Expr::Int(i) => {
                if *i < 0 {
                    format!("(0 - {})", -(*i as i64))
                } else {
                    i.to_string()
                }
            }
            Expr::Str(s) => format!("\"{s}\""),
            Expr::Bool(b) => b.to_string(),
            Expr::Var(v) => v.clone(),
            Expr::Bin(op, a, b) => format!("({} {op} {})", self.expr(a), self.expr(b)),
            Expr::Not(a) => format!("(!{})", self.expr(a)),
            Expr::If(c, a, b) => format!("if {} {{ {} }} else {{ {} }}", self.expr(c), self.expr(a), self.expr(b)),
            Expr::Call(c, a) => {
                let callee = match c {
                    Callee::Fn(r) => self.path(r),
                    Callee::Trait(r, m) => format!("{}::{m}", self.path(r)),
                    Callee::Inh(r, m) => format!("{}::{m}", self.path(r)),
                    Callee::Builtin(b) => b.to_string(),
                };
                format!("{callee}({})", self.args(a))
            }
            Expr::Method(r, m, a) => format!("{}.{m}({})", self.expr(r), self.args(a)),
            Expr::StructLit(r, fs) => {
                let p = self.path(r);
                let fs: Vec<String> = fs.iter().map(|(n, e)| format!("{n}: {}", self.expr(e))).collect();
                if fs.is_empty() {
                    format!("{p} {{}}")
                } else {
                    format!("{p} {{ {} }}", fs.join(", "))
                }
            }
            Expr::Field(r, f) => format!("{}.{f}", self.expr(r)),
            Expr::Ctor(r, v, a) => {
                let p = self.path(r);
                if a.is_empty() {
                    format!("{p}::{v}")
                } else {
                    format!("{p}::{v}({})", self.args(a))
                }
            }
            Expr::Match { scrut, en, arms, .. } => {
                let p = self.path(en);
                let s = self.expr(scrut);
                let mut out = format!("match {s} {{ ");
                for (v, bs, e) in arms {
                    if v == "_" {
                        out.push_str(&format!("_ => {}, ", self.expr(e)));
                    } else if bs.is_empty() {
                        out.push_str(&format!("{p}::{v} => {}, ", self.expr(e)));
                    } else {
                        out.push_str(&format!("{p}::{v}({}) => {}, ", bs.join(", "), self.expr(e)));
                    }
                }
                out.push('}');
                out
            }
        }
    }
    fn fn_sig(&mut self, f: &FnDef) -> String {
        let mut s = format!("fn {}", f.name);
        if !f.tparams.is_empty() {
            let tp: Vec<String> = f
                .tparams
                .iter()
                .map(|(n, bs)| {
                    if bs.is_empty() {
                        n.clone()
                    } else {
                        format!("{n}: {}", bs.iter().map(|b| self.path(b)).collect::<Vec<_>>().join(" + "))
                    }
                })
                .collect();
            s.push_str(&format!("[{}]", tp.join(", ")));
        }
        let ps: Vec<String> = f.params.iter().map(|(n, t)| format!("{n}: {}", self.ty(t))).collect();
        s.push_str(&format!("({})", ps.join(", ")));
        if let Some(r) = &f.ret {
            s.push_str(&format!(" -> {}", self.ty(r)));
        }
        s
    }
    fn fn_def(&mut self, f: &FnDef, indent: &str) -> String {
        let mut s = format!("{indent}{} {{\n", self.fn_sig(f));
        if self.erase {
            s.push_str(&format!("{indent}    ...\n{indent}}}\n"));
            return s;
        }
        for st in &f.stmts {
            match st {
                Stmt::Let(n, t, e) => {
                    let ann = match t {
                        Some(t) => format!(": {}", self.ty(t)),
                        None => String::new(),
                    };
                    s.push_str(&format!("{indent}    let {n}{ann} = {};\n", self.expr(e)));
                }
                Stmt::Print(e) => s.push_str(&format!("{indent}    string_println({});\n", self.expr(e))),
            }
        }
        if let Some(r) = &f.result {
            s.push_str(&format!("{indent}    {}\n", self.expr(r)));
        }
        s.push_str(&format!("{indent}}}\n"));
        s
    }
    fn item(&mut self, it: &ItemKind) -> String {
        match it {
            ItemKind::Struct { name, fields } => {
                if fields.is_empty() {
                    return format!("struct {name} {{}}\n");
                }
                let mut s = format!("struct {name} {{\n");
                for (n, t) in fields {
                    s.push_str(&format!("    {n}: {},\n", self.ty(t)));
                }
                s.push_str("}\n");
                s
            }
            ItemKind::Enum { name, generic, variants } => {
                let mut s = format!("enum {name}{} {{\n", if *generic { "[T]" } else { "" });
                for (v, ts) in variants {
                    if ts.is_empty() {
                        s.push_str(&format!("    {v},\n"));
                    } else {
                        let ts: Vec<String> = ts.iter().map(|t| self.ty(t)).collect();
                        s.push_str(&format!("    {v}({}),\n", ts.join(", ")));
                    }
                }
                s.push_str("}\n");
                s
            }
            ItemKind::Trait { name, methods } => {
                let mut s = format!("trait {name} {{\n");
                for m in methods {
                    let mut ps = vec!["Self".to_string()];
                    ps.extend(m.extra.iter().map(|t| self.ty(t)));
                    s.push_str(&format!("    fn {}({}) -> {};\n", m.name, ps.join(", "), self.ty(&m.ret)));
                }
                s.push_str("}\n");
                s
            }
            ItemKind::Impl { tr, for_ty, methods } => {
                let mut s = format!("impl {} for {} {{\n", self.path(tr), self.ty(for_ty));
                for m in methods {
                    s.push_str(&self.fn_def(m, "    "));
                }
                s.push_str("}\n");
                s
            }
            ItemKind::Inherent { ty, methods } => {
                let mut s = format!("impl {} {{\n", self.path(ty));
                for m in methods {
                    s.push_str(&self.fn_def(m, "    "));
                }
                s.push_str("}\n");
                s
            }
            ItemKind::Fn(f) => self.fn_def(f, ""),
            ItemKind::Raw { text, uses } => {
                self.uses.extend(uses.iter().copied());
                format!("{text}\n")
            }
        }
    }
}

/// per-file overrides used by the defect injectors
#[derive(Clone, Debug, Default, PartialEq)]
pub struct RenderTweaks {
    /// (package, file) -> package name declared in that file
    pub declared: BTreeMap<(usize, usize), String>,
    /// (package, file, imported package name) lines to add
    pub extra_imports: Vec<(usize, usize, String)>,
    /// (package, file, imported package index) imports to leave out
    pub drop_imports: Vec<(usize, usize, usize)>,
    /// package -> directory name (when it differs from the package name)
    pub dir_names: BTreeMap<usize, String>,
    /// packages whose directory is not written at all
    pub omit_dirs: Vec<usize>,
    /// import lines are written in reverse order
    pub reverse_imports: bool,
}

impl Project {
    /// text of one file; None when no item lives in it and it is not file 0
    fn render_file(&self, p: usize, f: usize, opts: &RenderOpts, tw: &RenderTweaks) -> String {
        let mut r = R { proj: self, pkg: p, uses: BTreeSet::new(), erase: opts.erase_bodies };
        let mut body = String::new();
        for it in self.pkgs[p].items.iter().filter(|i| i.file == f) {
            body.push('\n');
            body.push_str(&r.item(&it.kind));
        }
        let mut imports: Vec<String> = vec![];
        for q in &self.pkgs[p].imports {
            // file 0 carries every declared import, other files what they use
            if (f == 0 || r.uses.contains(q)) && !tw.drop_imports.contains(&(p, f, *q)) {
                imports.push(self.pkgs[*q].name.clone());
            }
        }
        for (pp, ff, name) in &tw.extra_imports {
            if *pp == p && *ff == f {
                imports.push(name.clone());
            }
        }
        if tw.reverse_imports {
            imports.reverse();
        }
        let decl = tw.declared.get(&(p, f)).cloned().unwrap_or_else(|| self.pkgs[p].name.clone());
        let mut s = format!("package {decl}\n");
        for i in imports {
            s.push_str(&format!("import {i}\n"));
        }
        s.push_str(&body);
        s
    }
    pub fn render_with(&self, opts: &RenderOpts, tw: &RenderTweaks) -> Vec<(String, String)> {
        let mut out = vec![];
        for p in 0..self.pkgs.len() {
            if tw.omit_dirs.contains(&p) {
                continue;
            }
            for f in 0..self.pkgs[p].nfiles.max(1) {
                let mut name = self.file_name(p, f);
                if let Some(d) = tw.dir_names.get(&p) {
                    name = format!("{d}/{}", name.rsplit('/').next().unwrap_or(&name));
                }
                out.push((name, self.render_file(p, f, opts, tw)));
            }
        }
        out
    }
    pub fn render(&self) -> Vec<(String, String)> {
        self.render_with(&RenderOpts { erase_bodies: false }, &RenderTweaks::default())
    }
    /// identity of what package p shows to its dependents: everything except
    /// function bodies
    pub fn iface_key(&self, p: usize) -> String {
        let mut s = String::new();
        let opts = RenderOpts { erase_bodies: true };
        let tw = RenderTweaks::default();
        for f in 0..self.pkgs[p].nfiles.max(1) {
            s.push_str(&self.render_file(p, f, &opts, &tw));
            s.push_str("\u{1}");
        }
        format!("{:016x}", mix(fnv_str(&s), s.len() as u64))
    }
}

// ---------------------------------------------------------------- generator

const STRUCT_NAMES: &[&str] = &["Pt", "Pair", "Rec", "Item"];
const ENUM_NAMES: &[&str] = &["Col", "Op", "Shape", "Tok"];
const GENUM_NAMES: &[&str] = &["Box", "Opt"];
const TRAIT_NAMES: &[&str] = &["Show", "Score", "Tag"];
const METHOD_NAMES: &[&str] = &["show", "score", "tag", "label"];
const FN_NAMES: &[&str] = &["make", "calc", "mix", "conv", "join", "step", "eval"];
const VARIANT_NAMES: &[&str] = &["Red", "Rgb", "Add", "Sub", "Leaf", "Node", "Full", "Empty", "Just", "Nil"];
const FIELD_NAMES: &[&str] = &["x", "y", "n", "s", "b", "p", "q"];
const WORDS: &[&str] = &["a", "b", "go", "ml", "x", "pkg", "-", ":", "q"];

pub struct Gen<'a, 'd> {
    pub d: &'a mut Dec<'d>,
    pub proj: Project,
    /// field access / match only on types of directly imported packages
    pub ctx: &'a mut Ctx,
    tmp: u32,
    /// nesting of literal construction (recursive types: beyond 4 levels the constructor with the fewest
    /// nominal payloads is taken, so construction ends even when the choice bytes are used up)
    nest: u32,
}

#[derive(Clone)]
struct Scope {
    pkg: usize,
    vars: Vec<(String, Ty)>,
    /// in the own package only items before this index may be called
    limit: usize,
}

fn uniq(base: &str, taken: &BTreeSet<String>) -> String {
    if !taken.contains(base) {
        return base.to_string();
    }
    let mut i = 2;
    loop {
        let n = format!("{base}{i}");
        if !taken.contains(&n) {
            return n;
        }
        i += 1;
    }
}

impl Project {
    /// can a value be written down with literals only (all named types visible)?
    pub fn lit_make(&self, t: &Ty, p: usize) -> bool {
        match t {
            Ty::Int | Ty::Str | Ty::Bool => true,
            Ty::Param(_) => false,
            Ty::Named(q, n) => {
                if !self.sees(p, *q) {
                    return false;
                }
                let r = (*q, n.clone());
                if let Some(fs) = self.struct_fields(&r) {
                    fs.iter().all(|(_, t)| self.lit_make(t, p))
                } else if let Some((_, vs)) = self.enum_def(&r) {
                    vs.iter().any(|(_, ts)| ts.iter().all(|t| self.lit_make(t, p)))
                } else {
                    false
                }
            }
            Ty::App(q, n, a) => {
                if !self.sees(p, *q) {
                    return false;
                }
                let r = (*q, n.clone());
                match self.enum_def(&r) {
                    Some((_, vs)) => vs.iter().any(|(_, ts)| ts.iter().all(|t| self.lit_make(&t.subst(a), p))),
                    None => false,
                }
            }
        }
    }
    /// non-generic functions callable from scope returning exactly `t`
    fn fns_returning(&self, t: &Ty, sc: &Scope) -> Vec<Ref> {
        let mut out = vec![];
        for q in self.visible(sc.pkg) {
            for (i, it) in self.pkgs[q].items.iter().enumerate() {
                if q == sc.pkg && i >= sc.limit {
                    break;
                }
                if let ItemKind::Fn(f) = &it.kind {
                    if f.shape == Shape::Plain
                        && f.tparams.is_empty()
                        && f.ret.as_ref() == Some(t)
                        && f.params.iter().all(|(_, pt)| self.lit_make(pt, sc.pkg))
                    {
                        out.push((q, f.name.clone()));
                    }
                }
            }
        }
        out
    }
    fn shaped_fns(&self, sc: &Scope, want: impl Fn(&Shape) -> bool) -> Vec<(Ref, Shape)> {
        let mut out = vec![];
        for q in self.visible(sc.pkg) {
            for (i, it) in self.pkgs[q].items.iter().enumerate() {
                if q == sc.pkg && i >= sc.limit {
                    break;
                }
                if let ItemKind::Fn(f) = &it.kind {
                    if want(&f.shape) {
                        out.push(((q, f.name.clone()), f.shape.clone()));
                    }
                }
            }
        }
        out
    }
    pub fn fn_def(&self, r: &Ref) -> Option<&FnDef> {
        self.pkgs.get(r.0)?.items.iter().find_map(|i| match &i.kind {
            ItemKind::Fn(f) if f.name == r.1 => Some(f),
            _ => None,
        })
    }
    /// types with an impl of trait `tr` that scope can produce values of
    fn impl_types(&self, tr: &Ref, p: usize) -> Vec<Ty> {
        self.impls()
            .into_iter()
            .filter(|(_, t, ty)| t == tr && self.lit_make(ty, p))
            .map(|(_, _, ty)| ty)
            .collect()
    }
}

impl<'a, 'd> Gen<'a, 'd> {
    fn lit(&mut self, t: &Ty) -> Expr {
        match t {
            Ty::Int => Expr::Int(self.d.below(10) as i32),
            Ty::Str => Expr::Str(WORDS[self.d.below(WORDS.len())].to_string()),
            Ty::Bool => Expr::Bool(self.d.bool()),
            _ => Expr::Int(0),
        }
    }

    /// an expression of type `t` valid in scope `sc`
    fn expr(&mut self, sc: &Scope, t: &Ty, depth: u32) -> Expr {
        let vars: Vec<String> = sc.vars.iter().filter(|(_, vt)| vt == t).map(|(n, _)| n.clone()).collect();
        let p = sc.pkg;
        if t.nominal().is_some() && !t.has_param() && !self.proj.lit_make(t, p) {
            // a type of a package that is not imported: values only flow through
            // variables and calls
            let fs = self.proj.fns_returning(t, sc);
            if !vars.is_empty() && (fs.is_empty() || self.d.bool()) {
                return Expr::Var(vars[self.d.below(vars.len())].clone());
            }
            if fs.is_empty() {
                return Expr::Int(0);
            }
            let fr = fs[self.d.below(fs.len())].clone();
            let f = self.proj.fn_def(&fr).cloned().unwrap();
            let args = f.params.iter().map(|(_, pt)| self.expr(sc, pt, depth.saturating_sub(1))).collect();
            return Expr::Call(Callee::Fn(fr), args);
        }
        if depth == 0 {
            if !vars.is_empty() && (self.d.chance(160) || t.has_param()) {
                return Expr::Var(vars[self.d.below(vars.len())].clone());
            }
            return self.literal_of(sc, t, 0);
        }
        if t.has_param() {
            // only variables (and generic helpers) produce values of a parameter type
            if let Ty::Param(_) = t {
                if vars.is_empty() {
                    return Expr::Int(0);
                }
                return Expr::Var(vars[self.d.below(vars.len())].clone());
            }
        }
        // ---- collect the alternatives
        #[derive(Clone)]
        enum Alt {
            Lit,
            Var,
            Arith,
            Concat,
            ToStr,
            BoolStr,
            StrLen,
            Cmp,
            And,
            Not,
            If,
            Call(Ref),
            Field(String, String),
            Match(String, Ref, Ty),
            TraitCall(Ref, TraitMethod, Ty),
            InhCall(Ref, FnDef),
            IdCall(Ref, Shape),
            ShowCall(Ref, Ref),
            Unwrap(Ref, Ref),
        }
        let mut alts: Vec<(Alt, u32)> = vec![(Alt::Lit, 3)];
        if !vars.is_empty() {
            alts.push((Alt::Var, 5));
        }
        match t {
            Ty::Int => {
                alts.push((Alt::Arith, 5));
                alts.push((Alt::StrLen, 1));
            }
            Ty::Str => {
                alts.push((Alt::Concat, 4));
                alts.push((Alt::ToStr, 3));
                alts.push((Alt::BoolStr, 1));
            }
            Ty::Bool => {
                alts.push((Alt::Cmp, 4));
                alts.push((Alt::And, 1));
                alts.push((Alt::Not, 1));
            }
            _ => {}
        }
        alts.push((Alt::If, 2));
        for r in self.proj.fns_returning(t, sc) {
            let w = if r.0 != p { 6 } else { 3 };
            alts.push((Alt::Call(r), w));
        }
        // field of a struct variable
        for (vn, vt) in &sc.vars {
            if let Ty::Named(q, n) = vt {
                if !self.proj.sees(p, *q) {
                    continue;
                }
                let r = (*q, n.clone());
                if let Some(fs) = self.proj.struct_fields(&r) {
                    for (fname, ft) in fs {
                        if ft == t {
                            alts.push((Alt::Field(vn.clone(), fname.clone()), 4));
                        }
                    }
                } else if self.proj.enum_def(&r).is_some() {
                    alts.push((Alt::Match(vn.clone(), r, vt.clone()), 4));
                }
            }
            if let Ty::App(q, n, _) = vt {
                if self.proj.sees(p, *q) && !vt.has_param() {
                    alts.push((Alt::Match(vn.clone(), (*q, n.clone()), vt.clone()), 3));
                }
            }
        }
        // trait methods returning t
        for q in self.proj.visible(p) {
            let traits: Vec<(Ref, Vec<TraitMethod>)> = self.proj.pkgs[q]
                .items
                .iter()
                .enumerate()
                .filter_map(|(i, it)| match &it.kind {
                    ItemKind::Trait { name, methods } if q != p || i < sc.limit => Some(((q, name.clone()), methods.clone())),
                    _ => None,
                })
                .collect();
            for (tr, ms) in traits {
                for m in ms {
                    if &m.ret == t {
                        for it in self.proj.impl_types(&tr, p) {
                            if self.recv_ok(sc, &it) {
                                alts.push((Alt::TraitCall(tr.clone(), m.clone(), it), 3));
                            }
                        }
                    }
                }
            }
            // inherent methods
            let inh: Vec<(Ref, FnDef)> = self.proj.pkgs[q]
                .items
                .iter()
                .enumerate()
                .filter(|(i, _)| q != p || *i < sc.limit)
                .flat_map(|(_, it)| match &it.kind {
                    ItemKind::Inherent { ty, methods } => methods.iter().map(|m| (ty.clone(), m.clone())).collect::<Vec<_>>(),
                    _ => vec![],
                })
                .collect();
            for (ty, m) in inh {
                if m.ret.as_ref() == Some(t) && m.params.iter().all(|(_, pt)| self.proj.lit_make(pt, p)) {
                    alts.push((Alt::InhCall(ty, m), 3));
                }
            }
        }
        // generic helpers
        if !t.has_param() && self.proj.lit_make(t, p) {
            for (r, sh) in self.proj.shaped_fns(sc, |s| matches!(s, Shape::Id | Shape::Pick)) {
                alts.push((Alt::IdCall(r, sh), 2));
            }
            for (r, sh) in self.proj.shaped_fns(sc, |s| matches!(s, Shape::Unwrap(_))) {
                if let Shape::Unwrap(e) = sh {
                    if self.proj.sees(p, e.0) {
                        alts.push((Alt::Unwrap(r, e), 2));
                    }
                }
            }
        }
        if *t == Ty::Str {
            for (r, sh) in self.proj.shaped_fns(sc, |s| matches!(s, Shape::Show(_))) {
                if let Shape::Show(tr) = sh {
                    if self.proj.impl_types(&tr, p).iter().any(|it| self.recv_ok(sc, it)) {
                        alts.push((Alt::ShowCall(r, tr), 5));
                    }
                }
            }
        }
        let ws: Vec<u32> = alts.iter().map(|(_, w)| *w).collect();
        let alt = alts[self.d.weighted(&ws)].0.clone();
        let dd = depth - 1;
        match alt {
            Alt::Lit => self.literal_of(sc, t, dd),
            Alt::Var => Expr::Var(vars[self.d.below(vars.len())].clone()),
            Alt::Arith => {
                let op = ["+", "-", "*"][self.d.below(3)];
                let a = self.expr(sc, &Ty::Int, dd);
                let b = self.expr(sc, &Ty::Int, dd);
                Expr::Bin(op, Box::new(a), Box::new(b))
            }
            Alt::Concat => {
                let a = self.expr(sc, &Ty::Str, dd);
                let b = self.expr(sc, &Ty::Str, dd);
                Expr::Bin("+", Box::new(a), Box::new(b))
            }
            Alt::ToStr => Expr::Call(Callee::Builtin("int32_to_string"), vec![self.expr(sc, &Ty::Int, dd)]),
            Alt::BoolStr => Expr::Call(Callee::Builtin("bool_to_string"), vec![self.expr(sc, &Ty::Bool, dd)]),
            Alt::StrLen => Expr::Call(Callee::Builtin("string_len"), vec![self.expr(sc, &Ty::Str, dd)]),
            Alt::Cmp => {
                let op = ["<", "=="][self.d.below(2)];
                let a = self.expr(sc, &Ty::Int, dd);
                let b = self.expr(sc, &Ty::Int, dd);
                Expr::Bin(op, Box::new(a), Box::new(b))
            }
            Alt::And => {
                let a = self.expr(sc, &Ty::Bool, dd);
                let b = self.expr(sc, &Ty::Bool, dd);
                Expr::Bin("&&", Box::new(a), Box::new(b))
            }
            Alt::Not => Expr::Not(Box::new(self.expr(sc, &Ty::Bool, dd))),
            Alt::If => {
                let c = self.expr(sc, &Ty::Bool, dd);
                let a = self.expr(sc, t, dd);
                let b = self.expr(sc, t, dd);
                Expr::If(Box::new(c), Box::new(a), Box::new(b))
            }
            Alt::Call(r) => {
                let f = self.proj.fn_def(&r).cloned().unwrap();
                let args = f.params.iter().map(|(_, pt)| self.expr(sc, pt, dd)).collect();
                Expr::Call(Callee::Fn(r), args)
            }
            Alt::Field(v, f) => Expr::Field(Box::new(Expr::Var(v)), f),
            Alt::Match(v, en, vt) => self.match_on(sc, Expr::Var(v), &en, &vt, t, dd),
            Alt::TraitCall(tr, m, it) => {
                let mut args = vec![self.recv(sc, &it, dd)];
                for et in &m.extra {
                    args.push(self.expr(sc, et, dd));
                }
                Expr::Call(Callee::Trait(tr, m.name.clone()), args)
            }
            Alt::InhCall(ty, m) => {
                let args = m.params.iter().map(|(_, pt)| self.expr(sc, pt, dd)).collect();
                Expr::Call(Callee::Inh(ty, m.name.clone()), args)
            }
            Alt::IdCall(r, sh) => {
                if sh == Shape::Id {
                    Expr::Call(Callee::Fn(r), vec![self.expr(sc, t, dd)])
                } else {
                    let c = self.expr(sc, &Ty::Bool, dd);
                    let a = self.expr(sc, t, dd);
                    let b = self.expr(sc, t, dd);
                    Expr::Call(Callee::Fn(r), vec![c, a, b])
                }
            }
            Alt::ShowCall(r, tr) => {
                let its: Vec<Ty> = self.proj.impl_types(&tr, p).into_iter().filter(|it| self.recv_ok(sc, it)).collect();
                let it = its[self.d.below(its.len())].clone();
                Expr::Call(Callee::Fn(r), vec![self.recv(sc, &it, dd)])
            }
            Alt::Unwrap(r, e) => {
                let bt = Ty::App(e.0, e.1.clone(), Box::new(t.clone()));
                let b = self.expr(sc, &bt, dd);
                let dflt = self.expr(sc, t, dd);
                Expr::Call(Callee::Fn(r), vec![b, dflt])
            }
        }
    }

    /// receiver of a trait call: a generic-enum receiver must have a concrete
    /// type when the call is resolved, so it comes from a variable or a plain call
    fn recv(&mut self, sc: &Scope, t: &Ty, depth: u32) -> Expr {
        if let Ty::App(..) = t {
            let vars: Vec<String> = sc.vars.iter().filter(|(_, vt)| vt == t).map(|(n, _)| n.clone()).collect();
            if !vars.is_empty() {
                return Expr::Var(vars[self.d.below(vars.len())].clone());
            }
            let fs = self.proj.fns_returning(t, sc);
            let fr = fs[self.d.below(fs.len())].clone();
            let f = self.proj.fn_def(&fr).cloned().unwrap();
            let args = f.params.iter().map(|(_, pt)| self.expr(sc, pt, depth.saturating_sub(1))).collect();
            return Expr::Call(Callee::Fn(fr), args);
        }
        self.expr(sc, t, depth)
    }
    fn recv_ok(&self, sc: &Scope, t: &Ty) -> bool {
        match t {
            Ty::App(..) => sc.vars.iter().any(|(_, vt)| vt == t) || !self.proj.fns_returning(t, sc).is_empty(),
            _ => true,
        }
    }

    /// a value of `t` from literals / constructors (sub-expressions at `depth`)
    fn literal_of(&mut self, sc: &Scope, t: &Ty, depth: u32) -> Expr {
        let p = sc.pkg;
        match t {
            Ty::Int | Ty::Str | Ty::Bool => self.lit(t),
            Ty::Param(_) => {
                let vars: Vec<String> = sc.vars.iter().filter(|(_, vt)| vt == t).map(|(n, _)| n.clone()).collect();
                if vars.is_empty() { Expr::Int(0) } else { Expr::Var(vars[0].clone()) }
            }
            Ty::Named(q, n) => {
                let r = (*q, n.clone());
                if !self.proj.lit_make(t, p) {
                    // only reachable through a function
                    let fs = self.proj.fns_returning(t, sc);
                    if let Some(fr) = fs.first().cloned() {
                        let f = self.proj.fn_def(&fr).cloned().unwrap();
                        let args = f.params.iter().map(|(_, pt)| self.literal_of(sc, pt, 0)).collect();
                        return Expr::Call(Callee::Fn(fr), args);
                    }
                    return Expr::Int(0);
                }
                if let Some(fs) = self.proj.struct_fields(&r).cloned() {
                    if self.nest > 60 {
                        return Expr::Int(0);
                    }
                    self.nest += 1;
                    let fields = fs.iter().map(|(fname, ft)| (fname.clone(), self.expr(sc, ft, depth))).collect();
                    self.nest -= 1;
                    Expr::StructLit(r, fields)
                } else {
                    self.ctor_of(sc, &r, t, depth)
                }
            }
            Ty::App(q, n, _) => self.ctor_of(sc, &(*q, n.clone()), t, depth),
        }
    }

    fn ctor_of(&mut self, sc: &Scope, r: &Ref, t: &Ty, depth: u32) -> Expr {
        let arg = match t {
            Ty::App(_, _, a) => (**a).clone(),
            _ => Ty::Int,
        };
        let Some((_, vs)) = self.proj.enum_def(r) else { return Expr::Int(0) };
        let ok: Vec<(String, Vec<Ty>)> = vs
            .iter()
            .map(|(v, ts)| (v.clone(), ts.iter().map(|x| x.subst(&arg)).collect::<Vec<_>>()))
            .filter(|(_, ts)| ts.iter().all(|x| self.proj.lit_make(x, sc.pkg) || sc.vars.iter().any(|(_, vt)| vt == x)))
            .collect();
        if ok.is_empty() {
            return Expr::Int(0);
        }
        let nominal = |ts: &Vec<Ty>| ts.iter().filter(|x| x.nominal().is_some()).count();
        let k = if self.nest > 4 {
            (0..ok.len()).min_by_key(|i| nominal(&ok[*i].1)).unwrap_or(0)
        } else {
            self.d.below(ok.len())
        };
        let (v, ts) = ok[k].clone();
        if self.nest > 60 && nominal(&ts) > 0 {
            // a type without a finite value cannot be generated; never loop
            return Expr::Int(0);
        }
        self.nest += 1;
        let args = ts.iter().map(|x| self.expr(sc, x, depth)).collect();
        self.nest -= 1;
        Expr::Ctor(r.clone(), v, args)
    }

    fn match_on(&mut self, sc: &Scope, scrut: Expr, en: &Ref, vt: &Ty, t: &Ty, depth: u32) -> Expr {
        let arg = match vt {
            Ty::App(_, _, a) => (**a).clone(),
            _ => Ty::Int,
        };
        let vs = self.proj.enum_def(en).map(|(_, v)| v.clone()).unwrap_or_default();
        let mut arms = vec![];
        for (v, ts) in vs {
            let mut sc2 = sc.clone();
            if let Expr::Var(sv) = &scrut {
                // (a nested match on the same variable is emitted as invalid Go: C02's business)
                sc2.vars.retain(|(n, _)| n != sv);
            }
            let mut bs = vec![];
            for (i, x) in ts.iter().enumerate() {
                let b = format!("m{}x{}", depth, i);
                sc2.vars.push((b.clone(), x.subst(&arg)));
                bs.push(b);
            }
            let e = self.expr(&sc2, t, depth);
            arms.push((v, bs, e));
        }
        Expr::Match { scrut: Box::new(scrut), en: en.clone(), arms, ty: t.clone() }
    }

    /// a string rendering of a value (for `main`): shows everything scope can see
    pub fn show(&mut self, p: usize, e: Expr, t: &Ty, depth: u32) -> Expr {
        match t {
            Ty::Int => Expr::Call(Callee::Builtin("int32_to_string"), vec![e]),
            Ty::Str => e,
            Ty::Bool => Expr::Call(Callee::Builtin("bool_to_string"), vec![e]),
            Ty::Param(_) => Expr::Str("?".into()),
            Ty::Named(q, n) | Ty::App(q, n, _) => {
                let r = (*q, n.clone());
                if !self.proj.sees(p, *q) || depth > 3 {
                    return Expr::Str(format!("<{n}>"));
                }
                if let Some(fs) = self.proj.struct_fields(&r).cloned() {
                    let mut acc = Expr::Str(format!("{n}{{"));
                    for (fname, ft) in fs {
                        let fe = Expr::Field(Box::new(e.clone()), fname);
                        let s = self.show(p, fe, &ft, depth + 1);
                        acc = Expr::Bin("+", Box::new(acc), Box::new(s));
                        acc = Expr::Bin("+", Box::new(acc), Box::new(Expr::Str(";".into())));
                    }
                    Expr::Bin("+", Box::new(acc), Box::new(Expr::Str("}".into())))
                } else if let Some((_, vs)) = self.proj.enum_def(&r) {
                    let vs = vs.clone();
                    let arg = match t {
                        Ty::App(_, _, a) => (**a).clone(),
                        _ => Ty::Int,
                    };
                    let mut arms = vec![];
                    for (v, ts) in vs {
                        let mut bs = vec![];
                        let mut acc = Expr::Str(format!("{v}("));
                        for (i, x) in ts.iter().enumerate() {
                            let b = format!("w{depth}{i}");
                            bs.push(b.clone());
                            let s = self.show(p, Expr::Var(b), &x.subst(&arg), depth + 1);
                            acc = Expr::Bin("+", Box::new(acc), Box::new(s));
                            acc = Expr::Bin("+", Box::new(acc), Box::new(Expr::Str(",".into())));
                        }
                        arms.push((v, bs, Expr::Bin("+", Box::new(acc), Box::new(Expr::Str(")".into())))));
                    }
                    Expr::Match { scrut: Box::new(e), en: r, arms, ty: Ty::Str }
                } else {
                    Expr::Str("?".into())
                }
            }
        }
    }

    fn scalar(&mut self) -> Ty {
        [Ty::Int, Ty::Str, Ty::Bool, Ty::Int][self.d.below(4)].clone()
    }

    /// a type package p may mention in a signature
    fn sig_type(&mut self, p: usize, limit: usize) -> Ty {
        let mut cands: Vec<Ty> = vec![];
        for q in self.proj.visible(p) {
            for (i, it) in self.proj.pkgs[q].items.iter().enumerate() {
                if q == p && i >= limit {
                    break;
                }
                match &it.kind {
                    ItemKind::Struct { name, .. } => cands.push(Ty::Named(q, name.clone())),
                    ItemKind::Enum { name, generic: false, .. } => cands.push(Ty::Named(q, name.clone())),
                    ItemKind::Enum { name, generic: true, .. } => {
                        cands.push(Ty::App(q, name.clone(), Box::new(Ty::Int)));
                        cands.push(Ty::App(q, name.clone(), Box::new(Ty::Str)));
                    }
                    _ => {}
                }
            }
        }
        if cands.is_empty() || self.d.chance(110) {
            return self.scalar();
        }
        // prefer types of other packages
        let foreign: Vec<Ty> = cands.iter().filter(|t| t.nominal().map_or(false, |r| r.0 != p)).cloned().collect();
        if !foreign.is_empty() && self.d.chance(150) {
            return foreign[self.d.below(foreign.len())].clone();
        }
        cands[self.d.below(cands.len())].clone()
    }

    fn pick_name(&mut self, pool: &[&str], taken: &BTreeSet<String>) -> String {
        uniq(pool[self.d.below(pool.len())], taken)
    }

    fn push(&mut self, p: usize, kind: ItemKind) {
        let nf = self.proj.pkgs[p].nfiles.max(1);
        let mut file = if nf > 1 { self.d.below(nf) } else { 0 };
        if let ItemKind::Impl { tr, .. } = &kind {
            if tr.0 == p {
                // a trait must be declared before its impls (files are read in name order)
                let tf = self.proj.pkgs[p]
                    .items
                    .iter()
                    .find_map(|i| match &i.kind {
                        ItemKind::Trait { name, .. } if *name == tr.1 => Some(i.file),
                        _ => None,
                    })
                    .unwrap_or(0);
                let base = |f: usize| self.proj.file_name(p, f).rsplit('/').next().unwrap_or("").to_string();
                if base(file) < base(tf) {
                    file = tf;
                }
            }
        }
        self.proj.pkgs[p].items.push(Item { file, kind });
    }

    fn body(&mut self, p: usize, params: &[(String, Ty)], ret: &Ty, depth: u32) -> (Vec<Stmt>, Expr) {
        let mut sc = Scope { pkg: p, vars: params.to_vec(), limit: self.proj.pkgs[p].items.len() };
        let mut stmts = vec![];
        let nlets = self.d.below(3);
        for i in 0..nlets {
            let t = if self.d.bool() { self.scalar() } else { self.sig_type(p, sc.limit) };
            if !self.proj.lit_make(&t, p) && self.proj.fns_returning(&t, &sc).is_empty() {
                continue;
            }
            let e = self.expr(&sc, &t, depth);
            let n = format!("v{i}");
            stmts.push(Stmt::Let(n.clone(), Some(t.clone()), e));
            sc.vars.push((n, t));
        }
        let r = self.expr(&sc, ret, depth);
        (stmts, r)
    }

    fn gen_pkg(&mut self, p: usize) {
        let is_main = p == 0;
        // a library of declarations only: types, no function, no impl (its core has no toplevels)
        let decl_only = !is_main && self.d.chance(45);
        // ---- structs
        let ns = if decl_only { 1 + self.d.below(2) } else { self.d.below(3) };
        for _ in 0..ns {
            let taken = self.proj.item_names(p);
            let name = self.pick_name(STRUCT_NAMES, &taken);
            let nf = 1 + self.d.below(3);
            let mut fields: Vec<(String, Ty)> = vec![];
            for _ in 0..nf {
                let ft = BTreeSet::from_iter(fields.iter().map(|(n, _)| n.clone()));
                let fname = self.pick_name(FIELD_NAMES, &ft);
                let limit = self.proj.pkgs[p].items.len();
                let t = if self.d.chance(170) { self.scalar() } else { self.sig_type(p, limit) };
                fields.push((fname, t));
            }
            self.push(p, ItemKind::Struct { name, fields });
        }
        // ---- enums
        let ne = self.d.below(3);
        for k in 0..ne {
            let taken = self.proj.item_names(p);
            let generic = k == 0 && self.d.chance(130);
            let name = self.pick_name(if generic { GENUM_NAMES } else { ENUM_NAMES }, &taken);
            let nv = 2 + self.d.below(2);
            let mut variants: Vec<(String, Vec<Ty>)> = vec![];
            let mut vt = self.proj.variant_names(p);
            for i in 0..nv {
                let v = self.pick_name(VARIANT_NAMES, &vt);
                vt.insert(v.clone());
                let payload = if generic && i == 0 {
                    if self.d.chance(60) { vec![Ty::Param("T".into()), Ty::Int] } else { vec![Ty::Param("T".into())] }
                } else if i == 1 {
                    vec![]
                } else {
                    let limit = self.proj.pkgs[p].items.len();
                    match self.d.below(4) {
                        0 => vec![],
                        1 => vec![self.scalar()],
                        2 => vec![self.scalar(), self.scalar()],
                        _ => vec![self.sig_type(p, limit)],
                    }
                };
                variants.push((v, payload));
            }
            self.push(p, ItemKind::Enum { name, generic, variants });
        }
        if decl_only {
            return;
        }
        // ---- traits
        let nt = self.d.below(3).min(if is_main { 1 } else { 2 });
        for _ in 0..nt {
            let taken = self.proj.item_names(p);
            let name = self.pick_name(TRAIT_NAMES, &taken);
            let nm = 1 + self.d.below(2);
            let mut methods: Vec<TraitMethod> = vec![];
            for _ in 0..nm {
                let mt = BTreeSet::from_iter(methods.iter().map(|m| m.name.clone()));
                let mname = self.pick_name(METHOD_NAMES, &mt);
                let ret = if self.d.bool() { Ty::Str } else { Ty::Int };
                let extra = if self.d.chance(90) { vec![self.scalar()] } else { vec![] };
                methods.push(TraitMethod { name: mname, extra, ret });
            }
            self.push(p, ItemKind::Trait { name, methods });
        }
        // ---- impls: (own trait × visible type) and (imported trait × own type)
        let mut pairs: Vec<(Ref, Ty)> = vec![];
        let mut own_types: Vec<Ty> = vec![];
        let mut vis_types: Vec<Ty> = vec![Ty::Int, Ty::Str, Ty::Bool];
        for q in self.proj.visible(p) {
            for it in &self.proj.pkgs[q].items {
                let t = match &it.kind {
                    ItemKind::Struct { name, .. } => Ty::Named(q, name.clone()),
                    ItemKind::Enum { name, generic: false, .. } => Ty::Named(q, name.clone()),
                    ItemKind::Enum { name, generic: true, .. } => Ty::App(q, name.clone(), Box::new(Ty::Int)),
                    _ => continue,
                };
                if q == p {
                    own_types.push(t.clone());
                }
                vis_types.push(t);
            }
        }
        for q in self.proj.visible(p) {
            for it in &self.proj.pkgs[q].items {
                if let ItemKind::Trait { name, .. } = &it.kind {
                    let tr = (q, name.clone());
                    let types = if q == p { &vis_types } else { &own_types };
                    for t in types {
                        pairs.push((tr.clone(), t.clone()));
                    }
                }
            }
        }
        let existing: BTreeSet<(Ref, Ty)> = self.proj.impls().into_iter().map(|(_, t, ty)| (t, ty)).collect();
        pairs.retain(|pr| !existing.contains(pr));
        for (tr, ty) in pairs {
            if !self.d.chance(120) {
                continue;
            }
            let methods = self.impl_methods(p, &tr, &ty);
            self.push(p, ItemKind::Impl { tr, for_ty: ty, methods });
        }
        // ---- inherent impls on own structs
        for t in own_types.clone() {
            let Ty::Named(_, n) = &t else { continue };
            if self.proj.struct_fields(&(p, n.clone())).is_none() || !self.d.chance(90) {
                continue;
            }
            let mut methods = vec![];
            let ret = self.scalar();
            let params = vec![("self".to_string(), t.clone())];
            let (stmts, r) = self.body(p, &params, &ret, 2);
            methods.push(FnDef { name: "norm".into(), tparams: vec![], params, ret: Some(ret), stmts, result: Some(r), shape: Shape::Plain });
            if self.proj.lit_make(&t, p) && self.d.bool() {
                let params = vec![("k".to_string(), Ty::Int)];
                let (stmts, r) = self.body(p, &params, &t, 1);
                methods.push(FnDef { name: "build".into(), tparams: vec![], params, ret: Some(t.clone()), stmts, result: Some(r), shape: Shape::Plain });
            }
            self.push(p, ItemKind::Inherent { ty: (p, n.clone()), methods });
        }
        // ---- generic helpers
        self.gen_generics(p);
        // ---- plain functions
        let nf = 1 + self.d.below(4);
        for _ in 0..nf {
            let taken = self.proj.item_names(p);
            let name = self.pick_name(FN_NAMES, &taken);
            let np = self.d.below(3);
            let limit = self.proj.pkgs[p].items.len();
            let mut params = vec![];
            for i in 0..np {
                params.push((format!("a{i}"), self.sig_type(p, limit)));
            }
            let mut ret = self.sig_type(p, limit);
            let sc = Scope { pkg: p, vars: params.clone(), limit };
            if !self.proj.lit_make(&ret, p) && self.proj.fns_returning(&ret, &sc).is_empty() && !params.iter().any(|(_, t)| *t == ret) {
                ret = self.scalar();
            }
            let (stmts, r) = self.body(p, &params, &ret, 2);
            self.push(p, ItemKind::Fn(FnDef { name, tparams: vec![], params, ret: Some(ret), stmts, result: Some(r), shape: Shape::Plain }));
        }
        // a second round of generic helpers may forward to the first
        if self.d.chance(80) {
            self.gen_generics(p);
        }
    }

    fn impl_methods(&mut self, p: usize, tr: &Ref, ty: &Ty) -> Vec<FnDef> {
        let ms = self.proj.trait_def(tr).cloned().unwrap_or_default();
        let mut out = vec![];
        for m in ms {
            let mut params = vec![("self".to_string(), ty.clone())];
            for (i, t) in m.extra.iter().enumerate() {
                params.push((format!("e{i}"), t.clone()));
            }
            let (stmts, r) = self.body(p, &params, &m.ret, 2);
            out.push(FnDef { name: m.name.clone(), tparams: vec![], params, ret: Some(m.ret.clone()), stmts, result: Some(r), shape: Shape::Plain });
        }
        out
    }

    fn gen_generics(&mut self, p: usize) {
        let t = || Ty::Param("T".into());
        let tp = || vec![("T".to_string(), vec![])];
        if self.d.chance(70) {
            let taken = self.proj.item_names(p);
            let name = uniq("same", &taken);
            self.push(p, ItemKind::Fn(FnDef { name, tparams: tp(), params: vec![("x".into(), t())], ret: Some(t()), stmts: vec![], result: Some(Expr::Var("x".into())), shape: Shape::Id }));
        }
        if self.d.chance(50) {
            let taken = self.proj.item_names(p);
            let name = uniq("choose", &taken);
            let body = Expr::If(Box::new(Expr::Var("c".into())), Box::new(Expr::Var("a".into())), Box::new(Expr::Var("b".into())));
            self.push(p, ItemKind::Fn(FnDef {
                name,
                tparams: tp(),
                params: vec![("c".into(), Ty::Bool), ("a".into(), t()), ("b".into(), t())],
                ret: Some(t()),
                stmts: vec![],
                result: Some(body),
                shape: Shape::Pick,
            }));
        }
        // wrap / unwrap over a visible generic enum
        let mut genums: Vec<(Ref, Vec<(String, Vec<Ty>)>)> = vec![];
        for q in self.proj.visible(p) {
            for it in &self.proj.pkgs[q].items {
                if let ItemKind::Enum { name, generic: true, variants } = &it.kind {
                    genums.push(((q, name.clone()), variants.clone()));
                }
            }
        }
        for (er, vs) in genums {
            let et = Ty::App(er.0, er.1.clone(), Box::new(t()));
            if self.d.chance(110) {
                let taken = self.proj.item_names(p);
                let name = uniq("wrap", &taken);
                let (v, ts) = vs.iter().find(|(_, ts)| ts.iter().any(|x| x.has_param())).cloned().unwrap();
                let args = ts.iter().map(|x| if x.has_param() { Expr::Var("x".into()) } else { Expr::Int(self.d.below(9) as i32) }).collect();
                self.push(p, ItemKind::Fn(FnDef {
                    name,
                    tparams: tp(),
                    params: vec![("x".into(), t())],
                    ret: Some(et.clone()),
                    stmts: vec![],
                    result: Some(Expr::Ctor(er.clone(), v, args)),
                    shape: Shape::Wrap(er.clone()),
                }));
            }
            if self.d.chance(110) {
                let taken = self.proj.item_names(p);
                let name = uniq("unwrap", &taken);
                let mut arms = vec![];
                for (v, ts) in &vs {
                    let bs: Vec<String> = (0..ts.len()).map(|i| format!("u{i}")).collect();
                    let e = match ts.iter().position(|x| matches!(x, Ty::Param(_))) {
                        Some(i) => Expr::Var(bs[i].clone()),
                        None => Expr::Var("d".into()),
                    };
                    arms.push((v.clone(), bs, e));
                }
                self.push(p, ItemKind::Fn(FnDef {
                    name,
                    tparams: tp(),
                    params: vec![("b".into(), et.clone()), ("d".into(), t())],
                    ret: Some(t()),
                    stmts: vec![],
                    result: Some(Expr::Match { scrut: Box::new(Expr::Var("b".into())), en: er.clone(), arms, ty: t() }),
                    shape: Shape::Unwrap(er.clone()),
                }));
            }
        }
        // bounded: fn[T: Tr](x: T) -> string, directly or forwarding
        let mut traits: Vec<(Ref, Vec<TraitMethod>)> = vec![];
        for q in self.proj.visible(p) {
            for it in &self.proj.pkgs[q].items {
                if let ItemKind::Trait { name, methods } = &it.kind {
                    traits.push(((q, name.clone()), methods.clone()));
                }
            }
        }
        for (tr, ms) in traits {
            if !self.d.chance(130) {
                continue;
            }
            let taken = self.proj.item_names(p);
            let name = uniq("describe", &taken);
            let sc = Scope { pkg: p, vars: vec![], limit: self.proj.pkgs[p].items.len() };
            let fwd: Vec<Ref> = self
                .proj
                .shaped_fns(&sc, |s| *s == Shape::Show(tr.clone()))
                .into_iter()
                .map(|(r, _)| r)
                .collect();
            let core = if !fwd.is_empty() && self.d.chance(140) {
                let r = fwd[self.d.below(fwd.len())].clone();
                Expr::Call(Callee::Fn(r), vec![Expr::Var("x".into())])
            } else {
                let m = ms[self.d.below(ms.len())].clone();
                let mut args = vec![Expr::Var("x".into())];
                for et in &m.extra {
                    args.push(self.lit(et));
                }
                let call = Expr::Call(Callee::Trait(tr.clone(), m.name.clone()), args);
                if m.ret == Ty::Int { Expr::Call(Callee::Builtin("int32_to_string"), vec![call]) } else { call }
            };
            let tag = Expr::Str(format!("{}.", WORDS[self.d.below(WORDS.len())]));
            self.push(p, ItemKind::Fn(FnDef {
                name,
                tparams: vec![("T".to_string(), vec![tr.clone()])],
                params: vec![("x".into(), t())],
                ret: Some(Ty::Str),
                stmts: vec![],
                result: Some(Expr::Bin("+", Box::new(tag), Box::new(core))),
                shape: Shape::Show(tr.clone()),
            }));
        }
    }

    fn emit(&mut self, e: Expr, t: &Ty, stmts: &mut Vec<Stmt>) {
        let v = format!("t{}", self.tmp);
        self.tmp += 1;
        let showable = match t.nominal() {
            Some(r) => self.proj.sees(0, r.0),
            None => true,
        };
        let ann = if showable { Some(t.clone()) } else { None };
        stmts.push(Stmt::Let(v.clone(), ann, e));
        let s = self.show(0, Expr::Var(v), t, 0);
        stmts.push(Stmt::Print(s));
    }

    fn main_recv(&mut self, sc: &Scope, t: &Ty, stmts: &mut Vec<Stmt>) -> Expr {
        if let Ty::App(..) = t {
            let v = format!("r{}", self.tmp);
            self.tmp += 1;
            let e = self.expr(sc, t, 1);
            stmts.push(Stmt::Let(v.clone(), Some(t.clone()), e));
            return Expr::Var(v);
        }
        self.expr(sc, t, 1)
    }

    /// `fn main`: call what Main can see and print the results
    fn gen_main(&mut self) {
        enum Plan {
            Fn(Ref, FnDef),
            Trait(Ref, TraitMethod, Ty),
            Inh(Ref, FnDef),
        }
        let limit = self.proj.pkgs[0].items.len();
        let sc = Scope { pkg: 0, vars: vec![], limit };
        let mut plans: Vec<Plan> = vec![];
        for q in self.proj.visible(0) {
            for it in &self.proj.pkgs[q].items {
                match &it.kind {
                    ItemKind::Fn(f) => plans.push(Plan::Fn((q, f.name.clone()), f.clone())),
                    ItemKind::Trait { name, methods } => {
                        let tr = (q, name.clone());
                        for ty in self.proj.impl_types(&tr, 0) {
                            for m in methods {
                                plans.push(Plan::Trait(tr.clone(), m.clone(), ty.clone()));
                            }
                        }
                    }
                    ItemKind::Inherent { ty, methods } => {
                        for m in methods {
                            plans.push(Plan::Inh(ty.clone(), m.clone()));
                        }
                    }
                    _ => {}
                }
            }
        }
        for i in 0..plans.len() {
            let j = i + self.d.below(plans.len() - i);
            plans.swap(i, j);
        }
        // a long `main` becomes a deeply nested core expression
        let cap = if self.ctx.gated("core:deep-nesting") { 2 + self.d.below(6) } else { 2 + self.d.below(26) };
        let mut stmts: Vec<Stmt> = vec![];
        let mut done = 0;
        for plan in plans {
            if done >= cap {
                break;
            }
            match plan {
                Plan::Fn(r, f) => match &f.shape {
                    Shape::Plain => {
                        if !f.params.iter().all(|(_, t)| self.proj.lit_make(t, 0) || !self.proj.fns_returning(t, &sc).is_empty()) {
                            continue;
                        }
                        let args = f.params.iter().map(|(_, t)| self.expr(&sc, t, 2)).collect();
                        let t = f.ret.clone().unwrap();
                        self.emit(Expr::Call(Callee::Fn(r.clone()), args), &t, &mut stmts);
                    }
                    Shape::Id | Shape::Pick => {
                        let t = self.sig_type(0, limit);
                        if !self.proj.lit_make(&t, 0) {
                            continue;
                        }
                        let mut args = vec![];
                        if f.shape == Shape::Pick {
                            args.push(self.expr(&sc, &Ty::Bool, 1));
                            args.push(self.expr(&sc, &t, 1));
                        }
                        args.push(self.expr(&sc, &t, 1));
                        self.emit(Expr::Call(Callee::Fn(r.clone()), args), &t, &mut stmts);
                    }
                    Shape::Wrap(e) => {
                        let a = self.scalar();
                        let t = Ty::App(e.0, e.1.clone(), Box::new(a.clone()));
                        let arg = self.expr(&sc, &a, 1);
                        self.emit(Expr::Call(Callee::Fn(r.clone()), vec![arg]), &t, &mut stmts);
                    }
                    Shape::Unwrap(e) => {
                        if !self.proj.sees(0, e.0) {
                            continue;
                        }
                        let a = self.scalar();
                        let bt = Ty::App(e.0, e.1.clone(), Box::new(a.clone()));
                        let b = self.expr(&sc, &bt, 2);
                        let dflt = self.expr(&sc, &a, 1);
                        self.emit(Expr::Call(Callee::Fn(r.clone()), vec![b, dflt]), &a, &mut stmts);
                    }
                    Shape::Show(tr) => {
                        let its = self.proj.impl_types(tr, 0);
                        if its.is_empty() {
                            continue;
                        }
                        let it = its[self.d.below(its.len())].clone();
                        let arg = self.main_recv(&sc, &it, &mut stmts);
                        self.emit(Expr::Call(Callee::Fn(r.clone()), vec![arg]), &Ty::Str, &mut stmts);
                    }
                },
                Plan::Trait(tr, m, it) => {
                    let mut args = vec![self.main_recv(&sc, &it, &mut stmts)];
                    for et in &m.extra {
                        args.push(self.expr(&sc, et, 1));
                    }
                    self.emit(Expr::Call(Callee::Trait(tr.clone(), m.name.clone()), args), &m.ret, &mut stmts);
                }
                Plan::Inh(ty, m) => {
                    if !m.params.iter().all(|(_, t)| self.proj.lit_make(t, 0)) {
                        continue;
                    }
                    let args: Vec<Expr> = m.params.iter().map(|(_, t)| self.expr(&sc, t, 1)).collect();
                    let t = m.ret.clone().unwrap();
                    if m.params.first().map_or(false, |(n, _)| n == "self") && self.d.bool() {
                        // method syntax on an annotated variable
                        let v = format!("r{}", self.tmp);
                        self.tmp += 1;
                        stmts.push(Stmt::Let(v.clone(), Some(Ty::Named(ty.0, ty.1.clone())), args[0].clone()));
                        self.emit(Expr::Method(Box::new(Expr::Var(v)), m.name.clone(), args[1..].to_vec()), &t, &mut stmts);
                    } else {
                        self.emit(Expr::Call(Callee::Inh(ty.clone(), m.name.clone()), args), &t, &mut stmts);
                    }
                }
            }
            done += 1;
        }
        if stmts.is_empty() {
            stmts.push(Stmt::Print(Expr::Str("main".into())));
        }
        self.proj.pkgs[0].items.push(Item {
            file: 0,
            kind: ItemKind::Fn(FnDef { name: "main".into(), tparams: vec![], params: vec![], ret: None, stmts, result: None, shape: Shape::Plain }),
        });
    }
}

/// Generate a legal project from the choice bytes.
/// Text-level addition to a rendered legal project: one package that Main imports gets an `extern "go"`
/// function, and `main` calls it through the package path (`Lib::ext_up("a")`): exported names of every
/// kind are visible to importers. Returns false when the project has no such package.
pub fn add_cross_package_extern(files: &mut Vec<(String, String)>) -> bool {
    let Some(mi) = files.iter().position(|(p, _)| p == "main.gom") else { return false };
    let imports: Vec<String> = files[mi]
        .1
        .lines()
        .filter_map(|l| l.trim().strip_prefix("import "))
        .map(|r| r.trim().to_string())
        .collect();
    for pkg in imports {
        let prefix = format!("{pkg}/");
        let Some(li) = files.iter().position(|(p, t)| p.starts_with(&prefix) && t.starts_with(&format!("package {pkg}\n"))) else { continue };
        if files[li].1.contains("ext_up") {
            continue;
        }
        let lines: Vec<String> = files[mi].1.lines().map(|l| l.to_string()).collect();
        let Some(ml) = lines.iter().position(|l| l.starts_with("fn main(") && l.trim_end().ends_with('{')) else { return false };
        files[li].1.push_str("\nextern \"go\" \"strings\" \"ToUpper\" ext_up(s: string) -> string\n");
        let mut out = String::new();
        for (i, l) in lines.iter().enumerate() {
            out.push_str(l);
            out.push('\n');
            if i == ml {
                out.push_str(&format!("    let _ = {pkg}::ext_up(\"a\");\n"));
            }
        }
        files[mi].1 = out;
        return true;
    }
    false
}

/// Text-level addition to a rendered legal project: package `Shp16` (two structs), package `Rnd16` (imports Shp16;
/// a trait, its impls for the Shp16 types and for int32 - the impls live in the TRAIT's package, not the type's),
/// and Main, a third package that imports both, calls the trait statically and coerces the Shp16 values to
/// `dyn Rnd16::Draw16` (annotated let, argument position, parameter of a Rnd16 function).
pub fn add_dyn_third_package(files: &mut Vec<(String, String)>) -> bool {
    let Some(mi) = files.iter().position(|(p, _)| p == "main.gom") else { return false };
    if files.iter().any(|(p, _)| p.starts_with("Shp16/") || p.starts_with("Rnd16/")) {
        return false;
    }
    let lines: Vec<String> = files[mi].1.lines().map(|l| l.to_string()).collect();
    let Some(ml) = lines.iter().position(|l| l.starts_with("fn main(") && l.trim_end().ends_with('{')) else { return false };
    let Some(il) = lines.iter().rposition(|l| l.starts_with("import ") || l.starts_with("package ")) else { return false };
    if il >= ml {
        return false;
    }
    let mut out = String::new();
    for (i, l) in lines.iter().enumerate() {
        if i == ml {
            out.push_str("fn use_draw16(d: dyn Rnd16::Draw16) -> string {\n    \"<\" + Rnd16::Draw16::draw16(d) + \">\"\n}\n\n");
        }
        out.push_str(l);
        out.push('\n');
        if i == il {
            out.push_str("import Rnd16\nimport Shp16\n");
        }
        if i == ml {
            out.push_str("    let c16 = Shp16::Circle16 { r: 2 };\n    let s16 = Shp16::Square16 { side: 5 };\n    let _ = string_println(Rnd16::Draw16::draw16(c16));\n    let _ = string_println(Rnd16::show16(c16));\n    let d16: dyn Rnd16::Draw16 = s16;\n    let _ = string_println(Rnd16::Draw16::draw16(d16));\n    let _ = string_println(use_draw16(c16));\n    let _ = string_println(use_draw16(7));\n");
        }
    }
    files[mi].1 = out;
    files.push((
        "Shp16/lib.gom".into(),
        "package Shp16\n\nstruct Circle16 {\n    r: int32,\n}\n\nstruct Square16 {\n    side: int32,\n}\n".into(),
    ));
    files.push((
        "Rnd16/lib.gom".into(),
        "package Rnd16\nimport Shp16\n\ntrait Draw16 {\n    fn draw16(Self) -> string;\n}\n\nimpl Draw16 for Shp16::Circle16 {\n    fn draw16(self: Shp16::Circle16) -> string {\n        \"circle r=\" + int32_to_string(self.r)\n    }\n}\n\nimpl Draw16 for Shp16::Square16 {\n    fn draw16(self: Shp16::Square16) -> string {\n        \"square side=\" + int32_to_string(self.side)\n    }\n}\n\nimpl Draw16 for int32 {\n    fn draw16(self: int32) -> string {\n        \"int \" + int32_to_string(self)\n    }\n}\n\nfn show16(d: dyn Draw16) -> string {\n    \"[\" + Draw16::draw16(d) + \"]\"\n}\n".into(),
    ));
    files.sort();
    true
}

pub fn gen_project(d: &mut Dec, ctx: &mut Ctx) -> Project {
    gen_project_sized(d, ctx, 0, 4)
}

/// the same with bounds on the number of library packages
pub fn gen_project_sized(d: &mut Dec, ctx: &mut Ctx, min_libs: usize, max_libs: usize) -> Project {
    let nlibs = min_libs + d.below(max_libs - min_libs + 1);
    // names: a permutation, so that dependency order and name order differ
    let mut names: Vec<&str> = LIB_NAMES.to_vec();
    for i in 0..names.len() {
        let j = i + d.below(names.len() - i);
        names.swap(i, j);
    }
    let mut pkgs = vec![Pkg { name: "Main".into(), imports: vec![], nfiles: 1, file_names: vec![], items: vec![] }];
    for i in 0..nlibs {
        pkgs.push(Pkg { name: names[i].to_string(), imports: vec![], nfiles: 1, file_names: vec![], items: vec![] });
    }
    // DAG: package i may import j > i
    for i in 1..=nlibs {
        for j in (i + 1)..=nlibs {
            if d.chance(140) {
                pkgs[i].imports.push(j);
            }
        }
    }
    for j in 1..=nlibs {
        let imported = (1..j).any(|i| pkgs[i].imports.contains(&j));
        if !imported || d.chance(120) {
            pkgs[0].imports.push(j);
        }
    }
    for (pi, pk) in pkgs.iter_mut().enumerate() {
        if d.chance(70) {
            pk.nfiles = 2 + d.below(2);
            for f in 1..pk.nfiles {
                // some files sort before lib.gom / main.gom
                let early = d.chance(90) && !ctx.gated("pkg:file-before-entry");
                pk.file_names.push(if early { format!("aux{f}.gom") } else { format!("part{f}.gom") });
            }
            // two file names that differ only in case (their order must not be left to the
            // directory enumeration); the upper-case one sorts before the entry file
            if pk.nfiles == 3 && d.chance(80) && (pi > 0 || !ctx.gated("pkg:file-before-entry")) {
                pk.file_names[0] = "part.gom".into();
                pk.file_names[1] = "Part.gom".into();
            }
        }
    }
    let mut g = Gen { d, proj: Project { pkgs, counter: 0 }, ctx, tmp: 0, nest: 0 };
    for p in (1..=nlibs).rev() {
        g.gen_pkg(p);
    }
    g.gen_pkg(0);
    g.gen_main();
    g.proj
}

// ----------------------------------------------------------------- visitors

impl Expr {
    pub fn children_mut(&mut self) -> Vec<&mut Expr> {
        match self {
            Expr::Int(_) | Expr::Str(_) | Expr::Bool(_) | Expr::Var(_) => vec![],
            Expr::Bin(_, a, b) => vec![a.as_mut(), b.as_mut()],
            Expr::Not(a) => vec![a.as_mut()],
            Expr::If(c, a, b) => vec![c.as_mut(), a.as_mut(), b.as_mut()],
            Expr::Call(_, args) | Expr::Ctor(_, _, args) => args.iter_mut().collect(),
            Expr::Method(r, _, args) => {
                let mut v = vec![r.as_mut()];
                v.extend(args.iter_mut());
                v
            }
            Expr::StructLit(_, fs) => fs.iter_mut().map(|(_, e)| e).collect(),
            Expr::Field(r, _) => vec![r.as_mut()],
            Expr::Match { scrut, arms, .. } => {
                let mut v = vec![scrut.as_mut()];
                v.extend(arms.iter_mut().map(|(_, _, e)| e));
                v
            }
        }
    }
    /// post-order
    pub fn walk_mut(&mut self, f: &mut dyn FnMut(&mut Expr)) {
        for c in self.children_mut() {
            c.walk_mut(f);
        }
        f(self);
    }
}

impl FnDef {
    pub fn walk_exprs_mut(&mut self, f: &mut dyn FnMut(&mut Expr)) {
        for st in self.stmts.iter_mut() {
            match st {
                Stmt::Let(_, _, e) | Stmt::Print(e) => e.walk_mut(f),
            }
        }
        if let Some(r) = self.result.as_mut() {
            r.walk_mut(f);
        }
    }
    pub fn walk_types_mut(&mut self, f: &mut dyn FnMut(&mut Ty)) {
        for (_, t) in self.params.iter_mut() {
            f(t);
        }
        if let Some(t) = self.ret.as_mut() {
            f(t);
        }
        for st in self.stmts.iter_mut() {
            if let Stmt::Let(_, Some(t), _) = st {
                f(t);
            }
        }
        self.walk_exprs_mut(&mut |e| {
            if let Expr::Match { ty, .. } = e {
                f(ty);
            }
        });
    }
}

impl Item {
    pub fn fns_mut(&mut self) -> Vec<&mut FnDef> {
        match &mut self.kind {
            ItemKind::Fn(f) => vec![f],
            ItemKind::Impl { methods, .. } | ItemKind::Inherent { methods, .. } => methods.iter_mut().collect(),
            _ => vec![],
        }
    }
}

impl Project {
    /// every function body of the project: (package, function)
    pub fn walk_fns_mut(&mut self, f: &mut dyn FnMut(usize, &mut FnDef)) {
        for (p, pk) in self.pkgs.iter_mut().enumerate() {
            for it in pk.items.iter_mut() {
                for fd in it.fns_mut() {
                    f(p, fd);
                }
            }
        }
    }
    pub fn walk_exprs_mut(&mut self, f: &mut dyn FnMut(usize, &mut Expr)) {
        self.walk_fns_mut(&mut |p, fd| fd.walk_exprs_mut(&mut |e| f(p, e)));
    }
    /// every type mentioned anywhere (signatures, fields, payloads, impl heads)
    pub fn walk_types_mut(&mut self, f: &mut dyn FnMut(&mut Ty)) {
        fn deep(t: &mut Ty, f: &mut dyn FnMut(&mut Ty)) {
            if let Ty::App(_, _, a) = t {
                deep(a, f);
            }
            f(t);
        }
        for pk in self.pkgs.iter_mut() {
            for it in pk.items.iter_mut() {
                match &mut it.kind {
                    ItemKind::Struct { fields, .. } => fields.iter_mut().for_each(|(_, t)| deep(t, f)),
                    ItemKind::Enum { variants, .. } => variants.iter_mut().for_each(|(_, ts)| ts.iter_mut().for_each(|t| deep(t, f))),
                    ItemKind::Trait { methods, .. } => methods.iter_mut().for_each(|m| {
                        m.extra.iter_mut().for_each(|t| deep(t, f));
                        deep(&mut m.ret, f);
                    }),
                    ItemKind::Impl { for_ty, .. } => deep(for_ty, f),
                    _ => {}
                }
                for fd in it.fns_mut() {
                    fd.walk_types_mut(&mut |t| deep(t, f));
                }
            }
        }
    }

    /// shape labels of the project (for coverage reports and non-triviality)
    pub fn features(&self) -> Vec<String> {
        let mut me = self.clone();
        let n = self.pkgs.len();
        let mut out: BTreeSet<String> = BTreeSet::new();
        out.insert(format!("pkgs:{n}"));
        if self.pkgs.iter().skip(1).any(|p| !p.items.is_empty() && p.items.iter().all(|i| matches!(i.kind, ItemKind::Struct { .. } | ItemKind::Enum { .. }))) {
            out.insert("decl-only-package".into());
        }
        let edges: usize = self.pkgs.iter().map(|p| p.imports.len()).sum();
        let max_in = (0..n).map(|j| self.pkgs.iter().filter(|p| p.imports.contains(&j)).count()).max().unwrap_or(0);
        let shape = if n == 1 {
            "single"
        } else if max_in >= 2 && self.pkgs.iter().any(|p| p.imports.len() >= 2) && n >= 4 {
            "diamond"
        } else if edges == n - 1 && self.pkgs.iter().all(|p| p.imports.len() <= 1) {
            "chain"
        } else if self.pkgs[0].imports.len() == n - 1 && edges == n - 1 {
            "fan"
        } else {
            "dag"
        };
        out.insert(format!("shape:{shape}"));
        if self.pkgs.iter().any(|p| p.nfiles > 1) {
            out.insert("multi-file".into());
        }
        if self.pkgs.iter().any(|p| p.imports.len() >= 2) {
            out.insert("imports>=2".into());
        }
        if (1..n).any(|p| !self.closure(0).contains(&p)) {
            out.insert("unreachable-pkg".into());
        }
        if (1..n).any(|p| self.closure(0).contains(&p) && !self.pkgs[0].imports.contains(&p)) {
            out.insert("transitive-pkg".into());
        }
        let impls = self.impls();
        for (ip, tr, ty) in &impls {
            if tr.0 != *ip {
                out.insert("impl-in-type-pkg".into());
            } else if ty.nominal().map_or(false, |r| r.0 != *ip) {
                out.insert("impl-in-trait-pkg-foreign-type".into());
            }
        }
        let snapshot = self.clone();
        me.walk_exprs_mut(&mut |p, e| match e {
            Expr::Call(Callee::Fn(r), _) if r.0 != p => {
                out.insert("xcall".into());
                if let Some(f) = snapshot.fn_def(r) {
                    if !f.tparams.is_empty() {
                        out.insert("xgeneric".into());
                        if f.tparams.iter().any(|(_, b)| !b.is_empty()) {
                            out.insert("xbounded".into());
                        }
                    }
                }
            }
            Expr::Call(Callee::Trait(r, _), _) if r.0 != p => {
                out.insert("xtrait".into());
            }
            Expr::Call(Callee::Inh(r, _), _) if r.0 != p => {
                out.insert("xinherent".into());
            }
            Expr::Method(..) => {
                out.insert("method-syntax".into());
            }
            Expr::StructLit(r, _) if r.0 != p => {
                out.insert("xstruct".into());
            }
            Expr::Ctor(r, _, _) if r.0 != p => {
                out.insert("xctor".into());
            }
            Expr::Match { en, .. } if en.0 != p => {
                out.insert("xmatch".into());
            }
            _ => {}
        });
        me.walk_fns_mut(&mut |p, f| {
            if f.tparams.iter().any(|(_, bs)| bs.iter().any(|b| b.0 != p)) {
                out.insert("xbound-decl".into());
            }
        });
        out.into_iter().collect()
    }
}

// ----------------------------------------------------------- edit operators

pub const IFACE_EDITS: &[&str] = &[
    "add-fn",
    "remove-fn",
    "rename-fn",
    "rename-type",
    "add-param",
    "change-param-type",
    "change-ret-type",
    "add-field",
    "add-variant",
    "reorder-variants",
    "reorder-fields",
    "add-trait-method",
    "add-impl",
    "add-trait",
    "change-bound",
    "add-struct",
];

fn default_scalar(t: &Ty, k: i32) -> Expr {
    match t {
        Ty::Str => Expr::Str(format!("d{k}")),
        Ty::Bool => Expr::Bool(k % 2 == 0),
        _ => Expr::Int(k),
    }
}

impl Project {
    fn fn_is_referenced(&self, r: &Ref) -> bool {
        let mut me = self.clone();
        let mut used = false;
        me.walk_exprs_mut(&mut |_, e| {
            if let Expr::Call(Callee::Fn(x), _) = e {
                if x == r {
                    used = true;
                }
            }
        });
        used
    }

    /// Change something inside one function body of package p (no signature,
    /// no item list changes). Returns a description.
    pub fn edit_body(&mut self, p: usize, d: &mut Dec) -> Option<String> {
        // (item index, method index)
        let mut slots = vec![];
        for (i, it) in self.pkgs[p].items.iter().enumerate() {
            match &it.kind {
                ItemKind::Fn(_) => slots.push((i, 0)),
                ItemKind::Impl { methods, .. } | ItemKind::Inherent { methods, .. } => {
                    for m in 0..methods.len() {
                        slots.push((i, m));
                    }
                }
                _ => {}
            }
        }
        if slots.is_empty() {
            return None;
        }
        let start = d.below(slots.len());
        let pick = d.below(64);
        for k in 0..slots.len() {
            let (i, m) = slots[(start + k) % slots.len()];
            let f: &mut FnDef = match &mut self.pkgs[p].items[i].kind {
                ItemKind::Fn(f) => f,
                ItemKind::Impl { methods, .. } | ItemKind::Inherent { methods, .. } => &mut methods[m],
                _ => continue,
            };
            // count the literals, then change the chosen one
            let mut n = 0usize;
            f.walk_exprs_mut(&mut |e| {
                if matches!(e, Expr::Int(_) | Expr::Str(_) | Expr::Bool(_)) {
                    n += 1;
                }
            });
            if n > 0 {
                let target = pick % n;
                let mut seen = 0usize;
                let mut what = String::new();
                f.walk_exprs_mut(&mut |e| {
                    if matches!(e, Expr::Int(_) | Expr::Str(_) | Expr::Bool(_)) {
                        if seen == target {
                            match e {
                                Expr::Int(i) => {
                                    what = format!("{i} -> {}", (*i + 1) % 50);
                                    *i = (*i + 1) % 50;
                                }
                                Expr::Str(s) => {
                                    what = format!("{s:?} -> {:?}", format!("{s}z"));
                                    s.push('z');
                                }
                                Expr::Bool(b) => {
                                    what = format!("{b} -> {}", !*b);
                                    *b = !*b;
                                }
                                _ => {}
                            }
                        }
                        seen += 1;
                    }
                });
                return Some(format!("literal in {}: {what}", f.name));
            }
            // no literal: wrap the result
            let wrapped = match (&f.ret, f.result.clone()) {
                (Some(Ty::Int), Some(r)) => Some(Expr::Bin("+", Box::new(r), Box::new(Expr::Int(1)))),
                (Some(Ty::Str), Some(r)) => Some(Expr::Bin("+", Box::new(r), Box::new(Expr::Str("z".into())))),
                (Some(Ty::Bool), Some(r)) => Some(Expr::Not(Box::new(r))),
                _ => None,
            };
            if let Some(w) = wrapped {
                f.result = Some(w);
                return Some(format!("result of {} wrapped", f.name));
            }
        }
        None
    }

    /// An edit of package p that dependents can see. Call sites in the whole
    /// project are adapted so that the project stays legal. Returns the kind
    /// actually applied.
    pub fn edit_iface(&mut self, p: usize, which: usize, d: &mut Dec) -> Option<&'static str> {
        let n0 = IFACE_EDITS.len();
        for off in 0..n0 {
            let kind = IFACE_EDITS[(which + off) % n0];
            if self.try_iface_edit(p, kind, d) {
                return Some(kind);
            }
        }
        None
    }

    fn try_iface_edit(&mut self, p: usize, kind: &'static str, d: &mut Dec) -> bool {
        self.counter += 1;
        let k = self.counter as i32;
        let nf = self.pkgs[p].nfiles.max(1);
        let file = d.below(nf);
        let plain_fns: Vec<usize> = self.pkgs[p]
            .items
            .iter()
            .enumerate()
            .filter(|(_, it)| matches!(&it.kind, ItemKind::Fn(f) if f.shape == Shape::Plain && f.name != "main"))
            .map(|(i, _)| i)
            .collect();
        match kind {
            "add-fn" => {
                let name = format!("extra{k}");
                self.pkgs[p].items.push(Item {
                    file,
                    kind: ItemKind::Fn(FnDef {
                        name,
                        tparams: vec![],
                        params: vec![],
                        ret: Some(Ty::Int),
                        stmts: vec![],
                        result: Some(Expr::Int(k % 50)),
                        shape: Shape::Plain,
                    }),
                });
                true
            }
            "add-struct" => {
                self.pkgs[p].items.push(Item { file, kind: ItemKind::Struct { name: format!("Extra{k}"), fields: vec![("a".into(), Ty::Int)] } });
                true
            }
            "remove-fn" => {
                let unused: Vec<usize> = plain_fns
                    .iter()
                    .copied()
                    .filter(|i| match &self.pkgs[p].items[*i].kind {
                        ItemKind::Fn(f) => !self.fn_is_referenced(&(p, f.name.clone())),
                        _ => false,
                    })
                    .collect();
                if unused.is_empty() {
                    return false;
                }
                let i = unused[d.below(unused.len())];
                self.pkgs[p].items.remove(i);
                true
            }
            "rename-fn" => {
                if plain_fns.is_empty() {
                    return false;
                }
                let i = plain_fns[d.below(plain_fns.len())];
                let old = match &self.pkgs[p].items[i].kind {
                    ItemKind::Fn(f) => f.name.clone(),
                    _ => return false,
                };
                let new = format!("{old}_r{k}");
                if let ItemKind::Fn(f) = &mut self.pkgs[p].items[i].kind {
                    f.name = new.clone();
                }
                let target = (p, old);
                self.walk_exprs_mut(&mut |_, e| {
                    if let Expr::Call(Callee::Fn(r), _) = e {
                        if *r == target {
                            r.1 = new.clone();
                        }
                    }
                });
                true
            }
            "rename-type" => {
                let types: Vec<(usize, String)> = self.pkgs[p]
                    .items
                    .iter()
                    .enumerate()
                    .filter_map(|(i, it)| match &it.kind {
                        ItemKind::Struct { name, .. } | ItemKind::Enum { name, .. } => Some((i, name.clone())),
                        _ => None,
                    })
                    .collect();
                if types.is_empty() {
                    return false;
                }
                let (i, old) = types[d.below(types.len())].clone();
                let new = format!("{old}R{k}");
                match &mut self.pkgs[p].items[i].kind {
                    ItemKind::Struct { name, .. } | ItemKind::Enum { name, .. } => *name = new.clone(),
                    _ => {}
                }
                let target: Ref = (p, old);
                self.walk_types_mut(&mut |t| match t {
                    Ty::Named(q, n) | Ty::App(q, n, _) if *q == target.0 && *n == target.1 => *n = new.clone(),
                    _ => {}
                });
                self.walk_exprs_mut(&mut |_, e| match e {
                    Expr::StructLit(r, _) | Expr::Ctor(r, _, _) if *r == target => r.1 = new.clone(),
                    Expr::Match { en, .. } if *en == target => en.1 = new.clone(),
                    Expr::Call(Callee::Inh(r, _), _) if *r == target => r.1 = new.clone(),
                    _ => {}
                });
                for pk in self.pkgs.iter_mut() {
                    for it in pk.items.iter_mut() {
                        match &mut it.kind {
                            ItemKind::Inherent { ty, .. } if *ty == target => ty.1 = new.clone(),
                            ItemKind::Fn(f) => match &mut f.shape {
                                Shape::Wrap(r) | Shape::Unwrap(r) if *r == target => r.1 = new.clone(),
                                _ => {}
                            },
                            _ => {}
                        }
                    }
                }
                true
            }
            "add-param" | "change-param-type" | "change-ret-type" => {
                let cands: Vec<usize> = plain_fns
                    .iter()
                    .copied()
                    .filter(|i| match &self.pkgs[p].items[*i].kind {
                        ItemKind::Fn(f) => match kind {
                            "change-param-type" => f.params.iter().any(|(_, t)| *t == Ty::Int),
                            "change-ret-type" => f.ret == Some(Ty::Int),
                            _ => true,
                        },
                        _ => false,
                    })
                    .collect();
                if cands.is_empty() {
                    return false;
                }
                let i = cands[d.below(cands.len())];
                let ItemKind::Fn(f) = &mut self.pkgs[p].items[i].kind else { return false };
                let target: Ref = (p, f.name.clone());
                match kind {
                    "add-param" => {
                        f.params.push((format!("x{k}"), Ty::Int));
                        self.walk_exprs_mut(&mut |_, e| {
                            if let Expr::Call(Callee::Fn(r), args) = e {
                                if *r == target {
                                    args.push(Expr::Int(k % 50));
                                }
                            }
                        });
                    }
                    "change-param-type" => {
                        let idx = f.params.iter().position(|(_, t)| *t == Ty::Int).unwrap();
                        f.params[idx].1 = Ty::Str;
                        let pn = f.params[idx].0.clone();
                        f.walk_exprs_mut(&mut |e| {
                            if matches!(e, Expr::Var(v) if *v == pn) {
                                *e = Expr::Call(Callee::Builtin("string_len"), vec![Expr::Var(pn.clone())]);
                            }
                        });
                        self.walk_exprs_mut(&mut |_, e| {
                            if let Expr::Call(Callee::Fn(r), args) = e {
                                if *r == target && idx < args.len() {
                                    let a = std::mem::replace(&mut args[idx], Expr::Int(0));
                                    args[idx] = Expr::Call(Callee::Builtin("int32_to_string"), vec![a]);
                                }
                            }
                        });
                    }
                    _ => {
                        f.ret = Some(Ty::Str);
                        let r0 = f.result.take().unwrap_or(Expr::Int(0));
                        f.result = Some(Expr::Call(Callee::Builtin("int32_to_string"), vec![r0]));
                        self.walk_exprs_mut(&mut |_, e| {
                            let hit = matches!(e, Expr::Call(Callee::Fn(r), _) if *r == target);
                            if hit {
                                let call = std::mem::replace(e, Expr::Int(0));
                                *e = Expr::Call(Callee::Builtin("string_len"), vec![call]);
                            }
                        });
                    }
                }
                true
            }
            "add-field" => {
                let ss: Vec<usize> = self.pkgs[p].items.iter().enumerate().filter(|(_, it)| matches!(it.kind, ItemKind::Struct { .. })).map(|(i, _)| i).collect();
                if ss.is_empty() {
                    return false;
                }
                let i = ss[d.below(ss.len())];
                let ItemKind::Struct { name, fields } = &mut self.pkgs[p].items[i].kind else { return false };
                let fname = format!("f{k}");
                fields.push((fname.clone(), Ty::Int));
                let target: Ref = (p, name.clone());
                self.walk_exprs_mut(&mut |_, e| {
                    if let Expr::StructLit(r, fs) = e {
                        if *r == target {
                            fs.push((fname.clone(), Expr::Int(k % 50)));
                        }
                    }
                });
                true
            }
            "reorder-fields" => {
                // the same fields in another order: positions in dependents' code change
                let ss: Vec<usize> = self.pkgs[p]
                    .items
                    .iter()
                    .enumerate()
                    .filter(|(_, it)| matches!(&it.kind, ItemKind::Struct { fields, .. } if fields.len() >= 2))
                    .map(|(i, _)| i)
                    .collect();
                if ss.is_empty() {
                    return false;
                }
                let i = ss[d.below(ss.len())];
                let ItemKind::Struct { fields, .. } = &mut self.pkgs[p].items[i].kind else { return false };
                let a = d.below(fields.len() - 1);
                fields.swap(a, a + 1);
                true
            }
            "add-variant" | "reorder-variants" => {
                let es: Vec<usize> = self.pkgs[p].items.iter().enumerate().filter(|(_, it)| matches!(it.kind, ItemKind::Enum { .. })).map(|(i, _)| i).collect();
                if es.is_empty() {
                    return false;
                }
                let i = es[d.below(es.len())];
                let ItemKind::Enum { name, variants, .. } = &mut self.pkgs[p].items[i].kind else { return false };
                if kind == "reorder-variants" {
                    if variants.len() < 2 {
                        return false;
                    }
                    let a = d.below(variants.len() - 1);
                    variants.swap(a, a + 1);
                    return true;
                }
                let nullary = match variants.iter().find(|(_, ts)| ts.is_empty()) {
                    Some((v, _)) => v.clone(),
                    None => return false,
                };
                let vname = format!("New{k}");
                variants.push((vname.clone(), vec![]));
                let target: Ref = (p, name.clone());
                self.walk_exprs_mut(&mut |_, e| {
                    if let Expr::Match { en, arms, .. } = e {
                        if *en == target {
                            if let Some((_, _, body)) = arms.iter().find(|(v, _, _)| *v == nullary).cloned() {
                                arms.push((vname.clone(), vec![], body));
                            }
                        }
                    }
                });
                true
            }
            "add-trait-method" => {
                let ts: Vec<usize> = self.pkgs[p].items.iter().enumerate().filter(|(_, it)| matches!(it.kind, ItemKind::Trait { .. })).map(|(i, _)| i).collect();
                if ts.is_empty() {
                    return false;
                }
                let i = ts[d.below(ts.len())];
                let ItemKind::Trait { name, methods } = &mut self.pkgs[p].items[i].kind else { return false };
                let mname = format!("extra{k}");
                methods.push(TraitMethod { name: mname.clone(), extra: vec![], ret: Ty::Int });
                let target: Ref = (p, name.clone());
                for pk in self.pkgs.iter_mut() {
                    for it in pk.items.iter_mut() {
                        if let ItemKind::Impl { tr, for_ty, methods } = &mut it.kind {
                            if *tr == target {
                                methods.push(FnDef {
                                    name: mname.clone(),
                                    tparams: vec![],
                                    params: vec![("self".into(), for_ty.clone())],
                                    ret: Some(Ty::Int),
                                    stmts: vec![],
                                    result: Some(Expr::Int(k % 50)),
                                    shape: Shape::Plain,
                                });
                            }
                        }
                    }
                }
                true
            }
            "add-trait" => {
                let tname = format!("Extra{k}");
                let mname = format!("m{k}");
                self.pkgs[p].items.push(Item { file, kind: ItemKind::Trait { name: tname.clone(), methods: vec![TraitMethod { name: mname.clone(), extra: vec![], ret: Ty::Int }] } });
                self.pkgs[p].items.push(Item {
                    file,
                    kind: ItemKind::Impl {
                        tr: (p, tname),
                        for_ty: Ty::Int,
                        methods: vec![FnDef {
                            name: mname,
                            tparams: vec![],
                            params: vec![("self".into(), Ty::Int)],
                            ret: Some(Ty::Int),
                            stmts: vec![],
                            result: Some(Expr::Var("self".into())),
                            shape: Shape::Plain,
                        }],
                    },
                });
                true
            }
            "add-impl" => {
                let existing: BTreeSet<(Ref, Ty)> = self.impls().into_iter().map(|(_, t, ty)| (t, ty)).collect();
                let mut pairs: Vec<(Ref, Ty, usize)> = vec![];
                for q in self.visible(p) {
                    for (ti, it) in self.pkgs[q].items.iter().enumerate() {
                        let ItemKind::Trait { name, .. } = &it.kind else { continue };
                        let tr = (q, name.clone());
                        let mut tys: Vec<Ty> = vec![];
                        if q == p {
                            tys.extend([Ty::Int, Ty::Str, Ty::Bool]);
                        }
                        for r in self.visible(p) {
                            if q != p && r != p {
                                continue;
                            }
                            for jt in &self.pkgs[r].items {
                                match &jt.kind {
                                    ItemKind::Struct { name, .. } | ItemKind::Enum { name, generic: false, .. } => tys.push(Ty::Named(r, name.clone())),
                                    _ => {}
                                }
                            }
                        }
                        for t in tys {
                            if !existing.contains(&(tr.clone(), t.clone())) {
                                pairs.push((tr.clone(), t, if q == p { self.pkgs[p].items[ti].file } else { file }));
                            }
                        }
                    }
                }
                if pairs.is_empty() {
                    return false;
                }
                let (tr, ty, f) = pairs[d.below(pairs.len())].clone();
                let ms = self.trait_def(&tr).cloned().unwrap_or_default();
                let methods = ms
                    .iter()
                    .map(|m| {
                        let mut params = vec![("self".to_string(), ty.clone())];
                        for (i, t) in m.extra.iter().enumerate() {
                            params.push((format!("e{i}"), t.clone()));
                        }
                        FnDef { name: m.name.clone(), tparams: vec![], params, ret: Some(m.ret.clone()), stmts: vec![], result: Some(default_scalar(&m.ret, k % 50)), shape: Shape::Plain }
                    })
                    .collect();
                self.pkgs[p].items.push(Item { file: f, kind: ItemKind::Impl { tr, for_ty: ty, methods } });
                true
            }
            "change-bound" => {
                let impls = self.impls();
                let types_of = |tr: &Ref| -> BTreeSet<Ty> { impls.iter().filter(|(_, t, _)| t == tr).map(|(_, _, ty)| ty.clone()).collect() };
                let mut cands: Vec<(usize, Option<Ref>)> = vec![];
                for (i, it) in self.pkgs[p].items.iter().enumerate() {
                    let ItemKind::Fn(f) = &it.kind else { continue };
                    let Some((_, bounds)) = f.tparams.first() else { continue };
                    if bounds.is_empty() {
                        continue;
                    }
                    if bounds.len() >= 2 {
                        cands.push((i, None));
                        continue;
                    }
                    let have = types_of(&bounds[0]);
                    for q in self.visible(p) {
                        for jt in &self.pkgs[q].items {
                            if let ItemKind::Trait { name, .. } = &jt.kind {
                                let u = (q, name.clone());
                                if u != bounds[0] && types_of(&u).is_superset(&have) {
                                    cands.push((i, Some(u)));
                                }
                            }
                        }
                    }
                }
                if cands.is_empty() {
                    return false;
                }
                let (i, add) = cands[d.below(cands.len())].clone();
                let ItemKind::Fn(f) = &mut self.pkgs[p].items[i].kind else { return false };
                match add {
                    Some(u) => f.tparams[0].1.push(u),
                    None => {
                        f.tparams[0].1.pop();
                    }
                }
                true
            }
            _ => false,
        }
    }
}

// --------------------------------------------------------- defect injectors

pub const DEFECT_KINDS: &[&str] = &[
    "import-cycle",
    "self-import",
    "missing-package",
    "empty-package-dir",
    "dir-name-mismatch",
    "second-file-other-package",
    "not-imported:call",
    "not-imported:sig-type",
    "not-imported:field-type",
    "not-imported:variant-type",
    "not-imported:type-arg",
    "not-imported:struct-lit",
    "not-imported:ctor",
    "not-imported:pattern",
    "not-imported:bound",
    "not-imported:impl-trait",
    "not-imported:impl-type",
    "not-imported:trait-call",
    "not-imported:inherent-call",
    // the package imports q, but not in the file that refers to q
    "not-imported-in-file:call",
    "not-imported-in-file:trait-call",
    "not-imported-in-file:inherent-call",
    "not-imported-in-file:ctor",
    "not-imported-in-file:struct-lit",
    "orphan-impl",
    "orphan-impl-builtin-type",
    "duplicate-impl-same-package",
    "duplicate-impl-sibling-packages",
];

pub struct Injected {
    pub kind: String,
    /// package that contains the defect
    pub pkg: usize,
    pub files: Vec<(String, String)>,
    /// the same project with the one missing import added (must be accepted)
    pub control: Option<Vec<(String, String)>>,
    /// a single check/build of `pkg` against its dependencies' interfaces sees the defect
    pub local: bool,
    pub note: String,
}

fn scalar_lit(t: &Ty) -> Option<&'static str> {
    match t {
        Ty::Int => Some("0"),
        Ty::Str => Some("\"s\""),
        Ty::Bool => Some("true"),
        _ => None,
    }
}

impl Project {
    fn qual(&self, q: usize, name: &str) -> String {
        if q == 0 { name.to_string() } else { format!("{}::{}", self.pkgs[q].name, name) }
    }
    fn ty_text(&self, from: usize, t: &Ty) -> String {
        let mut r = R { proj: self, pkg: from, uses: BTreeSet::new(), erase: false };
        r.ty(t)
    }
    /// packages loaded by a compile of Main
    pub fn loaded(&self) -> BTreeSet<usize> {
        let mut s = self.closure(0);
        s.insert(0);
        s
    }
    fn add_raw(&self, p: usize, file: usize, text: String, uses: Vec<usize>) -> Project {
        let mut c = self.clone();
        c.pkgs[p].items.push(Item { file, kind: ItemKind::Raw { text, uses } });
        c
    }
    /// text of an item in package p that refers to package q at one syntactic position
    fn foreign_ref_text(&self, p: usize, q: usize, pos: &str, d: &mut Dec) -> Option<String> {
        let n = self.counter + 900 + d.below(50) as u32;
        let qn = self.pkgs[q].name.clone();
        let items: Vec<&ItemKind> = self.pkgs[q].items.iter().map(|i| &i.kind).collect();
        let structs: Vec<(&String, &Vec<(String, Ty)>)> = items
            .iter()
            .filter_map(|i| match i {
                ItemKind::Struct { name, fields } => Some((name, fields)),
                _ => None,
            })
            .collect();
        let enums: Vec<(&String, &Vec<(String, Vec<Ty>)>)> = items
            .iter()
            .filter_map(|i| match i {
                ItemKind::Enum { name, generic: false, variants } => Some((name, variants)),
                _ => None,
            })
            .collect();
        let traits: Vec<(&String, &Vec<TraitMethod>)> = items
            .iter()
            .filter_map(|i| match i {
                ItemKind::Trait { name, methods } => Some((name, methods)),
                _ => None,
            })
            .collect();
        let mut types: Vec<String> = structs.iter().map(|(n, _)| format!("{qn}::{n}")).collect();
        types.extend(enums.iter().map(|(n, _)| format!("{qn}::{n}")));
        let pick = |d: &mut Dec, k: usize| d.below(k);
        match pos {
            "call" => {
                let fs: Vec<&FnDef> = items
                    .iter()
                    .filter_map(|i| match i {
                        ItemKind::Fn(f) if f.tparams.is_empty() && f.params.iter().all(|(_, t)| scalar_lit(t).is_some()) => Some(f),
                        _ => None,
                    })
                    .collect();
                if fs.is_empty() {
                    return None;
                }
                let f = fs[pick(d, fs.len())];
                let args: Vec<&str> = f.params.iter().map(|(_, t)| scalar_lit(t).unwrap()).collect();
                Some(format!("fn bad{n}() -> int32 {{\n    let _ = {qn}::{}({});\n    0\n}}\n", f.name, args.join(", ")))
            }
            "sig-type" => {
                if types.is_empty() {
                    return None;
                }
                let t = &types[pick(d, types.len())];
                Some(if d.bool() {
                    format!("fn bad{n}(a: {t}) -> int32 {{\n    0\n}}\n")
                } else {
                    format!("fn bad{n}(a: {t}) -> {t} {{\n    a\n}}\n")
                })
            }
            "field-type" => {
                if types.is_empty() {
                    return None;
                }
                let t = &types[pick(d, types.len())];
                Some(format!("struct Bad{n} {{\n    f: {t},\n}}\n"))
            }
            "variant-type" => {
                if types.is_empty() {
                    return None;
                }
                let t = &types[pick(d, types.len())];
                Some(format!("enum Bad{n} {{\n    BadA{n}({t}),\n    BadB{n},\n}}\n"))
            }
            "type-arg" => {
                if types.is_empty() {
                    return None;
                }
                let t = &types[pick(d, types.len())];
                Some(format!(
                    "enum Bad{n}[T] {{\n    BadA{n}(T),\n    BadB{n},\n}}\n\nfn bad{n}(a: Bad{n}[{t}]) -> int32 {{\n    0\n}}\n"
                ))
            }
            "struct-lit" => {
                let ss: Vec<_> = structs.iter().filter(|(_, fs)| fs.iter().all(|(_, t)| scalar_lit(t).is_some())).collect();
                if ss.is_empty() {
                    return None;
                }
                let (sn, fs) = ss[pick(d, ss.len())];
                let fs: Vec<String> = fs.iter().map(|(f, t)| format!("{f}: {}", scalar_lit(t).unwrap())).collect();
                Some(format!("fn bad{n}() -> int32 {{\n    let _ = {qn}::{sn} {{ {} }};\n    0\n}}\n", fs.join(", ")))
            }
            "ctor" => {
                let mut cs = vec![];
                for (en, vs) in &enums {
                    for (v, ts) in vs.iter() {
                        if ts.iter().all(|t| scalar_lit(t).is_some()) {
                            cs.push((en, v, ts));
                        }
                    }
                }
                if cs.is_empty() {
                    return None;
                }
                let (en, v, ts) = cs[pick(d, cs.len())];
                let args: Vec<&str> = ts.iter().map(|t| scalar_lit(t).unwrap()).collect();
                let call = if args.is_empty() { String::new() } else { format!("({})", args.join(", ")) };
                Some(format!("fn bad{n}() -> int32 {{\n    let _ = {qn}::{en}::{v}{call};\n    0\n}}\n"))
            }
            "pattern" => {
                // the scrutinee comes from an imported package r whose function returns q's enum
                for r in &self.pkgs[p].imports {
                    for it in &self.pkgs[*r].items {
                        if let ItemKind::Fn(f) = &it.kind {
                            if let Some(Ty::Named(eq, en)) = &f.ret {
                                if *eq == q && f.tparams.is_empty() && f.params.iter().all(|(_, t)| scalar_lit(t).is_some()) {
                                    if let Some((_, vs)) = self.enum_def(&(q, en.clone())) {
                                        let args: Vec<&str> = f.params.iter().map(|(_, t)| scalar_lit(t).unwrap()).collect();
                                        let (v, ts) = &vs[d.below(vs.len())];
                                        let bs = if ts.is_empty() { String::new() } else { format!("({})", vec!["_"; ts.len()].join(", ")) };
                                        return Some(format!(
                                            "fn bad{n}() -> int32 {{\n    match {}::{}({}) {{ {qn}::{en}::{v}{bs} => 1, _ => 0, }}\n}}\n",
                                            self.pkgs[*r].name,
                                            f.name,
                                            args.join(", ")
                                        ));
                                    }
                                }
                            }
                        }
                    }
                }
                None
            }
            "bound" => {
                if traits.is_empty() {
                    return None;
                }
                let (tn, _) = traits[pick(d, traits.len())];
                Some(format!("fn bad{n}[T: {qn}::{tn}](x: T) -> int32 {{\n    0\n}}\n"))
            }
            "impl-trait" => {
                if traits.is_empty() {
                    return None;
                }
                let (tn, ms) = traits[pick(d, traits.len())];
                let mut s = format!("struct Bad{n} {{}}\n\nimpl {qn}::{tn} for Bad{n} {{\n");
                for m in ms.iter() {
                    let mut ps = vec![format!("self: Bad{n}")];
                    for (i, t) in m.extra.iter().enumerate() {
                        ps.push(format!("e{i}: {}", self.ty_text(p, t)));
                    }
                    s.push_str(&format!("    fn {}({}) -> {} {{\n        {}\n    }}\n", m.name, ps.join(", "), self.ty_text(p, &m.ret), scalar_lit(&m.ret)?));
                }
                s.push_str("}\n");
                Some(s)
            }
            "impl-type" => {
                if types.is_empty() {
                    return None;
                }
                let t = &types[pick(d, types.len())];
                Some(format!(
                    "trait Bad{n} {{\n    fn bad(Self) -> int32;\n}}\n\nimpl Bad{n} for {t} {{\n    fn bad(self: {t}) -> int32 {{\n        0\n    }}\n}}\n"
                ))
            }
            "trait-call" => {
                let mut cs = vec![];
                for (_, tr, ty) in self.impls() {
                    if tr.0 == q && scalar_lit(&ty).is_some() {
                        if let Some(ms) = self.trait_def(&tr) {
                            for m in ms {
                                if m.extra.iter().all(|t| scalar_lit(t).is_some()) {
                                    cs.push((tr.1.clone(), m.clone(), ty.clone()));
                                }
                            }
                        }
                    }
                }
                if cs.is_empty() {
                    return None;
                }
                let (tn, m, ty) = cs[pick(d, cs.len())].clone();
                let mut args = vec![scalar_lit(&ty).unwrap()];
                args.extend(m.extra.iter().map(|t| scalar_lit(t).unwrap()));
                Some(format!("fn bad{n}() -> int32 {{\n    let _ = {qn}::{tn}::{}({});\n    0\n}}\n", m.name, args.join(", ")))
            }
            "inherent-call" => {
                let mut cs = vec![];
                for i in &items {
                    if let ItemKind::Inherent { ty, methods } = i {
                        for m in methods {
                            if m.params.iter().all(|(_, t)| scalar_lit(t).is_some()) {
                                cs.push((ty.1.clone(), m.clone()));
                            }
                        }
                    }
                }
                if cs.is_empty() {
                    return None;
                }
                let (tn, m) = cs[pick(d, cs.len())].clone();
                let args: Vec<&str> = m.params.iter().map(|(_, t)| scalar_lit(t).unwrap()).collect();
                Some(format!("fn bad{n}() -> int32 {{\n    let _ = {qn}::{tn}::{}({});\n    0\n}}\n", m.name, args.join(", ")))
            }
            _ => None,
        }
    }
}

/// Inject one defect of kind `DEFECT_KINDS[which]`; None when the project has
/// no place for it.
pub fn inject(proj: &Project, which: usize, d: &mut Dec) -> Option<Injected> {
    let kind = DEFECT_KINDS[which % DEFECT_KINDS.len()];
    let n = proj.pkgs.len();
    let loaded: Vec<usize> = proj.loaded().into_iter().collect();
    let plain = RenderOpts { erase_bodies: false };
    let mk = |kind: &str, pkg: usize, files: Vec<(String, String)>, control: Option<Vec<(String, String)>>, local: bool, note: String| {
        Some(Injected { kind: kind.to_string(), pkg, files, control, local, note })
    };
    match kind {
        "import-cycle" => {
            // y (transitively) imported by x gets `import x`
            let mut pairs = vec![];
            for &x in &loaded {
                for y in proj.closure(x) {
                    pairs.push((x, y));
                }
            }
            if pairs.is_empty() {
                return None;
            }
            let (x, y) = pairs[d.below(pairs.len())];
            let f = d.below(proj.pkgs[y].nfiles.max(1));
            let mut tw = RenderTweaks::default();
            tw.extra_imports.push((y, f, proj.pkgs[x].name.clone()));
            mk(kind, y, proj.render_with(&plain, &tw), None, false, format!("{} imports {}", proj.pkgs[y].name, proj.pkgs[x].name))
        }
        "self-import" => {
            let p = loaded[d.below(loaded.len())];
            let f = d.below(proj.pkgs[p].nfiles.max(1));
            let mut tw = RenderTweaks::default();
            tw.extra_imports.push((p, f, proj.pkgs[p].name.clone()));
            mk(kind, p, proj.render_with(&plain, &tw), None, true, format!("{} imports itself", proj.pkgs[p].name))
        }
        "missing-package" | "empty-package-dir" => {
            let p = loaded[d.below(loaded.len())];
            let f = d.below(proj.pkgs[p].nfiles.max(1));
            let mut tw = RenderTweaks::default();
            tw.extra_imports.push((p, f, "Zeta".into()));
            let mut files = proj.render_with(&plain, &tw);
            if kind == "empty-package-dir" {
                files.push(("Zeta/notes.txt".into(), "package Zeta\n".into()));
            }
            mk(kind, p, files, None, true, format!("{} imports Zeta", proj.pkgs[p].name))
        }
        "dir-name-mismatch" => {
            let libs: Vec<usize> = loaded.iter().copied().filter(|p| *p != 0).collect();
            if libs.is_empty() {
                return None;
            }
            let p = libs[d.below(libs.len())];
            let mut tw = RenderTweaks::default();
            let other = format!("{}x", proj.pkgs[p].name);
            for f in 0..proj.pkgs[p].nfiles.max(1) {
                tw.declared.insert((p, f), other.clone());
            }
            mk(kind, p, proj.render_with(&plain, &tw), None, true, format!("directory {} declares package {other}", proj.pkgs[p].name))
        }
        "second-file-other-package" => {
            let p = loaded[d.below(loaded.len())];
            let mut c = proj.clone();
            let nf = c.pkgs[p].nfiles.max(1);
            c.pkgs[p].nfiles = nf + 1;
            while c.pkgs[p].file_names.len() < nf - 1 {
                let k = c.pkgs[p].file_names.len() + 1;
                c.pkgs[p].file_names.push(format!("part{k}.gom"));
            }
            c.pkgs[p].file_names.push(if d.bool() { "zlast.gom".into() } else { "afirst.gom".into() });
            let mut tw = RenderTweaks::default();
            let other = if d.bool() { "Other".to_string() } else { proj.pkgs[(p + 1) % n].name.clone() };
            if other == proj.pkgs[p].name {
                return None;
            }
            tw.declared.insert((p, nf), other.clone());
            mk(kind, p, c.render_with(&plain, &tw), None, true, format!("a file of {} declares package {other}", proj.pkgs[p].name))
        }
        k if k.starts_with("not-imported:") => {
            let pos = &k["not-imported:".len()..];
            // (p, q): q is loaded, p does not import q
            let mut pairs = vec![];
            for &p in &loaded {
                for &q in &loaded {
                    if q != p && q != 0 && !proj.pkgs[p].imports.contains(&q) {
                        pairs.push((p, q));
                    }
                }
            }
            // start at a random pair, take the first that has the needed items
            if pairs.is_empty() {
                return None;
            }
            let start = d.below(pairs.len());
            for i in 0..pairs.len() {
                let (p, q) = pairs[(start + i) % pairs.len()];
                let Some(text) = proj.foreign_ref_text(p, q, pos, d) else { continue };
                // the pattern form also calls into an imported package: file 0 carries every declared import
                let f = if pos == "pattern" { 0 } else { d.below(proj.pkgs[p].nfiles.max(1)) };
                // the defect: the reference without the import
                let with = proj.add_raw(p, f, text, vec![]);
                let files = with.render();
                // the control: the import added (only when that creates no cycle)
                let control = if !proj.closure(q).contains(&p) {
                    let mut c = with.clone();
                    c.pkgs[p].imports.push(q);
                    if let Some(Item { kind: ItemKind::Raw { uses, .. }, .. }) = c.pkgs[p].items.last_mut() {
                        uses.push(q);
                    }
                    Some(c.render())
                } else {
                    None
                };
                let rel = if proj.closure(p).contains(&q) { "transitive dependency" } else { "unrelated package" };
                let elsewhere = proj.pkgs[p].nfiles > 1;
                return mk(
                    k,
                    p,
                    files,
                    control,
                    true,
                    format!("{} refers to {} ({rel}{})", proj.pkgs[p].name, proj.pkgs[q].name, if elsewhere { ", several files" } else { "" }),
                );
            }
            None
        }
        k if k.starts_with("not-imported-in-file:") => {
            let pos = &k["not-imported-in-file:".len()..];
            // (p, q): p imports q and has a second file; that file gets the reference but no `import q`
            let mut pairs = vec![];
            for &p in &loaded {
                if proj.pkgs[p].nfiles < 2 {
                    continue;
                }
                for &q in &proj.pkgs[p].imports {
                    if q != p && q != 0 && loaded.contains(&q) {
                        pairs.push((p, q));
                    }
                }
            }
            if pairs.is_empty() {
                return None;
            }
            let start = d.below(pairs.len());
            for i in 0..pairs.len() {
                let (p, q) = pairs[(start + i) % pairs.len()];
                let Some(text) = proj.foreign_ref_text(p, q, pos, d) else { continue };
                let f = 1 + d.below(proj.pkgs[p].nfiles - 1);
                let with = proj.add_raw(p, f, text, vec![]);
                let mut tw = RenderTweaks::default();
                tw.drop_imports.push((p, f, q));
                let files = with.render_with(&plain, &tw);
                // the control: the same reference in a file that does import q
                let mut c = with.clone();
                if let Some(Item { kind: ItemKind::Raw { uses, .. }, .. }) = c.pkgs[p].items.last_mut() {
                    uses.push(q);
                }
                let control = Some(c.render());
                return mk(
                    k,
                    p,
                    files,
                    control,
                    true,
                    format!("file {f} of {} refers to {} without importing it (another file of the package does)", proj.pkgs[p].name, proj.pkgs[q].name),
                );
            }
            None
        }
        "orphan-impl" | "orphan-impl-builtin-type" => {
            let existing: BTreeSet<(Ref, Ty)> = proj.impls().into_iter().map(|(_, t, ty)| (t, ty)).collect();
            let mut cands = vec![];
            for &p in &loaded {
                for &q in &proj.pkgs[p].imports {
                    for it in &proj.pkgs[q].items {
                        let ItemKind::Trait { name, methods } = &it.kind else { continue };
                        let tr = (q, name.clone());
                        if kind == "orphan-impl-builtin-type" {
                            for t in [Ty::Int, Ty::Str, Ty::Bool] {
                                if !existing.contains(&(tr.clone(), t.clone())) {
                                    cands.push((p, tr.clone(), methods.clone(), t));
                                }
                            }
                        } else {
                            for &r in &proj.pkgs[p].imports {
                                for jt in &proj.pkgs[r].items {
                                    let t = match &jt.kind {
                                        ItemKind::Struct { name, .. } => Ty::Named(r, name.clone()),
                                        ItemKind::Enum { name, generic: false, .. } => Ty::Named(r, name.clone()),
                                        _ => continue,
                                    };
                                    if !existing.contains(&(tr.clone(), t.clone())) {
                                        cands.push((p, tr.clone(), methods.clone(), t));
                                    }
                                }
                            }
                        }
                    }
                }
            }
            if cands.is_empty() {
                return None;
            }
            let (p, tr, ms, t) = cands[d.below(cands.len())].clone();
            let mut text = impl_text(proj, p, &tr, &ms, &t)?;
            if kind == "orphan-impl-builtin-type" {
                // builtin type constructors are nobody's local types either
                let tt = proj.ty_text(p, &t);
                let wrapped = match d.below(4) {
                    0 => Some(format!("Vec[{tt}]")),
                    1 => Some(format!("Ref[{tt}]")),
                    2 => Some(format!("({tt}, {tt})")),
                    _ => None,
                };
                if let Some(w) = wrapped {
                    text = text.replace(&format!("for {tt} {{"), &format!("for {w} {{")).replace(&format!("self: {tt}"), &format!("self: {w}"));
                }
            }
            let mut uses = vec![tr.0];
            if let Some(r) = t.nominal() {
                uses.push(r.0);
            }
            let f = d.below(proj.pkgs[p].nfiles.max(1));
            let with = proj.add_raw(p, f, text, uses);
            mk(kind, p, with.render(), None, true, format!("{} implements {} for {}", proj.pkgs[p].name, proj.qual(tr.0, &tr.1), proj.ty_text(0, &t)))
        }
        "duplicate-impl-same-package" => {
            let mut cands = vec![];
            for &p in &loaded {
                for (i, it) in proj.pkgs[p].items.iter().enumerate() {
                    if matches!(it.kind, ItemKind::Impl { .. }) {
                        cands.push((p, i));
                    }
                }
            }
            if cands.is_empty() {
                return None;
            }
            let (p, i) = cands[d.below(cands.len())];
            let mut c = proj.clone();
            let mut dup = c.pkgs[p].items[i].clone();
            // same file or a later one
            let nf = c.pkgs[p].nfiles.max(1);
            if nf > 1 && d.bool() {
                let base = |f: usize| proj.file_name(p, f).rsplit('/').next().unwrap_or("").to_string();
                let later: Vec<usize> = (0..nf).filter(|f| base(*f) >= base(dup.file)).collect();
                dup.file = later[d.below(later.len())];
            }
            c.pkgs[p].items.push(dup);
            mk(kind, p, c.render(), None, true, format!("{} has the same impl twice", proj.pkgs[p].name))
        }
        "duplicate-impl-sibling-packages" => {
            // an impl that exists legally, repeated in two packages that import both trait and type
            let mut cands = vec![];
            for (ip, tr, ty) in proj.impls() {
                let tq = ty.nominal().map(|r| r.0);
                let sees = |p: usize| p != ip && proj.sees(p, tr.0) && tq.map_or(true, |q| proj.sees(p, q));
                let ps: Vec<usize> = loaded.iter().copied().filter(|p| sees(*p) && *p != tr.0 && Some(*p) != tq).collect();
                if ps.len() >= 2 {
                    cands.push((tr, ty, ps));
                }
            }
            if cands.is_empty() {
                return None;
            }
            let (tr, ty, ps) = cands[d.below(cands.len())].clone();
            let ms = proj.trait_def(&tr)?.clone();
            let a = ps[d.below(ps.len())];
            let rest: Vec<usize> = ps.iter().copied().filter(|p| *p != a).collect();
            let b = rest[d.below(rest.len())];
            let mut c = proj.clone();
            for p in [a, b] {
                let text = impl_text(proj, p, &tr, &ms, &ty)?;
                let mut uses = vec![tr.0];
                if let Some(r) = ty.nominal() {
                    uses.push(r.0);
                }
                c = c.add_raw(p, 0, text, uses);
            }
            mk(kind, a.max(b), c.render(), None, false, format!("{} and {} both implement {} for {}", proj.pkgs[a].name, proj.pkgs[b].name, proj.qual(tr.0, &tr.1), proj.ty_text(0, &ty)))
        }
        _ => None,
    }
}

fn impl_text(proj: &Project, p: usize, tr: &Ref, ms: &[TraitMethod], t: &Ty) -> Option<String> {
    let tt = proj.ty_text(p, t);
    let trn = if tr.0 == p { tr.1.clone() } else { format!("{}::{}", proj.pkgs[tr.0].name, tr.1) };
    let mut s = format!("impl {trn} for {tt} {{\n");
    for m in ms {
        let mut ps = vec![format!("self: {tt}")];
        for (i, t) in m.extra.iter().enumerate() {
            ps.push(format!("e{i}: {}", proj.ty_text(p, t)));
        }
        s.push_str(&format!("    fn {}({}) -> {} {{\n        {}\n    }}\n", m.name, ps.join(", "), proj.ty_text(p, &m.ret), scalar_lit(&m.ret)?));
    }
    s.push_str("}\n");
    Some(s)
}

// ------------------------------------------------------------ shared glue

/// write the files in the order given by `perm` (indices into `files`), so that
/// directory entries are created in that order
pub fn materialise_perm(dir: &Path, files: &[(String, String)], perm: &[usize]) {
    for &i in perm {
        let (rel, text) = &files[i];
        let p = dir.join(rel);
        if let Some(parent) = p.parent() {
            let _ = std::fs::create_dir_all(parent);
        }
        std::fs::write(&p, text).expect("write project file");
    }
}

/// all topological orders (dependencies first) of a package graph, at most `cap`
/// (evenly thinned when there are more)
pub fn all_topo_orders(imports: &[(String, Vec<String>)], cap: usize) -> Vec<Vec<String>> {
    fn go(imports: &[(String, Vec<String>)], done: &mut Vec<String>, out: &mut Vec<Vec<String>>, limit: usize) {
        if out.len() >= limit {
            return;
        }
        if done.len() == imports.len() {
            out.push(done.clone());
            return;
        }
        for (p, deps) in imports {
            if done.contains(p) {
                continue;
            }
            if deps.iter().all(|d| done.contains(d) || !imports.iter().any(|(q, _)| q == d)) {
                done.push(p.clone());
                go(imports, done, out, limit);
                done.pop();
            }
        }
    }
    let mut sorted = imports.to_vec();
    sorted.sort();
    let mut all = vec![];
    go(&sorted, &mut vec![], &mut all, 2000);
    if all.len() <= cap {
        return all;
    }
    let n = all.len();
    (0..cap).map(|i| all[i * n / cap].clone()).collect()
}

pub fn sep_sig(prop: &str, what: &str, e: &sep::SepErr) -> (String, String) {
    match e {
        sep::SepErr::Panic(at, p) => (
            format!("{prop}|panic|{}", p.signature()),
            format!("{at}: panic at {}:{}: {}", p.file, p.line, p.message),
        ),
        other => (format!("{prop}|{what}"), other.describe()),
    }
}

/// the step of the separate pipeline an error comes from: build / read_core / link / check / discover
pub fn sep_step(e: &sep::SepErr) -> &'static str {
    let at = match e {
        sep::SepErr::Compile(at, _) | sep::SepErr::Panic(at, _) => at.as_str(),
        sep::SepErr::Io(_) => "io",
    };
    if at.starts_with("build") {
        "build"
    } else if at.starts_with("check") {
        "check"
    } else if at.starts_with("read_core") {
        "read_core"
    } else if at.starts_with("link") {
        "link"
    } else if at.starts_with("discover") {
        "discover"
    } else {
        "io"
    }
}

// ------------------------------------------------------------ debug sampler

pub fn sample_bytes(seed: u64, i: u64, n: usize) -> Vec<u8> {
    let mut bytes = vec![0u8; n];
    let mut x = mix(seed, i);
    for b in bytes.iter_mut() {
        x = crate::util::splitmix(x);
        *b = (x >> 32) as u8;
    }
    bytes
}

pub fn print_files(files: &[(String, String)]) {
    for (n, t) in files {
        println!("--- {n}\n{t}");
    }
}

/// generate n projects, compile them whole and separately, compare behaviour
pub fn debug_sample(n: u64, seed: u64, show: bool, fails: bool, open: bool) -> i32 {
    let mut ctx = Ctx::new("projsample", crate::driver::Tier::Quick, seed);
    if !open {
        ctx.closed_gates = crate::driver::all_closed_gates();
    }
    let mut stats: BTreeMap<String, u64> = BTreeMap::new();
    let mut sizes = 0usize;
    for i in 0..n {
        let bytes = sample_bytes(seed, i, 1500);
        let mut d = Dec::new(&bytes);
        let proj = gen_project(&mut d, &mut ctx);
        let files = proj.render();
        sizes += files.iter().map(|(_, t)| t.len()).sum::<usize>();
        let w = goml::compile_project(&mut ctx, &files);
        let mut key = format!("whole:{}", w.stage());
        let mut bad = !matches!(w, CompileRes::Ok(..));
        let mut detail = describe_compile(&w);
        if let CompileRes::Ok(_, go) = &w {
            let wr = run_go(go);
            match &wr {
                GoRun::Ran { end, .. } => key.push_str(&format!(" run:{}", end.split('(').next().unwrap_or(""))),
                GoRun::Unsupported(u) => key.push_str(&format!(" unsupported:{u}")),
                GoRun::Rejected(r) => {
                    key.push_str(" go-rejected");
                    bad = true;
                    detail = r.clone();
                }
            }
            let dir = ctx.scratch.fresh_dir();
            crate::sandbox::materialise(&dir.join("src"), &files);
            let sepr = sep::discover(&dir.join("src"))
                .and_then(|dsc| sep::build_all(&dsc, &dsc.order, &dir.join("art")).map(|_| dsc))
                .and_then(|dsc| sep::link_dir(&dir.join("art"), &dsc.order));
            match sepr {
                Ok(l) => {
                    let sr = run_go(&l.go_text);
                    if sr.same_behaviour(&wr) {
                        key.push_str(" sep:same");
                    } else {
                        key.push_str(" sep:DIFFERENT");
                        bad = true;
                        detail = format!("whole {:?}\nsep {:?}", wr, sr);
                    }
                }
                Err(e) => {
                    key.push_str(" sep:ERR");
                    bad = true;
                    detail = e.describe();
                }
            }
            ctx.scratch.remove(&dir);
        }
        *stats.entry(key.clone()).or_insert(0) += 1;
        if show || (bad && fails) {
            println!("=== case {i}: {key} consumed={} bytes", d.consumed());
            print_files(&files);
            println!("  {detail}");
        }
    }
    for (k, v) in &stats {
        println!("{v:>6}  {k}");
    }
    println!("mean project size {} bytes", sizes / n.max(1) as usize);
    0
}

/// debugging aid: apply every edit kind to generated projects, report how often the result compiles
pub fn debug_edits(n: u64, seed: u64, fails: bool) -> i32 {
    let mut ctx = Ctx::new("projedits", crate::driver::Tier::Quick, seed);
    ctx.closed_gates = crate::driver::all_closed_gates();
    let mut stats: BTreeMap<String, (u64, u64, u64)> = BTreeMap::new();
    for i in 0..n {
        let bytes = sample_bytes(seed, i, 1600);
        let mut d = Dec::new(&bytes);
        let base = gen_project_sized(&mut d, &mut ctx, 1, 3);
        for which in 0..=IFACE_EDITS.len() {
            let mut proj = base.clone();
            let p = d.below(proj.pkgs.len());
            let keys0: Vec<String> = (0..proj.pkgs.len()).map(|q| proj.iface_key(q)).collect();
            let kind = if which == IFACE_EDITS.len() {
                proj.edit_body(p, &mut d).map(|_| "body")
            } else {
                proj.edit_iface(p, which, &mut d)
            };
            let Some(kind) = kind else { continue };
            let keys1: Vec<String> = (0..proj.pkgs.len()).map(|q| proj.iface_key(q)).collect();
            let changed = keys0[p] != keys1[p];
            let files = proj.render();
            let w = goml::compile_project(&mut ctx, &files);
            let e = stats.entry(kind.to_string()).or_insert((0, 0, 0));
            e.0 += 1;
            if matches!(w, CompileRes::Ok(..)) {
                e.1 += 1;
            } else if fails {
                println!("=== case {i} edit {kind} in {}", proj.pkgs[p].name);
                print_files(&files);
                println!("  {}", describe_compile(&w));
            }
            if changed {
                e.2 += 1;
            }
        }
    }
    println!("{:<22} {:>7} {:>9} {:>12}", "edit", "applied", "compiles", "key-changed");
    for (k, (a, b, c)) in stats {
        println!("{k:<22} {a:>7} {b:>9} {c:>12}");
    }
    0
}
