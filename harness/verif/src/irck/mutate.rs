//! Debugging / calibration aids: corpus run (`verif irck-corpus`) and the
//! mutation-sensitivity harness (`verif irck-mutate`).
//!
//! The sensitivity harness clones an IR file, applies one in-memory corruption
//! at a deterministic pseudo-random position and asks the corresponding
//! checker whether it notices (an error that was not reported for the
//! uncorrupted file).

use super::tree::{Ir, V};
use super::*;
use crate::corpus;
use crate::goml::{self, CompileRes};
use crate::sandbox;
use compiler::anf::{AExpr, CExpr, ImmExpr};
use compiler::common::EnumConstructor;
use std::collections::{BTreeMap, HashSet};

/// every corpus program as (name, path of main.gom, source)
pub fn corpus_programs() -> Vec<(String, std::path::PathBuf, String)> {
    let mut v = vec![];
    for c in corpus::pipeline_cases() {
        v.push((c.name.clone(), c.dir.join("main.gom"), c.source.clone()));
    }
    for c in corpus::project_cases() {
        let p = c.dir.join("main.gom");
        let src = std::fs::read_to_string(&p).unwrap_or_default();
        v.push((c.name.clone(), p, src));
    }
    v
}

/// `verif irck-corpus`: check every corpus program, print all errors; returns the number of errors
pub fn run_corpus() -> usize {
    let mut total = 0usize;
    let mut programs = 0usize;
    let mut stats = IrStats::default();
    let mut worst = std::time::Duration::ZERO;
    let mut by_sig: BTreeMap<String, usize> = BTreeMap::new();
    for (name, path, src) in corpus_programs() {
        match goml::compile_at(path, &src) {
            CompileRes::Ok(c, _) => {
                programs += 1;
                let t = std::time::Instant::now();
                let (errs, s) = check_all(&c);
                let dt = t.elapsed();
                worst = worst.max(dt);
                stats.add(s);
                println!("{name}: {} errors, {} nodes, {} skipped, {:?}", errs.len(), s.nodes_checked, s.skipped, dt);
                for e in &errs {
                    println!("    {e}");
                    *by_sig.entry(e.signature()).or_default() += 1;
                }
                total += errs.len();
            }
            CompileRes::Err(e) => println!("{name}: rejected at {}", goml::error_stage(&e)),
            CompileRes::Panic(p) => println!("{name}: compiler panic {}", p.signature()),
        }
    }
    for (s, n) in &by_sig {
        println!("  {n:4}  {s}");
    }
    println!(
        "irck-corpus: {programs} programs checked, {total} errors, {} nodes, {} skipped, slowest check {:?}",
        stats.nodes_checked, stats.skipped, worst
    );
    total
}

// ---------------------------------------------------------------------------
// corruption kinds
// ---------------------------------------------------------------------------

#[derive(Clone, Copy, PartialEq, Eq, PartialOrd, Ord, Debug)]
pub enum Kind {
    VarType,
    VarUnbound,
    PrimType,
    CallDropArg,
    CallAddArg,
    CallSwapArgs,
    ConstrIndex,
    ConstrDropArg,
    FieldIndex,
    IfBranch,
    MatchArm,
    BinopOperand,
    WhileCond,
    LetValue,
    /// the annotation of an arbitrary node is replaced by a different type
    NodeType,
    InjectTParam,
    InjectTApp,
    DeleteFn,
    DupFn,
    RetType,
    ParamType,
    /// two consecutive bindings swapped so that a variable is used before its definition
    UseBeforeDef,
}

pub const KINDS: &[Kind] = &[
    Kind::VarType,
    Kind::VarUnbound,
    Kind::PrimType,
    Kind::CallDropArg,
    Kind::CallAddArg,
    Kind::CallSwapArgs,
    Kind::ConstrIndex,
    Kind::ConstrDropArg,
    Kind::FieldIndex,
    Kind::IfBranch,
    Kind::MatchArm,
    Kind::BinopOperand,
    Kind::WhileCond,
    Kind::LetValue,
    Kind::NodeType,
    Kind::InjectTParam,
    Kind::InjectTApp,
    Kind::DeleteFn,
    Kind::DupFn,
    Kind::RetType,
    Kind::ParamType,
    Kind::UseBeforeDef,
];

impl Kind {
    pub fn name(self) -> &'static str {
        match self {
            Kind::VarType => "var-type",
            Kind::VarUnbound => "var-unbound",
            Kind::PrimType => "literal-type",
            Kind::CallDropArg => "call-drop-arg",
            Kind::CallAddArg => "call-add-arg",
            Kind::CallSwapArgs => "call-swap-args",
            Kind::ConstrIndex => "constr-index",
            Kind::ConstrDropArg => "constr-drop-arg",
            Kind::FieldIndex => "field-index",
            Kind::IfBranch => "if-branch",
            Kind::MatchArm => "match-arm",
            Kind::BinopOperand => "binop-operand",
            Kind::WhileCond => "while-cond",
            Kind::LetValue => "let-value",
            Kind::NodeType => "node-annotation",
            Kind::InjectTParam => "inject-tparam",
            Kind::InjectTApp => "inject-tapp",
            Kind::DeleteFn => "delete-fn",
            Kind::DupFn => "dup-fn",
            Kind::RetType => "ret-type",
            Kind::ParamType => "param-type",
            Kind::UseBeforeDef => "use-before-def",
        }
    }
}

struct Lcg(u64);
impl Lcg {
    fn next(&mut self) -> u64 {
        self.0 = self.0.wrapping_mul(6364136223846793005).wrapping_add(1442695040888963407);
        self.0 >> 33
    }
    fn below(&mut self, n: usize) -> usize {
        if n == 0 {
            0
        } else {
            (self.next() % n as u64) as usize
        }
    }
}

/// a type different from `t` (and not merely by array length)
fn other_ty(t: &Ty) -> Ty {
    if *t == Ty::TInt32 {
        Ty::TString
    } else {
        Ty::TInt32
    }
}

/// a literal whose type differs from `t`
fn other_lit(t: &Ty) -> (Prim, Ty) {
    if *t == Ty::TInt32 {
        (Prim::String { value: "irck".to_string() }, Ty::TString)
    } else {
        (Prim::Int32 { value: 7 }, Ty::TInt32)
    }
}

fn ghost_tapp(t: &Ty) -> Ty {
    Ty::TApp { ty: Box::new(Ty::TEnum { name: "IrckGhost".to_string() }), args: vec![t.clone()] }
}

/// another variant of the constructor's enum whose payload differs
fn other_variant(env: &Env<'_>, ec: &EnumConstructor) -> Option<EnumConstructor> {
    let def = env.enums.get(ec.type_name.0.as_str())?;
    let (_, cur) = def.variants.get(ec.index)?;
    def.variants.iter().enumerate().find(|(i, (_, f))| *i != ec.index && f != cur).map(|(i, (v, _))| EnumConstructor {
        type_name: ec.type_name.clone(),
        variant: v.clone(),
        index: i,
    })
}

/// index of a field of `c` (instantiated at `scrut`) whose type differs from field `index`, else out of range
fn other_field(env: &Env<'_>, c: &Constructor, index: usize) -> usize {
    let fields: Vec<&Ty> = match c {
        Constructor::Enum(ec) => env
            .enums
            .get(ec.type_name.0.as_str())
            .and_then(|d| d.variants.get(ec.index))
            .map(|(_, f)| f.iter().collect())
            .unwrap_or_default(),
        Constructor::Struct(sc) => {
            env.structs.get(sc.type_name.0.as_str()).map(|d| d.fields.iter().map(|(_, t)| t).collect()).unwrap_or_default()
        }
    };
    match fields.get(index) {
        Some(cur) => fields.iter().position(|f| f != cur).unwrap_or(fields.len() + 3),
        None => index + 3,
    }
}

// ---------------------------------------------------------------------------
// mutable access to the tree IRs
// ---------------------------------------------------------------------------

pub(crate) enum ShapeMut<'a, E> {
    Var { name: &'a mut String, ty: &'a mut Ty },
    Prim { ty: &'a mut Ty },
    Call { args: &'a mut Vec<E> },
    Constr { c: &'a mut Constructor, args: &'a mut Vec<E> },
    ConstrGet { c: &'a Constructor, index: &'a mut usize },
    Proj { tuple: &'a E, index: &'a mut usize },
    If { then_b: &'a mut E, ty: &'a Ty },
    Match { first_arm: Option<&'a mut E>, ty: &'a Ty },
    Binary { lhs: &'a E, rhs: &'a mut E },
    While { cond: &'a mut E },
    Let { name: &'a mut String, value: &'a mut E, body: &'a mut E },
    Other,
}

pub(crate) trait IrMut: Ir + Clone {
    fn make_prim(value: Prim, ty: Ty) -> Self;
    fn ty_ref(&self) -> &Ty;
    fn ty_mut(&mut self) -> &mut Ty;
    /// children in expression position (match arm heads are patterns and excluded)
    fn kids_mut(&mut self) -> Vec<&mut Self>;
    fn shape_mut(&mut self) -> ShapeMut<'_, Self>;
}

macro_rules! impl_mut {
    ($E:path, [$($ty_extra:ident),*], [$($kids_extra:tt)*]) => {
        impl IrMut for $E {
            fn make_prim(value: Prim, ty: Ty) -> Self {
                use $E as X;
                X::EPrim { value, ty }
            }
            fn ty_ref(&self) -> &Ty {
                use $E as X;
                match self {
                    X::EVar { ty, .. } | X::EPrim { ty, .. } | X::EConstr { ty, .. } | X::ETuple { ty, .. }
                    | X::EArray { ty, .. } | X::ELet { ty, .. } | X::EMatch { ty, .. } | X::EIf { ty, .. }
                    | X::EWhile { ty, .. } | X::EGo { ty, .. } | X::EConstrGet { ty, .. } | X::EUnary { ty, .. }
                    | X::EBinary { ty, .. } | X::ECall { ty, .. } | X::EToDyn { ty, .. } | X::EDynCall { ty, .. }
                    | X::EProj { ty, .. } $(| X::$ty_extra { ty, .. })* => ty,
                }
            }
            fn ty_mut(&mut self) -> &mut Ty {
                use $E as X;
                match self {
                    X::EVar { ty, .. } | X::EPrim { ty, .. } | X::EConstr { ty, .. } | X::ETuple { ty, .. }
                    | X::EArray { ty, .. } | X::ELet { ty, .. } | X::EMatch { ty, .. } | X::EIf { ty, .. }
                    | X::EWhile { ty, .. } | X::EGo { ty, .. } | X::EConstrGet { ty, .. } | X::EUnary { ty, .. }
                    | X::EBinary { ty, .. } | X::ECall { ty, .. } | X::EToDyn { ty, .. } | X::EDynCall { ty, .. }
                    | X::EProj { ty, .. } $(| X::$ty_extra { ty, .. })* => ty,
                }
            }
            fn kids_mut(&mut self) -> Vec<&mut Self> {
                use $E as X;
                match self {
                    X::EVar { .. } | X::EPrim { .. } => vec![],
                    X::EConstr { args, .. } => args.iter_mut().collect(),
                    X::ETuple { items, .. } | X::EArray { items, .. } => items.iter_mut().collect(),
                    X::ELet { value, body, .. } => vec![&mut **value, &mut **body],
                    X::EMatch { expr, arms, default, .. } => {
                        let mut v = vec![&mut **expr];
                        for a in arms.iter_mut() {
                            v.push(&mut a.body);
                        }
                        if let Some(d) = default {
                            v.push(&mut **d);
                        }
                        v
                    }
                    X::EIf { cond, then_branch, else_branch, .. } => {
                        vec![&mut **cond, &mut **then_branch, &mut **else_branch]
                    }
                    X::EWhile { cond, body, .. } => vec![&mut **cond, &mut **body],
                    X::EGo { expr, .. } | X::EConstrGet { expr, .. } | X::EUnary { expr, .. } | X::EToDyn { expr, .. } => {
                        vec![&mut **expr]
                    }
                    X::EBinary { lhs, rhs, .. } => vec![&mut **lhs, &mut **rhs],
                    X::ECall { func, args, .. } => {
                        let mut v = vec![&mut **func];
                        v.extend(args.iter_mut());
                        v
                    }
                    X::EDynCall { receiver, args, .. } => {
                        let mut v = vec![&mut **receiver];
                        v.extend(args.iter_mut());
                        v
                    }
                    X::EProj { tuple, .. } => vec![&mut **tuple],
                    $($kids_extra)*
                }
            }
            fn shape_mut(&mut self) -> ShapeMut<'_, Self> {
                use $E as X;
                match self {
                    X::EVar { name, ty } => ShapeMut::Var { name, ty },
                    X::EPrim { ty, .. } => ShapeMut::Prim { ty },
                    X::ECall { args, .. } => ShapeMut::Call { args },
                    X::EConstr { constructor, args, .. } => ShapeMut::Constr { c: constructor, args },
                    X::EConstrGet { constructor, field_index, .. } => ShapeMut::ConstrGet { c: constructor, index: field_index },
                    X::EProj { tuple, index, .. } => ShapeMut::Proj { tuple, index },
                    X::EIf { then_branch, ty, .. } => ShapeMut::If { then_b: then_branch, ty },
                    X::EMatch { arms, ty, .. } => ShapeMut::Match { first_arm: arms.first_mut().map(|a| &mut a.body), ty },
                    X::EBinary { lhs, rhs, .. } => ShapeMut::Binary { lhs, rhs },
                    X::EWhile { cond, .. } => ShapeMut::While { cond },
                    X::ELet { name, value, body, .. } => ShapeMut::Let { name, value, body },
                    _ => ShapeMut::Other,
                }
            }
        }
    };
}

impl_mut!(compiler::core::Expr, [EClosure, ETraitCall], [
    X::EClosure { body, .. } => vec![&mut **body],
    X::ETraitCall { receiver, args, .. } => {
        let mut v = vec![&mut **receiver];
        v.extend(args.iter_mut());
        v
    }
]);
impl_mut!(compiler::mono::MonoExpr, [EClosure], [
    X::EClosure { body, .. } => vec![&mut **body],
]);
impl_mut!(compiler::lift::LiftExpr, [], []);

pub(crate) trait FileMut: Clone {
    type E: IrMut;
    fn len(&self) -> usize;
    fn name(&self, i: usize) -> &str;
    fn body(&self, i: usize) -> &Self::E;
    fn body_mut(&mut self, i: usize) -> &mut Self::E;
    fn params_mut(&mut self, i: usize) -> &mut Vec<(String, Ty)>;
    fn ret_mut(&mut self, i: usize) -> &mut Ty;
    fn remove(&mut self, i: usize);
    fn duplicate(&mut self, i: usize);
}

macro_rules! impl_file {
    ($F:path, $E:path) => {
        impl FileMut for $F {
            type E = $E;
            fn len(&self) -> usize {
                self.toplevels.len()
            }
            fn name(&self, i: usize) -> &str {
                &self.toplevels[i].name
            }
            fn body(&self, i: usize) -> &$E {
                &self.toplevels[i].body
            }
            fn body_mut(&mut self, i: usize) -> &mut $E {
                &mut self.toplevels[i].body
            }
            fn params_mut(&mut self, i: usize) -> &mut Vec<(String, Ty)> {
                &mut self.toplevels[i].params
            }
            fn ret_mut(&mut self, i: usize) -> &mut Ty {
                &mut self.toplevels[i].ret_ty
            }
            fn remove(&mut self, i: usize) {
                self.toplevels.remove(i);
            }
            fn duplicate(&mut self, i: usize) {
                let f = self.toplevels[i].clone();
                self.toplevels.push(f);
            }
        }
    };
}
impl_file!(compiler::core::File, compiler::core::Expr);
impl_file!(compiler::mono::MonoFile, compiler::mono::MonoExpr);
impl_file!(compiler::lift::LiftFile, compiler::lift::LiftExpr);

fn kids<'a, E: Ir>(e: &'a E) -> Vec<&'a E> {
    match e.view() {
        V::Var { .. } | V::Prim { .. } => vec![],
        V::Constr { args, .. } => args.iter().collect(),
        V::Tuple { items, .. } | V::Array { items, .. } => items.iter().collect(),
        V::Closure { body, .. } => vec![body],
        V::Let { value, body, .. } => vec![value, body],
        V::Match { expr, arms, default, .. } => {
            let mut v = vec![expr];
            v.extend(arms.iter().map(|(_, b)| *b));
            v.extend(default);
            v
        }
        V::If { cond, then_b, else_b, .. } => vec![cond, then_b, else_b],
        V::While { cond, body, .. } => vec![cond, body],
        V::Go { expr, .. } | V::ConstrGet { expr, .. } | V::Unary { expr, .. } | V::ToDyn { expr, .. } => vec![expr],
        V::Binary { lhs, rhs, .. } => vec![lhs, rhs],
        V::Call { func, args, .. } => {
            let mut v = vec![func];
            v.extend(args.iter());
            v
        }
        V::DynCall { receiver, args, .. } | V::TraitCall { receiver, args, .. } => {
            let mut v = vec![receiver];
            v.extend(args.iter());
            v
        }
        V::Proj { tuple, .. } => vec![tuple],
    }
}

fn mentions<E: Ir>(e: &E, name: &str) -> bool {
    if let V::Var { name: n, .. } = e.view() {
        if n == name {
            return true;
        }
    }
    kids(e).into_iter().any(|k| mentions(k, name))
}

fn var_names<'a, E: Ir>(e: &'a E, out: &mut HashSet<&'a str>) {
    if let V::Var { name, .. } = e.view() {
        out.insert(name);
    }
    for k in kids(e) {
        var_names(k, out);
    }
}

/// is `e` a candidate for `kind`?  with `apply` the corruption is performed
fn mutate_node<E: IrMut>(kind: Kind, e: &mut E, env: &Env<'_>, apply: bool) -> Option<String> {
    match kind {
        Kind::InjectTParam => {
            if apply {
                *e.ty_mut() = Ty::TParam { name: "IrckZ".to_string() };
            }
            return Some("annotation := TParam".into());
        }
        Kind::InjectTApp => {
            if apply {
                let t = ghost_tapp(e.ty_ref());
                *e.ty_mut() = t;
            }
            return Some("annotation := TApp".into());
        }
        Kind::NodeType => {
            let d = format!("annotation {:?} of {}", e.ty_ref(), node_kind(e));
            if apply {
                let t = other_ty(e.ty_ref());
                *e.ty_mut() = t;
            }
            return Some(d);
        }
        Kind::UseBeforeDef => {
            if let ShapeMut::Let { name, value, body } = e.shape_mut() {
                if let ShapeMut::Let { name: n2, value: v2, .. } = body.shape_mut() {
                    if mentions(&*v2, name) {
                        let d = format!("`{name}` / `{n2}` swapped");
                        if apply {
                            std::mem::swap(name, n2);
                            std::mem::swap(value, v2);
                        }
                        return Some(d);
                    }
                }
            }
            return None;
        }
        _ => {}
    }
    match (kind, e.shape_mut()) {
        (Kind::VarType, ShapeMut::Var { name, ty }) => {
            let d = format!("`{name}`: {ty:?}");
            if apply {
                *ty = other_ty(ty);
            }
            Some(d)
        }
        (Kind::VarUnbound, ShapeMut::Var { name, .. }) => {
            let d = format!("`{name}`");
            if apply {
                *name = "irck_unbound/0".to_string();
            }
            Some(d)
        }
        (Kind::PrimType, ShapeMut::Prim { ty }) => {
            let d = format!("{ty:?}");
            if apply {
                *ty = other_ty(ty);
            }
            Some(d)
        }
        (Kind::CallDropArg, ShapeMut::Call { args }) if !args.is_empty() => {
            if apply {
                args.pop();
            }
            Some(format!("{} args", args.len()))
        }
        (Kind::CallAddArg, ShapeMut::Call { args }) => {
            if apply {
                args.push(E::make_prim(Prim::Unit { value: () }, Ty::TUnit));
            }
            Some(format!("{} args", args.len()))
        }
        (Kind::CallSwapArgs, ShapeMut::Call { args }) => {
            let mut pair = None;
            'o: for i in 0..args.len() {
                for j in i + 1..args.len() {
                    if !teq(args[i].ty_ref(), args[j].ty_ref()) {
                        pair = Some((i, j));
                        break 'o;
                    }
                }
            }
            let (i, j) = pair?;
            if apply {
                args.swap(i, j);
            }
            Some(format!("args {i},{j}"))
        }
        (Kind::ConstrIndex, ShapeMut::Constr { c, .. }) => {
            let Constructor::Enum(ec) = &*c else { return None };
            let o = other_variant(env, ec)?;
            let d = format!("{} -> {}", ec.variant.0, o.variant.0);
            if apply {
                *c = Constructor::Enum(o);
            }
            Some(d)
        }
        (Kind::ConstrDropArg, ShapeMut::Constr { c, args }) if !args.is_empty() => {
            if apply {
                args.pop();
            }
            Some(format!("{}", c.name().0))
        }
        (Kind::FieldIndex, ShapeMut::ConstrGet { c, index }) => {
            let n = other_field(env, c, *index);
            let d = format!("{}.{} -> .{}", c.name().0, index, n);
            if apply {
                *index = n;
            }
            Some(d)
        }
        (Kind::FieldIndex, ShapeMut::Proj { tuple, index }) => {
            let n = match tuple.ty_ref() {
                Ty::TTuple { typs } => match typs.get(*index) {
                    Some(cur) => typs.iter().position(|t| t != cur).unwrap_or(typs.len() + 3),
                    None => *index + 3,
                },
                _ => *index + 3,
            };
            let d = format!(".{index} -> .{n}");
            if apply {
                *index = n;
            }
            Some(d)
        }
        (Kind::IfBranch, ShapeMut::If { then_b, ty }) => {
            let (v, t) = other_lit(ty);
            let d = format!("then-branch of if: {ty:?}");
            if apply {
                *then_b = E::make_prim(v, t);
            }
            Some(d)
        }
        (Kind::MatchArm, ShapeMut::Match { first_arm: Some(b), ty }) => {
            let (v, t) = other_lit(ty);
            let d = format!("first arm of match: {ty:?}");
            if apply {
                *b = E::make_prim(v, t);
            }
            Some(d)
        }
        (Kind::BinopOperand, ShapeMut::Binary { lhs, rhs }) => {
            let (v, t) = other_lit(lhs.ty_ref());
            let d = format!("rhs of operator on {:?}", lhs.ty_ref());
            if apply {
                *rhs = E::make_prim(v, t);
            }
            Some(d)
        }
        (Kind::WhileCond, ShapeMut::While { cond }) => {
            if apply {
                *cond = E::make_prim(Prim::Int32 { value: 1 }, Ty::TInt32);
            }
            Some("while condition".into())
        }
        (Kind::LetValue, ShapeMut::Let { name, value, body }) => {
            // only observable if the variable is used afterwards
            if !mentions(&*body, name) {
                return None;
            }
            let vt = value_ty(&*value).clone();
            let (v, t) = other_lit(&vt);
            let d = format!("let {name}: {vt:?}");
            if apply {
                *value = E::make_prim(v, t);
            }
            Some(d)
        }
        _ => None,
    }
}

fn node_kind<E: Ir>(e: &E) -> &'static str {
    match e.view() {
        V::Var { .. } => "var",
        V::Prim { .. } => "literal",
        V::Constr { .. } => "constructor",
        V::Tuple { .. } => "tuple",
        V::Array { .. } => "array",
        V::Closure { .. } => "closure",
        V::Let { .. } => "let",
        V::Match { .. } => "match",
        V::If { .. } => "if",
        V::While { .. } => "while",
        V::Go { .. } => "go",
        V::ConstrGet { .. } => "field access",
        V::Unary { .. } => "unary",
        V::Binary { .. } => "binary",
        V::Call { .. } => "call",
        V::ToDyn { .. } => "to-dyn",
        V::DynCall { .. } => "dyn call",
        V::TraitCall { .. } => "trait call",
        V::Proj { .. } => "projection",
    }
}

/// the type of an expression as the checkers compute it (a let has the type of its body)
fn value_ty<E: IrMut>(e: &E) -> &Ty {
    match e.view() {
        V::Let { body, .. } => value_ty(body),
        _ => e.ty_ref(),
    }
}

fn walk<E: IrMut>(e: &mut E, f: &mut dyn FnMut(&mut E) -> bool) -> bool {
    if f(e) {
        return true;
    }
    for k in e.kids_mut() {
        if walk(k, f) {
            return true;
        }
    }
    false
}

/// applies `kind` at its `pick`-th candidate position (modulo the number of
/// candidates); None if the file has no candidate
fn mutate_file<F: FileMut>(file: &F, env: &Env<'_>, kind: Kind, pick: u64) -> Option<(F, String)> {
    let mut out = file.clone();
    match kind {
        Kind::DupFn => {
            if out.len() == 0 {
                return None;
            }
            let i = (pick % out.len() as u64) as usize;
            out.duplicate(i);
            Some((out, format!("fn `{}`", file.name(i))))
        }
        Kind::DeleteFn => {
            // a function that some *other* function mentions
            let mut cands = vec![];
            for i in 0..file.len() {
                let n = file.name(i);
                let used = (0..file.len()).any(|j| {
                    if j == i {
                        return false;
                    }
                    let mut s = HashSet::new();
                    var_names(file.body(j), &mut s);
                    s.contains(n)
                });
                if used {
                    cands.push(i);
                }
            }
            if cands.is_empty() {
                return None;
            }
            let i = cands[(pick % cands.len() as u64) as usize];
            out.remove(i);
            Some((out, format!("fn `{}`", file.name(i))))
        }
        Kind::RetType => {
            if out.len() == 0 {
                return None;
            }
            let i = (pick % out.len() as u64) as usize;
            let t = other_ty(out.ret_mut(i));
            *out.ret_mut(i) = t;
            Some((out, format!("fn `{}`", file.name(i))))
        }
        Kind::ParamType => {
            let mut cands = vec![];
            for i in 0..file.len() {
                let mut s = HashSet::new();
                var_names(file.body(i), &mut s);
                let ps = out.params_mut(i);
                for (j, (p, _)) in ps.iter().enumerate() {
                    if s.contains(p.as_str()) {
                        cands.push((i, j));
                    }
                }
            }
            if cands.is_empty() {
                return None;
            }
            let (i, j) = cands[(pick % cands.len() as u64) as usize];
            let ps = out.params_mut(i);
            ps[j].1 = other_ty(&ps[j].1);
            let d = format!("fn `{}` param `{}`", file.name(i), ps[j].0);
            Some((out, d))
        }
        _ => {
            let mut n = 0u64;
            for i in 0..out.len() {
                walk(out.body_mut(i), &mut |e| {
                    if mutate_node(kind, e, env, false).is_some() {
                        n += 1;
                    }
                    false
                });
            }
            if n == 0 {
                return None;
            }
            let target = pick % n;
            let mut k = 0u64;
            let mut desc = None;
            for i in 0..out.len() {
                let fname = file.name(i).to_string();
                let done = walk(out.body_mut(i), &mut |e| {
                    if mutate_node(kind, e, env, false).is_some() {
                        if k == target {
                            desc = mutate_node(kind, e, env, true).map(|d| format!("fn `{fname}`: {d}"));
                            return true;
                        }
                        k += 1;
                    }
                    false
                });
                if done {
                    break;
                }
            }
            desc.map(|d| (out, d))
        }
    }
}

// ---------------------------------------------------------------------------
// ANF corruptions
// ---------------------------------------------------------------------------

fn cexpr_ty(c: &CExpr) -> &Ty {
    match c {
        CExpr::CImm { imm } => super::anfck::imm_type(imm),
        CExpr::EConstr { ty, .. }
        | CExpr::ETuple { ty, .. }
        | CExpr::EArray { ty, .. }
        | CExpr::EMatch { ty, .. }
        | CExpr::EIf { ty, .. }
        | CExpr::EWhile { ty, .. }
        | CExpr::EConstrGet { ty, .. }
        | CExpr::EUnary { ty, .. }
        | CExpr::EBinary { ty, .. }
        | CExpr::ECall { ty, .. }
        | CExpr::EToDyn { ty, .. }
        | CExpr::EDynCall { ty, .. }
        | CExpr::EGo { ty, .. }
        | CExpr::EProj { ty, .. } => ty,
    }
}

fn imm_ty_mut(i: &mut ImmExpr) -> &mut Ty {
    match i {
        ImmExpr::ImmVar { ty, .. } | ImmExpr::ImmPrim { ty, .. } | ImmExpr::ImmTag { ty, .. } => ty,
    }
}

fn cexpr_ty_mut(c: &mut CExpr) -> &mut Ty {
    match c {
        CExpr::CImm { imm } => imm_ty_mut(imm),
        CExpr::EConstr { ty, .. }
        | CExpr::ETuple { ty, .. }
        | CExpr::EArray { ty, .. }
        | CExpr::EMatch { ty, .. }
        | CExpr::EIf { ty, .. }
        | CExpr::EWhile { ty, .. }
        | CExpr::EConstrGet { ty, .. }
        | CExpr::EUnary { ty, .. }
        | CExpr::EBinary { ty, .. }
        | CExpr::ECall { ty, .. }
        | CExpr::EToDyn { ty, .. }
        | CExpr::EDynCall { ty, .. }
        | CExpr::EGo { ty, .. }
        | CExpr::EProj { ty, .. } => ty,
    }
}

/// immediates in value position of one complex expression
fn imms_mut(c: &mut CExpr) -> Vec<&mut ImmExpr> {
    match c {
        CExpr::CImm { imm } => vec![imm],
        CExpr::EConstr { args, .. } => args.iter_mut().collect(),
        CExpr::ETuple { items, .. } | CExpr::EArray { items, .. } => items.iter_mut().collect(),
        CExpr::EMatch { expr, .. } => vec![&mut **expr],
        CExpr::EIf { cond, .. } => vec![&mut **cond],
        CExpr::EWhile { .. } => vec![],
        CExpr::EConstrGet { expr, .. } | CExpr::EUnary { expr, .. } => vec![&mut **expr],
        CExpr::EBinary { lhs, rhs, .. } => vec![&mut **lhs, &mut **rhs],
        CExpr::ECall { func, args, .. } => {
            let mut v = vec![func];
            v.extend(args.iter_mut());
            v
        }
        CExpr::EToDyn { expr, .. } => vec![expr],
        CExpr::EDynCall { receiver, args, .. } => {
            let mut v = vec![receiver];
            v.extend(args.iter_mut());
            v
        }
        CExpr::EGo { closure, .. } => vec![&mut **closure],
        CExpr::EProj { tuple, .. } => vec![&mut **tuple],
    }
}

fn anf_mentions_a(e: &AExpr, name: &str) -> bool {
    match e {
        AExpr::ACExpr { expr } => anf_mentions_c(expr, name),
        AExpr::ALet { value, body, .. } => anf_mentions_c(value, name) || anf_mentions_a(body, name),
    }
}

fn anf_mentions_c(c: &CExpr, name: &str) -> bool {
    let mut cl = c.clone();
    // cheap enough for a debugging aid: reuse the mutable enumerators on a copy
    let here = imms_mut(&mut cl).iter().any(|i| matches!(i, ImmExpr::ImmVar { name: n, .. } if n == name));
    if here {
        return true;
    }
    match c {
        CExpr::EMatch { arms, default, .. } => {
            arms.iter().any(|a| anf_mentions_a(&a.body, name)) || default.as_ref().is_some_and(|d| anf_mentions_a(d, name))
        }
        CExpr::EIf { then, else_, .. } => anf_mentions_a(then, name) || anf_mentions_a(else_, name),
        CExpr::EWhile { cond, body, .. } => anf_mentions_a(cond, name) || anf_mentions_a(body, name),
        _ => false,
    }
}

fn anf_var_names(e: &AExpr, out: &mut HashSet<String>) {
    fn c(cx: &CExpr, out: &mut HashSet<String>) {
        let mut cl = cx.clone();
        for i in imms_mut(&mut cl) {
            if let ImmExpr::ImmVar { name, .. } = i {
                out.insert(name.clone());
            }
        }
        match cx {
            CExpr::EMatch { arms, default, .. } => {
                for a in arms {
                    anf_var_names(&a.body, out);
                }
                if let Some(d) = default {
                    anf_var_names(d, out);
                }
            }
            CExpr::EIf { then, else_, .. } => {
                anf_var_names(then, out);
                anf_var_names(else_, out);
            }
            CExpr::EWhile { cond, body, .. } => {
                anf_var_names(cond, out);
                anf_var_names(body, out);
            }
            _ => {}
        }
    }
    match e {
        AExpr::ACExpr { expr } => c(expr, out),
        AExpr::ALet { value, body, .. } => {
            c(value, out);
            anf_var_names(body, out);
        }
    }
}

/// pre-order walk over the AExpr nodes
fn walk_a(e: &mut AExpr, f: &mut dyn FnMut(&mut AExpr) -> bool) -> bool {
    if f(e) {
        return true;
    }
    fn sub(c: &mut CExpr, f: &mut dyn FnMut(&mut AExpr) -> bool) -> bool {
        match c {
            CExpr::EMatch { arms, default, .. } => {
                for a in arms.iter_mut() {
                    if walk_a(&mut a.body, f) {
                        return true;
                    }
                }
                if let Some(d) = default {
                    if walk_a(d, f) {
                        return true;
                    }
                }
                false
            }
            CExpr::EIf { then, else_, .. } => walk_a(then, f) || walk_a(else_, f),
            CExpr::EWhile { cond, body, .. } => walk_a(cond, f) || walk_a(body, f),
            _ => false,
        }
    }
    match e {
        AExpr::ACExpr { expr } => sub(expr, f),
        AExpr::ALet { value, body, .. } => sub(value, f) || walk_a(body, f),
    }
}

fn lit_a(v: Prim, t: Ty) -> AExpr {
    AExpr::ACExpr { expr: CExpr::CImm { imm: ImmExpr::ImmPrim { value: v, ty: t } } }
}

/// candidates are counted per (AExpr node, slot); `slot` selects e.g. which immediate of the node
fn mutate_anf_node(kind: Kind, e: &mut AExpr, env: &Env<'_>, apply_slot: Option<usize>) -> (usize, Option<String>) {
    // number of candidate slots in this node, and the description if applied
    let mut slots = 0usize;
    let mut desc = None;
    let hit = |slots: &mut usize| -> bool {
        let h = apply_slot == Some(*slots);
        *slots += 1;
        h
    };
    // node-level kinds first
    if kind == Kind::UseBeforeDef {
        if let AExpr::ALet { name, value, body, .. } = e {
            if let AExpr::ALet { name: n2, value: v2, .. } = &mut **body {
                if anf_mentions_c(v2, name) && hit(&mut slots) {
                    desc = Some(format!("`{name}` / `{n2}` swapped"));
                    std::mem::swap(name, n2);
                    std::mem::swap(value, v2);
                }
            }
        }
        return (slots, desc);
    }
    if kind == Kind::LetValue {
        if let AExpr::ALet { name, value, body, .. } = e {
            if anf_mentions_a(body, name) && hit(&mut slots) {
                let vt = cexpr_ty(value).clone();
                let (v, t) = other_lit(&vt);
                desc = Some(format!("let {name}: {vt:?}"));
                **value = CExpr::CImm { imm: ImmExpr::ImmPrim { value: v, ty: t } };
            }
        }
        return (slots, desc);
    }
    if kind == Kind::NodeType {
        if let AExpr::ALet { ty, .. } = e {
            if hit(&mut slots) {
                desc = Some(format!("annotation {ty:?} of let"));
                *ty = other_ty(ty);
            }
        }
    }
    let c: &mut CExpr = match e {
        AExpr::ACExpr { expr } => expr,
        AExpr::ALet { value, .. } => value,
    };
    match kind {
        Kind::NodeType => {
            if hit(&mut slots) {
                let t = cexpr_ty_mut(c);
                desc = Some(format!("annotation {t:?} of complex expression"));
                *t = other_ty(t);
            }
        }
        Kind::InjectTParam | Kind::InjectTApp => {
            // the annotation of the complex expression and of each of its immediates
            if hit(&mut slots) {
                let t = cexpr_ty_mut(c);
                *t = if kind == Kind::InjectTParam { Ty::TParam { name: "IrckZ".into() } } else { ghost_tapp(t) };
                desc = Some("annotation of complex expression".into());
            }
            if !matches!(c, CExpr::CImm { .. }) {
                for i in imms_mut(c) {
                    if hit(&mut slots) {
                        let t = imm_ty_mut(i);
                        *t = if kind == Kind::InjectTParam { Ty::TParam { name: "IrckZ".into() } } else { ghost_tapp(t) };
                        desc = Some("annotation of immediate".into());
                    }
                }
            }
        }
        Kind::VarType | Kind::VarUnbound => {
            for i in imms_mut(c) {
                if let ImmExpr::ImmVar { name, ty } = i {
                    if hit(&mut slots) {
                        desc = Some(format!("`{name}`: {ty:?}"));
                        if kind == Kind::VarType {
                            *ty = other_ty(ty);
                        } else {
                            *name = "irck_unbound/0".to_string();
                        }
                    }
                }
            }
        }
        Kind::PrimType => {
            for i in imms_mut(c) {
                if let ImmExpr::ImmPrim { ty, .. } = i {
                    if hit(&mut slots) {
                        desc = Some(format!("{ty:?}"));
                        *ty = other_ty(ty);
                    }
                }
            }
        }
        Kind::CallDropArg => {
            if let CExpr::ECall { args, .. } = c {
                if !args.is_empty() && hit(&mut slots) {
                    args.pop();
                    desc = Some("call".into());
                }
            }
        }
        Kind::CallAddArg => {
            if let CExpr::ECall { args, .. } = c {
                if hit(&mut slots) {
                    args.push(ImmExpr::ImmPrim { value: Prim::Unit { value: () }, ty: Ty::TUnit });
                    desc = Some("call".into());
                }
            }
        }
        Kind::CallSwapArgs => {
            if let CExpr::ECall { args, .. } = c {
                let mut pair = None;
                'o: for i in 0..args.len() {
                    for j in i + 1..args.len() {
                        if !teq(super::anfck::imm_type(&args[i]), super::anfck::imm_type(&args[j])) {
                            pair = Some((i, j));
                            break 'o;
                        }
                    }
                }
                if let Some((i, j)) = pair {
                    if hit(&mut slots) {
                        args.swap(i, j);
                        desc = Some(format!("args {i},{j}"));
                    }
                }
            }
        }
        Kind::ConstrIndex => {
            if let CExpr::EConstr { constructor, .. } = c {
                if let Constructor::Enum(ec) = &*constructor {
                    if let Some(o) = other_variant(env, ec) {
                        if hit(&mut slots) {
                            desc = Some(format!("{} -> {}", ec.variant.0, o.variant.0));
                            *constructor = Constructor::Enum(o);
                        }
                    }
                }
            }
            // nullary constructors are tags: pick a variant that has fields
            for i in imms_mut(c) {
                if let ImmExpr::ImmTag { index, ty } = i {
                    let other = decompose(ty).and_then(|(n, _, _)| env.enums.get(n)).and_then(|d| {
                        d.variants.iter().position(|(_, f)| !f.is_empty())
                    });
                    if let Some(o) = other {
                        if hit(&mut slots) {
                            desc = Some(format!("tag {index} -> {o}"));
                            *index = o;
                        }
                    }
                }
            }
        }
        Kind::ConstrDropArg => {
            if let CExpr::EConstr { constructor, args, .. } = c {
                if !args.is_empty() && hit(&mut slots) {
                    args.pop();
                    desc = Some(constructor.name().0.clone());
                }
            }
        }
        Kind::FieldIndex => match c {
            CExpr::EConstrGet { constructor, field_index, .. } => {
                if hit(&mut slots) {
                    let n = other_field(env, constructor, *field_index);
                    desc = Some(format!("{}.{} -> .{}", constructor.name().0, field_index, n));
                    *field_index = n;
                }
            }
            CExpr::EProj { tuple, index, .. } => {
                if hit(&mut slots) {
                    let n = match super::anfck::imm_type(tuple) {
                        Ty::TTuple { typs } => match typs.get(*index) {
                            Some(cur) => typs.iter().position(|t| t != cur).unwrap_or(typs.len() + 3),
                            None => *index + 3,
                        },
                        _ => *index + 3,
                    };
                    desc = Some(format!(".{index} -> .{n}"));
                    *index = n;
                }
            }
            _ => {}
        },
        Kind::IfBranch => {
            if let CExpr::EIf { then, ty, .. } = c {
                if hit(&mut slots) {
                    let (v, t) = other_lit(ty);
                    desc = Some(format!("then-branch of if: {ty:?}"));
                    **then = lit_a(v, t);
                }
            }
        }
        Kind::MatchArm => {
            if let CExpr::EMatch { arms, ty, .. } = c {
                if let Some(a) = arms.first_mut() {
                    if hit(&mut slots) {
                        let (v, t) = other_lit(ty);
                        desc = Some(format!("first arm of match: {ty:?}"));
                        a.body = lit_a(v, t);
                    }
                }
            }
        }
        Kind::BinopOperand => {
            if let CExpr::EBinary { lhs, rhs, .. } = c {
                if hit(&mut slots) {
                    let (v, t) = other_lit(super::anfck::imm_type(lhs));
                    desc = Some(format!("rhs of operator on {:?}", super::anfck::imm_type(lhs)));
                    **rhs = ImmExpr::ImmPrim { value: v, ty: t };
                }
            }
        }
        Kind::WhileCond => {
            if let CExpr::EWhile { cond, .. } = c {
                if hit(&mut slots) {
                    **cond = lit_a(Prim::Int32 { value: 1 }, Ty::TInt32);
                    desc = Some("while condition".into());
                }
            }
        }
        _ => {}
    }
    (slots, desc)
}

fn mutate_anf(file: &compiler::anf::File, env: &Env<'_>, kind: Kind, pick: u64) -> Option<(compiler::anf::File, String)> {
    let mut out = file.clone();
    let n = out.toplevels.len();
    match kind {
        Kind::DupFn => {
            if n == 0 {
                return None;
            }
            let i = (pick % n as u64) as usize;
            let f = out.toplevels[i].clone();
            out.toplevels.push(f);
            Some((out, format!("fn `{}`", file.toplevels[i].name)))
        }
        Kind::DeleteFn => {
            let used: Vec<HashSet<String>> = file
                .toplevels
                .iter()
                .map(|f| {
                    let mut s = HashSet::new();
                    anf_var_names(&f.body, &mut s);
                    s
                })
                .collect();
            let cands: Vec<usize> =
                (0..n).filter(|i| (0..n).any(|j| j != *i && used[j].contains(&file.toplevels[*i].name))).collect();
            if cands.is_empty() {
                return None;
            }
            let i = cands[(pick % cands.len() as u64) as usize];
            out.toplevels.remove(i);
            Some((out, format!("fn `{}`", file.toplevels[i].name)))
        }
        Kind::RetType => {
            if n == 0 {
                return None;
            }
            let i = (pick % n as u64) as usize;
            out.toplevels[i].ret_ty = other_ty(&out.toplevels[i].ret_ty);
            Some((out, format!("fn `{}`", file.toplevels[i].name)))
        }
        Kind::ParamType => {
            let mut cands = vec![];
            for (i, f) in file.toplevels.iter().enumerate() {
                let mut s = HashSet::new();
                anf_var_names(&f.body, &mut s);
                for (j, (p, _)) in f.params.iter().enumerate() {
                    if s.contains(p) {
                        cands.push((i, j));
                    }
                }
            }
            if cands.is_empty() {
                return None;
            }
            let (i, j) = cands[(pick % cands.len() as u64) as usize];
            let p = &mut out.toplevels[i].params[j];
            p.1 = other_ty(&p.1);
            Some((out, format!("fn `{}` param `{}`", file.toplevels[i].name, file.toplevels[i].params[j].0)))
        }
        _ => {
            let mut total = 0u64;
            {
                let mut probe = file.clone();
                for f in probe.toplevels.iter_mut() {
                    walk_a(&mut f.body, &mut |e| {
                        total += mutate_anf_node(kind, e, env, None).0 as u64;
                        false
                    });
                }
            }
            if total == 0 {
                return None;
            }
            let target = pick % total;
            let mut k = 0u64;
            let mut desc = None;
            for f in out.toplevels.iter_mut() {
                let fname = f.name.clone();
                let done = walk_a(&mut f.body, &mut |e| {
                    // count on a scratch copy, apply on the real node
                    let here = mutate_anf_node(kind, &mut e.clone(), env, None).0 as u64;
                    if target < k + here {
                        desc = mutate_anf_node(kind, e, env, Some((target - k) as usize)).1.map(|d| format!("fn `{fname}`: {d}"));
                        return true;
                    }
                    k += here;
                    false
                });
                if done {
                    break;
                }
            }
            desc.map(|d| (out, d))
        }
    }
}

// ---------------------------------------------------------------------------
// the harness
// ---------------------------------------------------------------------------

#[derive(Default, Clone)]
struct Cell {
    tried: u32,
    caught: u32,
    by_rule: BTreeMap<&'static str, u32>,
    misses: Vec<String>,
}

fn key(e: &IrError) -> (&'static str, String, String) {
    (e.rule, e.func.clone(), e.detail.clone())
}

fn judge(
    cell: &mut Cell,
    prog: &str,
    desc: &str,
    baseline: &[IrError],
    check: impl FnOnce() -> Vec<IrError>,
    panics: &mut u32,
) {
    cell.tried += 1;
    let errs = match sandbox::guarded(check) {
        Ok(e) => e,
        Err(p) => {
            *panics += 1;
            cell.misses.push(format!("{prog}: {desc}: CHECKER PANIC {}", p.message));
            return;
        }
    };
    let base: HashSet<_> = baseline.iter().map(key).collect();
    let fresh: Vec<&IrError> = errs.iter().filter(|e| !base.contains(&key(e))).collect();
    if let Some(f) = fresh.first() {
        cell.caught += 1;
        *cell.by_rule.entry(f.rule).or_default() += 1;
    } else {
        cell.misses.push(format!("{prog}: {desc}"));
    }
}

/// `verif irck-mutate [positions-per-kind] [--misses]`
pub fn run_mutate() {
    let args: Vec<String> = std::env::args().collect();
    let per: u64 = args.iter().skip(2).find_map(|a| a.parse().ok()).unwrap_or(3);
    let show_misses = args.iter().any(|a| a == "--misses");
    let stages = ["core", "mono", "lift", "anf"];
    let mut table: BTreeMap<(Kind, usize), Cell> = BTreeMap::new();
    let mut panics = 0u32;
    let t0 = std::time::Instant::now();
    for (pi, (name, path, src)) in corpus_programs().into_iter().enumerate() {
        let CompileRes::Ok(c, _) = goml::compile_at(path, &src) else { continue };
        let mut rng = Lcg(0x9E3779B97F4A7C15 ^ (pi as u64).wrapping_mul(0x100000001B3));
        let base_core = check_core(&c.core, &c.genv).0;
        let base_mono = check_mono(&c.mono, &c.monoenv).0;
        let base_lift = check_lift(&c.lambda, &c.liftenv).0;
        let base_anf = check_anf(&c.anf, &c.anfenv).0;
        let env_core = Env::for_core(&c.core, &c.genv);
        let env_mono = Env::for_mono(&c.mono, &c.monoenv);
        let env_lift = Env::for_lift(&c.lambda, &c.liftenv);
        let env_anf = Env::for_anf(&c.anf, &c.anfenv);
        for &kind in KINDS {
            for _ in 0..per {
                let pick = rng.next();
                if let Some((m, d)) = mutate_file(&c.core, &env_core, kind, pick) {
                    judge(table.entry((kind, 0)).or_default(), &name, &d, &base_core, || check_core(&m, &c.genv).0, &mut panics);
                }
                if let Some((m, d)) = mutate_file(&c.mono, &env_mono, kind, pick) {
                    judge(table.entry((kind, 1)).or_default(), &name, &d, &base_mono, || check_mono(&m, &c.monoenv).0, &mut panics);
                }
                if let Some((m, d)) = mutate_file(&c.lambda, &env_lift, kind, pick) {
                    judge(table.entry((kind, 2)).or_default(), &name, &d, &base_lift, || check_lift(&m, &c.liftenv).0, &mut panics);
                }
                if let Some((m, d)) = mutate_anf(&c.anf, &env_anf, kind, pick) {
                    judge(table.entry((kind, 3)).or_default(), &name, &d, &base_anf, || check_anf(&m, &c.anfenv).0, &mut panics);
                }
            }
        }
    }
    println!("{:<16} {:>14} {:>14} {:>14} {:>14} {:>14}", "corruption", "core", "mono", "lift", "anf", "all");
    let mut tot = [(0u32, 0u32); 5];
    for &kind in KINDS {
        let mut row = format!("{:<16}", kind.name());
        let mut rt = (0u32, 0u32);
        for s in 0..4 {
            match table.get(&(kind, s)) {
                Some(c) if c.tried > 0 => {
                    row += &format!(" {:>14}", format!("{}/{} {:3.0}%", c.caught, c.tried, 100.0 * c.caught as f64 / c.tried as f64));
                    tot[s].0 += c.caught;
                    tot[s].1 += c.tried;
                    rt.0 += c.caught;
                    rt.1 += c.tried;
                }
                _ => row += &format!(" {:>14}", "-"),
            }
        }
        tot[4].0 += rt.0;
        tot[4].1 += rt.1;
        row += &format!(" {:>14}", format!("{}/{} {:3.0}%", rt.0, rt.1, if rt.1 > 0 { 100.0 * rt.0 as f64 / rt.1 as f64 } else { 0.0 }));
        println!("{row}");
    }
    let mut row = format!("{:<16}", "TOTAL");
    for (c, t) in tot {
        row += &format!(" {:>14}", format!("{}/{} {:3.0}%", c, t, if t > 0 { 100.0 * c as f64 / t as f64 } else { 0.0 }));
    }
    println!("{row}");
    println!("checker panics on corrupted IR: {panics}; elapsed {:?}", t0.elapsed());
    println!();
    println!("first rule that fired, per corruption kind:");
    for &kind in KINDS {
        let mut rules: BTreeMap<&'static str, u32> = BTreeMap::new();
        for s in 0..4 {
            if let Some(c) = table.get(&(kind, s)) {
                for (r, n) in &c.by_rule {
                    *rules.entry(r).or_default() += n;
                }
            }
        }
        let mut v: Vec<_> = rules.into_iter().collect();
        v.sort_by(|a, b| b.1.cmp(&a.1));
        println!("  {:<16} {}", kind.name(), v.iter().map(|(r, n)| format!("{r}×{n}")).collect::<Vec<_>>().join(" "));
    }
    if show_misses {
        println!();
        println!("misses:");
        for ((kind, s), c) in &table {
            for m in c.misses.iter().take(12) {
                println!("  [{} @ {}] {}", kind.name(), stages[*s], m);
            }
            if c.misses.len() > 12 {
                println!("  [{} @ {}] ... {} more", kind.name(), stages[*s], c.misses.len() - 12);
            }
        }
    }
}

// ---------------------------------------------------------------------------
// `verif irck-fuzz [n] [out-dir] [seed]`: false-alarm hunt.  Token-level mutations of
// the single-file corpus programs; every variant the compiler still accepts is
// checked, and the first program per error signature is written to out-dir.
// ---------------------------------------------------------------------------

fn lex(src: &str) -> Vec<String> {
    let b: Vec<char> = src.chars().collect();
    let mut out = vec![];
    let mut i = 0;
    while i < b.len() {
        let c = b[i];
        let start = i;
        if c.is_alphabetic() || c == '_' {
            while i < b.len() && (b[i].is_alphanumeric() || b[i] == '_') {
                i += 1;
            }
        } else if c.is_ascii_digit() {
            while i < b.len() && (b[i].is_alphanumeric() || b[i] == '_' || (b[i] == '.' && i + 1 < b.len() && b[i + 1].is_ascii_digit())) {
                i += 1;
            }
        } else if c == '"' {
            i += 1;
            while i < b.len() && b[i] != '"' {
                if b[i] == '\\' {
                    i += 1;
                }
                i += 1;
            }
            i = (i + 1).min(b.len());
        } else if c == '/' && i + 1 < b.len() && b[i + 1] == '/' {
            while i < b.len() && b[i] != '\n' {
                i += 1;
            }
        } else if c == '\\' && i + 1 < b.len() && b[i + 1] == '\\' {
            while i < b.len() && b[i] != '\n' {
                i += 1;
            }
        } else if c.is_whitespace() {
            while i < b.len() && b[i].is_whitespace() {
                i += 1;
            }
        } else {
            let two: String = b[i..(i + 2).min(b.len())].iter().collect();
            if ["->", "=>", "::", "&&", "||", "<=", ">=", "==", "!="].contains(&two.as_str()) {
                i += 2;
            } else {
                i += 1;
            }
        }
        out.push(b[start..i].iter().collect());
    }
    out
}

const KEYWORDS: &[&str] = &[
    "fn", "let", "match", "if", "else", "while", "enum", "struct", "trait", "impl", "for", "extern", "package", "import",
    "go", "dyn", "true", "false", "in", "return", "type", "Self", "self",
];
const TYPES: &[&str] = &[
    "int8", "int16", "int32", "int64", "uint8", "uint16", "uint32", "uint64", "float32", "float64", "string", "bool", "unit",
];
const OPS: &[&str] = &["+", "-", "*", "/", "<", ">", "<=", ">=", "==", "!=", "&&", "||"];

fn is_ident(t: &str) -> bool {
    t.chars().next().is_some_and(|c| c.is_alphabetic() || c == '_') && !KEYWORDS.contains(&t) && !TYPES.contains(&t)
}

fn fuzz_variant(rng: &mut Lcg, src: &str, others: &[String]) -> String {
    let mut toks = lex(src);
    let nm = 1 + rng.below(3);
    for _ in 0..nm {
        if toks.is_empty() {
            break;
        }
        match rng.below(9) {
            0 | 1 => {
                // identifier := another identifier of the program
                let ids: Vec<usize> = (0..toks.len()).filter(|i| is_ident(&toks[*i])).collect();
                if ids.len() > 1 {
                    let a = ids[rng.below(ids.len())];
                    let b = ids[rng.below(ids.len())];
                    toks[a] = toks[b].clone();
                }
            }
            2 => {
                let ts: Vec<usize> = (0..toks.len()).filter(|i| TYPES.contains(&toks[*i].as_str())).collect();
                if !ts.is_empty() {
                    let a = ts[rng.below(ts.len())];
                    toks[a] = TYPES[rng.below(TYPES.len())].to_string();
                }
            }
            3 => {
                let os: Vec<usize> = (0..toks.len()).filter(|i| OPS.contains(&toks[*i].as_str())).collect();
                if !os.is_empty() {
                    let a = os[rng.below(os.len())];
                    toks[a] = OPS[rng.below(OPS.len())].to_string();
                }
            }
            4 => {
                let ns: Vec<usize> = (0..toks.len()).filter(|i| toks[*i].chars().next().is_some_and(|c| c.is_ascii_digit())).collect();
                if !ns.is_empty() {
                    let a = ns[rng.below(ns.len())];
                    toks[a] = ["0", "1", "2", "255", "3.5", "7i8", "9u64", "1.0f32"][rng.below(8)].to_string();
                }
            }
            5 | 6 => {
                // line-level: delete / duplicate / swap
                let text: String = toks.concat();
                let mut lines: Vec<&str> = text.lines().collect();
                if lines.len() > 2 {
                    let a = rng.below(lines.len());
                    let b = rng.below(lines.len());
                    match rng.below(3) {
                        0 => {
                            lines.remove(a);
                        }
                        1 => {
                            let l = lines[a];
                            lines.insert(b, l);
                        }
                        _ => lines.swap(a, b),
                    }
                }
                toks = lex(&lines.join("\n"));
            }
            7 => {
                // expression-ish splice: copy a short token run elsewhere
                let a = rng.below(toks.len());
                let len = 1 + rng.below(8);
                let piece: Vec<String> = toks[a..(a + len).min(toks.len())].to_vec();
                let at = rng.below(toks.len());
                for (k, t) in piece.into_iter().enumerate() {
                    toks.insert((at + k).min(toks.len()), t);
                }
            }
            _ => {
                // append the non-main items of another corpus program
                let o = &others[rng.below(others.len())];
                if let Some(pos) = o.find("fn main") {
                    let mut text: String = toks.concat();
                    text.push('\n');
                    text.push_str(&o[..pos]);
                    toks = lex(&text);
                }
            }
        }
    }
    toks.concat()
}

pub fn run_fuzz() {
    let args: Vec<String> = std::env::args().collect();
    let n: u64 = args.get(2).and_then(|a| a.parse().ok()).unwrap_or(2000);
    let out = std::path::PathBuf::from(args.get(3).cloned().unwrap_or_else(|| "/dev/shm/irck/fuzz".to_string()));
    let _ = std::fs::create_dir_all(&out);
    let scratch = sandbox::Scratch::new("irckfuzz");
    let path = scratch.empty_dir().join("main.gom");
    let srcs: Vec<String> = corpus::pipeline_cases().iter().map(|c| c.source.clone()).collect();
    let seed: u64 = args.get(4).and_then(|a| a.parse().ok()).unwrap_or(0xC0FFEE);
    let mut rng = Lcg(seed);
    let (mut accepted, mut distinct, mut flagged, mut panics) = (0u64, HashSet::new(), 0u64, 0u64);
    let mut sigs: BTreeMap<String, u64> = BTreeMap::new();
    for _ in 0..n {
        let base = &srcs[rng.below(srcs.len())];
        let v = fuzz_variant(&mut rng, base, &srcs);
        if v == *base || !distinct.insert(crate::util::fnv_str(&v)) {
            continue;
        }
        match goml::compile_at(path.clone(), &v) {
            CompileRes::Ok(c, _) => {
                accepted += 1;
                let (errs, _) = match sandbox::guarded(|| check_all(&c)) {
                    Ok(r) => r,
                    Err(p) => {
                        println!("CHECKER PANIC {}:{} {}", p.file, p.line, p.message);
                        let _ = std::fs::write(out.join(format!("checker-panic-{panics}.gom")), &v);
                        panics += 1;
                        continue;
                    }
                };
                if !errs.is_empty() {
                    flagged += 1;
                }
                let mut seen = HashSet::new();
                for e in &errs {
                    let s = e.signature();
                    if seen.insert(s.clone()) {
                        let k = sigs.entry(s.clone()).or_default();
                        if *k < 3 {
                            let f = out.join(format!("{}-{}.gom", s.replace('|', "_"), k));
                            let _ = std::fs::write(f, format!("// {e}\n{v}"));
                        }
                        *k += 1;
                    }
                }
            }
            _ => {}
        }
    }
    println!("irck-fuzz: {n} variants, {accepted} accepted by the compiler, {flagged} with IR errors, {panics} checker panics");
    for (s, k) in sigs {
        println!("  {k:5}  {s}");
    }
}
