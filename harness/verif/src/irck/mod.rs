//! irck — independent type-consistency checkers for the IRs the goml compiler
//! can dump (Core, Mono, Lift, ANF).  Part of property C03:
//!
//!   "If the compiler accepts a program, each representation it can dump is
//!    type-consistent: every variable use is in scope of a binder of the same
//!    type, every call, constructor, field access, operator and branch agrees
//!    with the declared signatures, and after monomorphisation no type
//!    parameter, generic type application or inference variable remains."
//!
//! Each checker is a small type checker written from what the IR is supposed
//! to mean.  It only *reads* the compiler's data structures (IR files and the
//! environments with the type / function declarations); it never calls the
//! compiler's own checking code and it does not trust cached annotations where
//! they can be verified against the children.
//!
//! Entry points: [`check_all`], [`check_core`], [`check_mono`], [`check_lift`],
//! [`check_anf`].  Debugging aids: [`mutate::run_corpus`], [`mutate::run_mutate`],
//! [`mutate::run_fuzz`].
//!
//! Layout: `mod.rs` holds the API, the declaration tables of a stage (`Env`),
//! the type utilities and every type-level rule; `tree.rs` walks Core / Mono /
//! Lift (one walker over a borrowed view of the three expression types);
//! `anfck.rs` walks ANF; `mutate.rs` is the calibration tooling.
//!
//! Deliberately NOT checked (meaning unclear or not consumed by any later stage):
//! * the annotation on a `let` node in ANF (`ALet.ty` is the type the let had
//!   before the continuation was pushed into its body); in Core / Mono only
//!   "type of the body or type of the bound value" can be required, because the
//!   match compiler writes one or the other depending on the construct;
//! * argument and result types of trait calls on a type-parameter receiver
//!   (`ETraitCall`) and the `Self`-mentioning parts of dyn-call signatures;
//! * variables in the argument positions of a constructor pattern are not
//!   treated as binders and not scope-checked: the match compiler re-binds each
//!   of them with `let x = C.i(scrutinee)` and ANF drops them;
//! * exhaustiveness / redundancy of match arms, the type of a `while` body,
//!   uniqueness of local binder names, the names of closure-environment fields;
//! * in Core, whether a trait implementation exists for `EToDyn` (after mono the
//!   functions the vtable needs must exist: rule `todyn-impl`).
//!
//! The wildcard array length of the `array_get` / `array_set` schemes is equal
//! to every length in all comparisons (as in the compiler's unifier); a wildcard
//! that escapes into the type of a value is reported once as `array-wildcard-len`.

use compiler::common::{Constructor, Prim};
use compiler::env::{EnumDef, FnOrigin, GlobalTypeEnv, InherentImplKey, StructDef};
use compiler::pipeline::pipeline::Compilation;
use compiler::tast::{Ty, ARRAY_WILDCARD_LEN};
use std::collections::HashMap;
use std::sync::OnceLock;

pub(crate) mod anfck;
pub mod mutate;
pub(crate) mod tree;

// ---------------------------------------------------------------------------
// public API
// ---------------------------------------------------------------------------

#[derive(Debug, Clone, PartialEq, Eq, Hash)]
pub struct IrError {
    /// "core" | "mono" | "lift" | "anf"
    pub stage: &'static str,
    /// stable rule id (see RULES)
    pub rule: &'static str,
    /// enclosing top-level function ("" for file-level rules)
    pub func: String,
    pub detail: String,
}

impl IrError {
    /// `C03|irck|<stage>|<rule>` — stable, contains no program-specific data
    pub fn signature(&self) -> String {
        format!("C03|irck|{}|{}", self.stage, self.rule)
    }
}

impl std::fmt::Display for IrError {
    fn fmt(&self, f: &mut std::fmt::Formatter<'_>) -> std::fmt::Result {
        write!(f, "[{}:{}] fn `{}`: {}", self.stage, self.rule, self.func, self.detail)
    }
}

#[derive(Debug, Clone, Copy, Default, PartialEq, Eq)]
pub struct IrStats {
    /// IR nodes (expressions / immediates) that were visited and checked
    pub nodes_checked: u64,
    /// aspects silently skipped because the construct's meaning is unknown to
    /// the checker (unknown type names, trait `Self` signatures, ...)
    pub skipped: u64,
}

impl IrStats {
    fn add(&mut self, o: IrStats) {
        self.nodes_checked += o.nodes_checked;
        self.skipped += o.skipped;
    }
}

/// All rule ids any checker can emit (documentation + used by the mutation report).
pub const RULES: &[&str] = &[
    "unbound-var", "missing-fn", "var-type", "fn-ref-type", "closure-apply-callee-type",
    "prim-type", "call-callee-type", "call-arity", "call-arg-type", "call-ret-type",
    "constr-type", "constr-unknown-type", "constr-index", "constr-targs", "constr-arity",
    "constr-arg-type", "constr-get", "proj", "tuple-arity", "tuple-item-type", "array-len",
    "array-item-type", "closure-type", "closure-ret", "binop", "binop-operand-class", "unop",
    "if-cond", "if-branches", "match-arm-head", "match-arm-type", "let-type", "while-cond",
    "while-type", "go-expr", "go-type", "todyn", "todyn-impl", "dyncall", "traitcall",
    "residue-tparam", "residue-tvar", "residue-tapp", "array-wildcard-len", "tparam-scope", "type-unknown", "type-arity", "dup-fn", "dup-param",
    "closure-env", "ret-type", "tag-value",
];

pub fn check_all(c: &Compilation) -> (Vec<IrError>, IrStats) {
    let mut errs = Vec::new();
    let mut stats = IrStats::default();
    for (e, s) in [
        check_core(&c.core, &c.genv),
        check_mono(&c.mono, &c.monoenv),
        check_lift(&c.lambda, &c.liftenv),
        check_anf(&c.anf, &c.anfenv),
    ] {
        errs.extend(e);
        stats.add(s);
    }
    (errs, stats)
}

pub fn check_core(f: &compiler::core::File, genv: &GlobalTypeEnv) -> (Vec<IrError>, IrStats) {
    let env = Env::for_core(f, genv);
    let mut st = State::default();
    tree::check_file(&env, &mut st, f.toplevels.iter().map(|f| tree::FnView {
        name: &f.name,
        generics: &f.generics,
        params: &f.params,
        ret_ty: &f.ret_ty,
        body: &f.body,
    }));
    st.finish()
}

pub fn check_mono(
    f: &compiler::mono::MonoFile,
    monoenv: &compiler::mono::GlobalMonoEnv,
) -> (Vec<IrError>, IrStats) {
    let env = Env::for_mono(f, monoenv);
    let mut st = State::default();
    static NO_GENERICS: Vec<String> = Vec::new();
    tree::check_file(&env, &mut st, f.toplevels.iter().map(|f| tree::FnView {
        name: &f.name,
        generics: &NO_GENERICS,
        params: &f.params,
        ret_ty: &f.ret_ty,
        body: &f.body,
    }));
    st.finish()
}

pub fn check_lift(
    f: &compiler::lift::LiftFile,
    liftenv: &compiler::lift::GlobalLiftEnv,
) -> (Vec<IrError>, IrStats) {
    let env = Env::for_lift(f, liftenv);
    let mut st = State::default();
    static NO_GENERICS: Vec<String> = Vec::new();
    tree::check_file(&env, &mut st, f.toplevels.iter().map(|f| tree::FnView {
        name: &f.name,
        generics: &NO_GENERICS,
        params: &f.params,
        ret_ty: &f.ret_ty,
        body: &f.body,
    }));
    st.finish()
}

pub fn check_anf(
    f: &compiler::anf::File,
    anfenv: &compiler::anf::GlobalAnfEnv,
) -> (Vec<IrError>, IrStats) {
    let env = Env::for_anf(f, anfenv);
    let mut st = State::default();
    anfck::check_file(&env, &mut st, f);
    st.finish()
}

// ---------------------------------------------------------------------------
// shared machinery
// ---------------------------------------------------------------------------

#[derive(Clone, Copy, PartialEq, Eq, Debug)]
pub(crate) enum Stage {
    Core,
    Mono,
    Lift,
    Anf,
}

impl Stage {
    pub(crate) fn name(self) -> &'static str {
        match self {
            Stage::Core => "core",
            Stage::Mono => "mono",
            Stage::Lift => "lift",
            Stage::Anf => "anf",
        }
    }
    pub(crate) fn post_mono(self) -> bool {
        self != Stage::Core
    }
    pub(crate) fn post_lift(self) -> bool {
        matches!(self, Stage::Lift | Stage::Anf)
    }
}

/// a top-level function of the file under check
pub(crate) struct FnInfo<'a> {
    pub params: Vec<&'a Ty>,
    pub ret: &'a Ty,
    /// `TFunc(params, ret)` built from the declaration
    pub fn_ty: Ty,
    pub count: u32,
}

/// mutable part of a check run
#[derive(Default)]
pub(crate) struct State<'a> {
    pub errors: Vec<IrError>,
    pub stats: IrStats,
    pub stage: &'static str,
    pub cur_fn: &'a str,
    /// lexical scope, innermost last
    pub scope: Vec<(&'a str, &'a Ty)>,
}

impl<'a> State<'a> {
    pub(crate) fn err(&mut self, rule: &'static str, detail: String) {
        debug_assert!(RULES.contains(&rule), "unregistered rule {rule}");
        // cap the amount of text kept per run; rule + func are what matters
        if self.errors.len() < 2000 {
            self.errors.push(IrError { stage: self.stage, rule, func: self.cur_fn.to_string(), detail });
        }
    }
    pub(crate) fn skip(&mut self) {
        self.stats.skipped += 1;
    }
    pub(crate) fn lookup(&self, name: &str) -> Option<&'a Ty> {
        self.scope.iter().rev().find(|(n, _)| *n == name).map(|(_, t)| *t)
    }
    fn finish(mut self) -> (Vec<IrError>, IrStats) {
        // identical reports (same place, same text) are collapsed
        let mut seen = std::collections::HashSet::new();
        self.errors.retain(|e| seen.insert(e.clone()));
        (self.errors, self.stats)
    }
}

/// what a non-local name refers to
pub(crate) enum Global<'e, 'a> {
    /// function defined in the file under check
    TopFn(&'e FnInfo<'a>),
    /// runtime builtin with a (possibly polymorphic) scheme; TParams are bindable
    Builtin(&'e Ty),
    /// `extern "go"` function: exact type
    Extern(&'a Ty),
    /// declared in the global environment as a user function but absent from the file
    DeclaredButAbsent,
    NotFound,
}

/// immutable part: declarations visible to the IR under check
pub(crate) struct Env<'a> {
    pub stage: Stage,
    pub genv: &'a GlobalTypeEnv,
    pub enums: HashMap<&'a str, &'a EnumDef>,
    pub structs: HashMap<&'a str, &'a StructDef>,
    pub fns: HashMap<&'a str, FnInfo<'a>>,
    /// Core only: (base type, method) -> name of the generic inherent method
    /// (call sites use `inherent#Base#<instantiated ty>#m`, mono resolves them
    /// through exactly this index)
    pub inherent_generic: HashMap<(&'a str, &'a str), &'a str>,
    /// Lift/ANF: closure env struct name -> type registered for its `apply`
    pub apply_impls: HashMap<&'a str, &'a Ty>,
}

fn fn_info<'a>(params: &'a [(String, Ty)], ret: &'a Ty) -> FnInfo<'a> {
    FnInfo {
        params: params.iter().map(|(_, t)| t).collect(),
        ret,
        fn_ty: Ty::TFunc { params: params.iter().map(|(_, t)| t.clone()).collect(), ret_ty: Box::new(ret.clone()) },
        count: 1,
    }
}

fn parse_inherent(name: &str) -> Option<(&str, &str)> {
    let mut it = name.split('#');
    if it.next()? != "inherent" {
        return None;
    }
    let base = it.next()?;
    let _ty = it.next()?;
    let m = it.next()?;
    if it.next().is_some() {
        return None;
    }
    Some((base, m))
}

impl<'a> Env<'a> {
    fn empty(stage: Stage, genv: &'a GlobalTypeEnv) -> Self {
        Env {
            stage,
            genv,
            enums: HashMap::new(),
            structs: HashMap::new(),
            fns: HashMap::new(),
            inherent_generic: HashMap::new(),
            apply_impls: HashMap::new(),
        }
    }

    fn add_fn(&mut self, name: &'a str, params: &'a [(String, Ty)], ret: &'a Ty) {
        match self.fns.get_mut(name) {
            Some(i) => i.count += 1,
            None => {
                self.fns.insert(name, fn_info(params, ret));
            }
        }
    }

    fn for_core(f: &'a compiler::core::File, genv: &'a GlobalTypeEnv) -> Self {
        let mut e = Env::empty(Stage::Core, genv);
        for (k, d) in genv.type_env.enums.iter() {
            e.enums.insert(k.0.as_str(), d);
        }
        for (k, d) in genv.type_env.structs.iter() {
            e.structs.insert(k.0.as_str(), d);
        }
        for t in &f.toplevels {
            e.add_fn(&t.name, &t.params, &t.ret_ty);
            if !t.generics.is_empty() {
                if let Some((b, m)) = parse_inherent(&t.name) {
                    e.inherent_generic.insert((b, m), t.name.as_str());
                }
            }
        }
        e
    }

    fn add_monoenv(&mut self, m: &'a compiler::mono::GlobalMonoEnv) {
        // same precedence as GlobalMonoEnv::get_enum / get_struct: specialised
        // definitions first, then the (non-generic) global ones
        for (k, d) in m.genv.type_env.enums.iter() {
            if d.generics.is_empty() {
                self.enums.insert(k.0.as_str(), d);
            }
        }
        for (k, d) in m.mono_enums.iter() {
            if d.generics.is_empty() {
                self.enums.insert(k.0.as_str(), d);
            }
        }
        for (k, d) in m.genv.type_env.structs.iter() {
            if d.generics.is_empty() {
                self.structs.insert(k.0.as_str(), d);
            }
        }
        for (k, d) in m.mono_structs.iter() {
            if d.generics.is_empty() {
                self.structs.insert(k.0.as_str(), d);
            }
        }
    }

    fn add_liftenv(&mut self, l: &'a compiler::lift::GlobalLiftEnv) {
        self.add_monoenv(&l.monoenv);
        for (k, d) in l.lifted_structs.iter() {
            self.structs.insert(k.0.as_str(), d);
        }
        for (k, d) in l.lifted_inherent_impls.iter() {
            if let InherentImplKey::Exact(Ty::TStruct { name }) = k {
                if let Some(s) = d.methods.get("apply") {
                    self.apply_impls.insert(name.as_str(), &s.ty);
                }
            }
        }
    }

    fn for_mono(f: &'a compiler::mono::MonoFile, m: &'a compiler::mono::GlobalMonoEnv) -> Self {
        let mut e = Env::empty(Stage::Mono, &m.genv);
        e.add_monoenv(m);
        for t in &f.toplevels {
            e.add_fn(&t.name, &t.params, &t.ret_ty);
        }
        e
    }

    fn for_lift(f: &'a compiler::lift::LiftFile, l: &'a compiler::lift::GlobalLiftEnv) -> Self {
        let mut e = Env::empty(Stage::Lift, &l.monoenv.genv);
        e.add_liftenv(l);
        for t in &f.toplevels {
            e.add_fn(&t.name, &t.params, &t.ret_ty);
        }
        e
    }

    fn for_anf(f: &'a compiler::anf::File, a: &'a compiler::anf::GlobalAnfEnv) -> Self {
        let mut e = Env::empty(Stage::Anf, &a.liftenv.monoenv.genv);
        e.add_liftenv(&a.liftenv);
        for t in &f.toplevels {
            e.add_fn(&t.name, &t.params, &t.ret_ty);
        }
        e
    }

    pub(crate) fn global<'e>(&'e self, name: &str) -> Global<'e, 'a> {
        if let Some(i) = self.fns.get(name) {
            return Global::TopFn(i);
        }
        if self.stage == Stage::Core {
            if let Some((b, m)) = parse_inherent(name) {
                if let Some(i) = self.inherent_generic.get(&(b, m)).and_then(|g| self.fns.get(g)) {
                    return Global::TopFn(i);
                }
            }
        }
        if let Some(t) = builtin_table().get(name) {
            return Global::Builtin(t);
        }
        if let Some(x) = self.genv.value_env.extern_funcs.get(name) {
            return Global::Extern(&x.ty);
        }
        if let Some(s) = self.genv.value_env.funcs.get(name) {
            return match s.origin {
                FnOrigin::Builtin => Global::Builtin(&s.ty),
                _ => Global::DeclaredButAbsent,
            };
        }
        Global::NotFound
    }

    /// the name of a lifted closure body: `inherent#<S>#<S>#apply`
    pub(crate) fn apply_fn_name(struct_name: &str) -> String {
        format!("inherent#{0}#{0}#apply", struct_name)
    }

    pub(crate) fn is_closure_env(name: &str) -> bool {
        name.starts_with("closure_env_")
    }
}

// ---------------------------------------------------------------------------
// builtin schemes (own transcription of builtins.rs / builtin.gom)
// ---------------------------------------------------------------------------

fn tp() -> Ty {
    Ty::TParam { name: "T".to_string() }
}
fn func(params: Vec<Ty>, ret: Ty) -> Ty {
    Ty::TFunc { params, ret_ty: Box::new(ret) }
}

fn builtin_table() -> &'static HashMap<&'static str, Ty> {
    static T: OnceLock<HashMap<&'static str, Ty>> = OnceLock::new();
    T.get_or_init(|| {
        let mut m = HashMap::new();
        let arr = || Ty::TArray { len: ARRAY_WILDCARD_LEN, elem: Box::new(tp()) };
        let rf = || Ty::TRef { elem: Box::new(tp()) };
        let vec = || Ty::TVec { elem: Box::new(tp()) };
        m.insert("array_get", func(vec![arr(), Ty::TInt32], tp()));
        m.insert("array_set", func(vec![arr(), Ty::TInt32, tp()], arr()));
        m.insert("ref", func(vec![tp()], rf()));
        m.insert("ref_get", func(vec![rf()], tp()));
        m.insert("ref_set", func(vec![rf(), tp()], Ty::TUnit));
        m.insert("vec_new", func(vec![], vec()));
        m.insert("vec_push", func(vec![vec(), tp()], vec()));
        m.insert("vec_get", func(vec![vec(), Ty::TInt32], tp()));
        m.insert("vec_len", func(vec![vec()], Ty::TInt32));
        // inserted by the match compiler for unreachable / non-exhaustive arms
        m.insert("missing", func(vec![Ty::TString], tp()));
        for (n, t) in [
            ("unit_to_string", Ty::TUnit),
            ("bool_to_string", Ty::TBool),
            ("bool_to_json", Ty::TBool),
            ("json_escape_string", Ty::TString),
            ("int8_to_string", Ty::TInt8),
            ("int16_to_string", Ty::TInt16),
            ("int32_to_string", Ty::TInt32),
            ("int64_to_string", Ty::TInt64),
            ("uint8_to_string", Ty::TUint8),
            ("uint16_to_string", Ty::TUint16),
            ("uint32_to_string", Ty::TUint32),
            ("uint64_to_string", Ty::TUint64),
            ("float32_to_string", Ty::TFloat32),
            ("float64_to_string", Ty::TFloat64),
        ] {
            m.insert(n, func(vec![t], Ty::TString));
        }
        m.insert("string_len", func(vec![Ty::TString], Ty::TInt32));
        m.insert("string_get", func(vec![Ty::TString, Ty::TInt32], Ty::TString));
        m.insert("string_print", func(vec![Ty::TString], Ty::TUnit));
        m.insert("string_println", func(vec![Ty::TString], Ty::TUnit));
        m
    })
}

// ---------------------------------------------------------------------------
// type utilities
// ---------------------------------------------------------------------------

pub(crate) fn is_int(t: &Ty) -> bool {
    matches!(
        t,
        Ty::TInt8 | Ty::TInt16 | Ty::TInt32 | Ty::TInt64 | Ty::TUint8 | Ty::TUint16 | Ty::TUint32 | Ty::TUint64
    )
}
pub(crate) fn is_numeric(t: &Ty) -> bool {
    is_int(t) || matches!(t, Ty::TFloat32 | Ty::TFloat64)
}

/// the first offending piece of a type that must not survive monomorphisation
pub(crate) fn residue(t: &Ty) -> Option<&'static str> {
    match t {
        Ty::TParam { .. } => Some("residue-tparam"),
        Ty::TVar(_) => Some("residue-tvar"),
        Ty::TApp { ty, args } => {
            if !args.is_empty() {
                return Some("residue-tapp");
            }
            residue(ty)
        }
        Ty::TTuple { typs } => typs.iter().find_map(residue),
        Ty::TArray { elem, .. } | Ty::TVec { elem } | Ty::TRef { elem } => residue(elem),
        Ty::TFunc { params, ret_ty } => params.iter().find_map(residue).or_else(|| residue(ret_ty)),
        _ => None,
    }
}

pub(crate) fn tparams_of<'t>(t: &'t Ty, out: &mut Vec<&'t str>) {
    match t {
        Ty::TParam { name } => {
            if !out.contains(&name.as_str()) {
                out.push(name)
            }
        }
        Ty::TApp { ty, args } => {
            tparams_of(ty, out);
            args.iter().for_each(|a| tparams_of(a, out));
        }
        Ty::TTuple { typs } => typs.iter().for_each(|a| tparams_of(a, out)),
        Ty::TArray { elem, .. } | Ty::TVec { elem } | Ty::TRef { elem } => tparams_of(elem, out),
        Ty::TFunc { params, ret_ty } => {
            params.iter().for_each(|a| tparams_of(a, out));
            tparams_of(ret_ty, out);
        }
        _ => {}
    }
}

pub(crate) fn mentions_self(t: &Ty) -> bool {
    match t {
        Ty::TStruct { name } | Ty::TEnum { name } => name == "Self",
        Ty::TParam { .. } => true,
        Ty::TApp { ty, args } => mentions_self(ty) || args.iter().any(mentions_self),
        Ty::TTuple { typs } => typs.iter().any(mentions_self),
        Ty::TArray { elem, .. } | Ty::TVec { elem } | Ty::TRef { elem } => mentions_self(elem),
        Ty::TFunc { params, ret_ty } => params.iter().any(mentions_self) || mentions_self(ret_ty),
        _ => false,
    }
}

/// `Name` / `Name[args]` -> (Name, args, is_enum)
pub(crate) fn decompose(t: &Ty) -> Option<(&str, &[Ty], bool)> {
    match t {
        Ty::TEnum { name } => Some((name, &[], true)),
        Ty::TStruct { name } => Some((name, &[], false)),
        Ty::TApp { ty, args } => match ty.as_ref() {
            Ty::TEnum { name } => Some((name, args, true)),
            Ty::TStruct { name } => Some((name, args, false)),
            _ => None,
        },
        _ => None,
    }
}

pub(crate) fn subst(t: &Ty, names: &[compiler::tast::TastIdent], args: &[Ty]) -> Ty {
    match t {
        Ty::TParam { name } => match names.iter().position(|n| &n.0 == name) {
            Some(i) if i < args.len() => args[i].clone(),
            _ => t.clone(),
        },
        Ty::TTuple { typs } => Ty::TTuple { typs: typs.iter().map(|x| subst(x, names, args)).collect() },
        Ty::TApp { ty, args: a } => Ty::TApp {
            ty: Box::new(subst(ty, names, args)),
            args: a.iter().map(|x| subst(x, names, args)).collect(),
        },
        Ty::TArray { len, elem } => Ty::TArray { len: *len, elem: Box::new(subst(elem, names, args)) },
        Ty::TVec { elem } => Ty::TVec { elem: Box::new(subst(elem, names, args)) },
        Ty::TRef { elem } => Ty::TRef { elem: Box::new(subst(elem, names, args)) },
        Ty::TFunc { params, ret_ty } => Ty::TFunc {
            params: params.iter().map(|x| subst(x, names, args)).collect(),
            ret_ty: Box::new(subst(ret_ty, names, args)),
        },
        _ => t.clone(),
    }
}

/// bindings collected while matching a polymorphic template against a concrete type
#[derive(Default)]
pub(crate) struct Binds<'t, 'a> {
    tys: Vec<(&'t str, &'a Ty)>,
    len: Option<usize>,
}

/// one-way matching: TParams of `tmpl` are variables, `act` is rigid.  The
/// wildcard array length of the array builtins is a length variable.
pub(crate) fn match_ty<'t, 'a>(tmpl: &'t Ty, act: &'a Ty, b: &mut Binds<'t, 'a>) -> bool {
    match (tmpl, act) {
        (Ty::TParam { name }, a) => {
            if let Some((_, prev)) = b.tys.iter().find(|(n, _)| n == name) {
                teq(prev, a)
            } else {
                b.tys.push((name, a));
                true
            }
        }
        (Ty::TTuple { typs: l }, Ty::TTuple { typs: r }) => {
            l.len() == r.len() && l.iter().zip(r).all(|(x, y)| match_ty(x, y, b))
        }
        (Ty::TApp { ty: lt, args: la }, Ty::TApp { ty: rt, args: ra }) => {
            la.len() == ra.len() && match_ty(lt, rt, b) && la.iter().zip(ra).all(|(x, y)| match_ty(x, y, b))
        }
        (Ty::TArray { len: ll, elem: le }, Ty::TArray { len: rl, elem: re }) => {
            let len_ok = if *rl == ARRAY_WILDCARD_LEN {
                true
            } else if *ll == ARRAY_WILDCARD_LEN {
                match b.len {
                    Some(p) => p == *rl,
                    None => {
                        b.len = Some(*rl);
                        true
                    }
                }
            } else {
                ll == rl
            };
            len_ok && match_ty(le, re, b)
        }
        (Ty::TVec { elem: l }, Ty::TVec { elem: r }) | (Ty::TRef { elem: l }, Ty::TRef { elem: r }) => {
            match_ty(l, r, b)
        }
        (Ty::TFunc { params: lp, ret_ty: lr }, Ty::TFunc { params: rp, ret_ty: rr }) => {
            lp.len() == rp.len() && lp.iter().zip(rp).all(|(x, y)| match_ty(x, y, b)) && match_ty(lr, rr, b)
        }
        (l, r) => teq(l, r),
    }
}

/// type equality as the compiler's own unifier sees it: the wildcard array
/// length (`array_get` / `array_set` schemes) is compatible with every length.
/// A wildcard that escapes into the type of a value is reported separately
/// (rule `array-wildcard-len`), so it must not cascade into other rules.
pub(crate) fn teq(a: &Ty, b: &Ty) -> bool {
    match (a, b) {
        (Ty::TArray { len: la, elem: ea }, Ty::TArray { len: lb, elem: eb }) => {
            (la == lb || *la == ARRAY_WILDCARD_LEN || *lb == ARRAY_WILDCARD_LEN) && teq(ea, eb)
        }
        (Ty::TTuple { typs: l }, Ty::TTuple { typs: r }) => l.len() == r.len() && l.iter().zip(r).all(|(x, y)| teq(x, y)),
        (Ty::TApp { ty: lt, args: la }, Ty::TApp { ty: rt, args: ra }) => {
            la.len() == ra.len() && teq(lt, rt) && la.iter().zip(ra).all(|(x, y)| teq(x, y))
        }
        (Ty::TVec { elem: l }, Ty::TVec { elem: r }) | (Ty::TRef { elem: l }, Ty::TRef { elem: r }) => teq(l, r),
        (Ty::TFunc { params: lp, ret_ty: lr }, Ty::TFunc { params: rp, ret_ty: rr }) => {
            lp.len() == rp.len() && lp.iter().zip(rp).all(|(x, y)| teq(x, y)) && teq(lr, rr)
        }
        (l, r) => l == r,
    }
}

pub(crate) fn has_wildcard_len(t: &Ty) -> bool {
    match t {
        Ty::TArray { len, elem } => *len == ARRAY_WILDCARD_LEN || has_wildcard_len(elem),
        Ty::TTuple { typs } => typs.iter().any(has_wildcard_len),
        Ty::TApp { ty, args } => has_wildcard_len(ty) || args.iter().any(has_wildcard_len),
        Ty::TVec { elem } | Ty::TRef { elem } => has_wildcard_len(elem),
        Ty::TFunc { params, ret_ty } => params.iter().any(has_wildcard_len) || has_wildcard_len(ret_ty),
        _ => false,
    }
}

pub(crate) fn prim_matches(v: &Prim, t: &Ty) -> bool {
    matches!(
        (v, t),
        (Prim::Unit { .. }, Ty::TUnit)
            | (Prim::Bool { .. }, Ty::TBool)
            | (Prim::Int8 { .. }, Ty::TInt8)
            | (Prim::Int16 { .. }, Ty::TInt16)
            | (Prim::Int32 { .. }, Ty::TInt32)
            | (Prim::Int64 { .. }, Ty::TInt64)
            | (Prim::UInt8 { .. }, Ty::TUint8)
            | (Prim::UInt16 { .. }, Ty::TUint16)
            | (Prim::UInt32 { .. }, Ty::TUint32)
            | (Prim::UInt64 { .. }, Ty::TUint64)
            | (Prim::Float32 { .. }, Ty::TFloat32)
            | (Prim::Float64 { .. }, Ty::TFloat64)
            | (Prim::String { .. }, Ty::TString)
    )
}

// ---------------------------------------------------------------------------
// type-level rules shared by the tree checkers and the ANF checker
// ---------------------------------------------------------------------------

impl<'a> Env<'a> {
    /// annotation must not contain anything monomorphisation should have removed
    pub(crate) fn check_annot(&self, st: &mut State<'a>, t: &Ty, what: &str) {
        self.check_annot_fn_ref(st, t, what);
        if has_wildcard_len(t) {
            st.err("array-wildcard-len", format!("{what}: type {t:?} contains the wildcard array length of the array builtins"));
        }
    }

    /// the annotation on a reference to a builtin: the wildcard array length
    /// of the `array_get` / `array_set` schemes is legitimate there
    pub(crate) fn check_annot_fn_ref(&self, st: &mut State<'a>, t: &Ty, what: &str) {
        if self.stage.post_mono() {
            if let Some(rule) = residue(t) {
                st.err(rule, format!("{what}: type {t:?}"));
                return;
            }
        }
        self.well_formed(st, t, t, what);
    }

    /// every type name is defined and applied to as many arguments as it has parameters
    fn well_formed(&self, st: &mut State<'a>, t: &Ty, whole: &Ty, what: &str) {
        match t {
            Ty::TEnum { name } | Ty::TStruct { name } => self.named(st, t, name, 0, whole, what),
            Ty::TApp { ty, args } => {
                match ty.as_ref() {
                    Ty::TEnum { name } | Ty::TStruct { name } => self.named(st, ty, name, args.len(), whole, what),
                    other => self.well_formed(st, other, whole, what),
                }
                for a in args {
                    self.well_formed(st, a, whole, what);
                }
            }
            Ty::TDyn { trait_name } => {
                if !self.genv.trait_env.trait_defs.contains_key(trait_name.as_str()) {
                    st.err("type-unknown", format!("{what}: type {whole:?} mentions undefined trait `{trait_name}`"));
                }
            }
            Ty::TTuple { typs } => typs.iter().for_each(|x| self.well_formed(st, x, whole, what)),
            Ty::TArray { elem, .. } | Ty::TVec { elem } | Ty::TRef { elem } => self.well_formed(st, elem, whole, what),
            Ty::TFunc { params, ret_ty } => {
                params.iter().for_each(|x| self.well_formed(st, x, whole, what));
                self.well_formed(st, ret_ty, whole, what);
            }
            _ => {}
        }
    }

    fn named(&self, st: &mut State<'a>, t: &Ty, name: &str, nargs: usize, whole: &Ty, what: &str) {
        let generics = match t {
            Ty::TEnum { .. } => self.enums.get(name).map(|d| d.generics.len()),
            _ => self.structs.get(name).map(|d| d.generics.len()),
        };
        match generics {
            Some(n) => {
                if n != nargs {
                    st.err("type-arity", format!("{what}: in {whole:?}, `{name}` has {n} type parameters but is applied to {nargs}"));
                }
            }
            None => {
                let is_extern = matches!(t, Ty::TStruct { .. }) && self.genv.type_env.extern_types.contains_key(name);
                if !is_extern {
                    st.err("type-unknown", format!("{what}: type {whole:?} mentions `{name}`, which has no definition at this stage"));
                } else if nargs != 0 {
                    st.err("type-arity", format!("{what}: in {whole:?}, extern type `{name}` is applied to {nargs} arguments"));
                }
            }
        }
    }

    /// use of variable `name` annotated with `ty`
    pub(crate) fn check_var(&self, st: &mut State<'a>, name: &str, ty: &'a Ty, as_callee: bool) {
        if let Some(bt) = st.lookup(name) {
            self.check_annot(st, ty, "variable");
            if !teq(bt, ty) {
                st.err("var-type", format!("`{name}` is bound at type {bt:?} but used at {ty:?}"));
            }
            return;
        }
        let g = self.global(name);
        if matches!(g, Global::Builtin(_)) {
            self.check_annot_fn_ref(st, ty, "builtin reference");
        } else {
            self.check_annot(st, ty, "variable");
        }
        match g {
            Global::TopFn(info) => {
                if self.stage == Stage::Core {
                    let mut b = Binds::default();
                    if !match_ty(&info.fn_ty, ty, &mut b) {
                        st.err(
                            "fn-ref-type",
                            format!("`{name}` is declared {:?} which does not instantiate to {ty:?}", info.fn_ty),
                        );
                    }
                } else if !teq(&info.fn_ty, ty) {
                    // lift gives the callee of a closure call the closure's
                    // struct type instead of the type of the apply function
                    let apply_quirk = self.stage.post_lift()
                        && as_callee
                        && matches!((info.params.first(), ty),
                            (Some(Ty::TStruct { name: a }), Ty::TStruct { name: b })
                                if a == b && Env::is_closure_env(a) && Env::apply_fn_name(a) == name);
                    if apply_quirk {
                        st.err(
                            "closure-apply-callee-type",
                            format!("callee `{name}` is annotated {ty:?}, its declaration is {:?}", info.fn_ty),
                        );
                    } else {
                        st.err(
                            "fn-ref-type",
                            format!("`{name}` is declared {:?} but referenced at {ty:?}", info.fn_ty),
                        );
                    }
                }
            }
            Global::Builtin(tmpl) => {
                let mut b = Binds::default();
                if !match_ty(tmpl, ty, &mut b) {
                    st.err("fn-ref-type", format!("builtin `{name}`: scheme {tmpl:?} does not instantiate to {ty:?}"));
                }
            }
            Global::Extern(t) => {
                if !teq(t, ty) {
                    st.err("fn-ref-type", format!("extern `{name}` is declared {t:?} but referenced at {ty:?}"));
                }
            }
            Global::DeclaredButAbsent => {
                st.err("missing-fn", format!("`{name}` is declared in the environment but has no definition in this file"));
            }
            Global::NotFound => {
                if as_callee || matches!(ty, Ty::TFunc { .. }) {
                    st.err("missing-fn", format!("function `{name}` ({ty:?}) is not defined"));
                } else {
                    st.err("unbound-var", format!("`{name}` ({ty:?}) has no enclosing binder"));
                }
            }
        }
    }

    /// call: `callee_ty` is the annotation on the callee expression
    pub(crate) fn check_call(
        &self,
        st: &mut State<'a>,
        callee_name: Option<&str>,
        callee_ty: &'a Ty,
        args: &[&'a Ty],
        ret: &'a Ty,
    ) {
        // declared signature takes precedence for direct calls of globals
        let global = match callee_name {
            Some(n) if st.lookup(n).is_none() => Some((n, self.global(n))),
            _ => None,
        };
        let shown = callee_name.unwrap_or("<expr>");
        match global {
            Some((_, Global::Builtin(tmpl))) => {
                let Ty::TFunc { params, ret_ty } = tmpl else {
                    st.skip();
                    return;
                };
                if params.len() != args.len() {
                    st.err("call-arity", format!("builtin `{shown}` takes {} arguments, {} given", params.len(), args.len()));
                    return;
                }
                let mut b = Binds::default();
                for (i, (p, a)) in params.iter().zip(args).enumerate() {
                    if !match_ty(p, a, &mut b) {
                        st.err("call-arg-type", format!("builtin `{shown}` argument {i}: expected {p:?}, got {a:?}"));
                        return;
                    }
                }
                if !match_ty(ret_ty, ret, &mut b) {
                    st.err("call-ret-type", format!("builtin `{shown}` returns {ret_ty:?} (with the argument instantiation), call node has {ret:?}"));
                }
            }
            Some((_, Global::TopFn(info))) if self.stage.post_mono() => {
                if info.params.len() != args.len() {
                    st.err("call-arity", format!("`{shown}` takes {} arguments, {} given", info.params.len(), args.len()));
                    return;
                }
                for (i, (p, a)) in info.params.iter().zip(args).enumerate() {
                    if !teq(p, a) {
                        st.err("call-arg-type", format!("`{shown}` argument {i}: declared {p:?}, got {a:?}"));
                    }
                }
                if !teq(info.ret, ret) {
                    st.err("call-ret-type", format!("`{shown}` is declared to return {:?}, call node has {ret:?}", info.ret));
                }
            }
            Some((_, Global::TopFn(info))) => {
                // Core: the declaration may be generic; the annotation is the
                // call-site instantiation (checked against the declaration by
                // check_var) and must agree with the arguments exactly
                if info.params.len() != args.len() {
                    st.err("call-arity", format!("`{shown}` takes {} arguments, {} given", info.params.len(), args.len()));
                    return;
                }
                let mut b = Binds::default();
                for (i, (p, a)) in info.params.iter().zip(args).enumerate() {
                    if !match_ty(p, a, &mut b) {
                        st.err("call-arg-type", format!("`{shown}` argument {i}: declared {p:?}, got {a:?}"));
                        return;
                    }
                }
                if !match_ty(info.ret, ret, &mut b) {
                    st.err("call-ret-type", format!("`{shown}` is declared to return {:?}, call node has {ret:?}", info.ret));
                    return;
                }
                self.call_by_annotation(st, shown, callee_ty, args, ret);
            }
            _ => self.call_by_annotation(st, shown, callee_ty, args, ret),
        }
    }

    fn call_by_annotation(&self, st: &mut State<'a>, shown: &str, callee_ty: &'a Ty, args: &[&'a Ty], ret: &'a Ty) {
        let Ty::TFunc { params, ret_ty } = callee_ty else {
            st.err("call-callee-type", format!("callee `{shown}` has non-function type {callee_ty:?}"));
            return;
        };
        if params.len() != args.len() {
            st.err("call-arity", format!("callee `{shown}`: {callee_ty:?} applied to {} arguments", args.len()));
            return;
        }
        for (i, (p, a)) in params.iter().zip(args).enumerate() {
            if !teq(p, a) {
                st.err("call-arg-type", format!("callee `{shown}` argument {i}: expected {p:?}, got {a:?}"));
            }
        }
        if !teq(ret_ty, ret) {
            st.err("call-ret-type", format!("callee `{shown}` returns {ret_ty:?}, call node has {ret:?}"));
        }
    }

    /// constructor application (or pattern head with binder types) of type `ty`
    pub(crate) fn check_constr(&self, st: &mut State<'a>, c: &Constructor, args: &[&'a Ty], ty: &'a Ty) {
        self.check_annot(st, ty, "constructor");
        let Some((name, targs, is_enum)) = decompose(ty) else {
            st.err("constr-type", format!("constructor `{}` at non-constructor type {ty:?}", c.name().0));
            return;
        };
        if c.type_name().0 != name || c.is_struct() == is_enum {
            st.err("constr-type", format!("constructor `{}` of type `{}` used at type {ty:?}", c.name().0, c.type_name().0));
            return;
        }
        let (generics, fields): (&[compiler::tast::TastIdent], Vec<&Ty>) = match c {
            Constructor::Enum(ec) => {
                let Some(def) = self.enums.get(name) else {
                    st.err("constr-unknown-type", format!("enum `{name}` has no definition at this stage"));
                    return;
                };
                let Some((vname, fields)) = def.variants.get(ec.index) else {
                    st.err("constr-index", format!("enum `{name}` has {} variants, constructor index {}", def.variants.len(), ec.index));
                    return;
                };
                if vname != &ec.variant {
                    st.err("constr-index", format!("variant {} of `{name}` is `{}`, constructor says `{}`", ec.index, vname.0, ec.variant.0));
                    return;
                }
                (&def.generics, fields.iter().collect())
            }
            Constructor::Struct(_) => {
                let Some(def) = self.structs.get(name) else {
                    st.err("constr-unknown-type", format!("struct `{name}` has no definition at this stage"));
                    return;
                };
                (&def.generics, def.fields.iter().map(|(_, t)| t).collect())
            }
        };
        if generics.len() != targs.len() {
            st.err("constr-targs", format!("`{name}` has {} type parameters, type {ty:?} supplies {}", generics.len(), targs.len()));
            return;
        }
        if fields.len() != args.len() {
            st.err("constr-arity", format!("`{}` of `{name}` has {} fields, {} given", c.name().0, fields.len(), args.len()));
            return;
        }
        for (i, (f, a)) in fields.iter().zip(args).enumerate() {
            let ok = if generics.is_empty() { teq(f, a) } else { teq(&subst(f, generics, targs), a) };
            if !ok {
                st.err("constr-arg-type", format!("`{}` of {ty:?} field {i}: declared {f:?}, got {a:?}", c.name().0));
            }
        }
    }

    /// `EConstrGet`: field `index` of constructor `c` out of a value of type `scrut`
    pub(crate) fn check_constr_get(&self, st: &mut State<'a>, c: &Constructor, index: usize, scrut: &'a Ty, ty: &'a Ty) {
        self.check_annot(st, ty, "field access");
        let Some((name, targs, is_enum)) = decompose(scrut) else {
            st.err("constr-get", format!("field access `{}`.{index} on non-constructor type {scrut:?}", c.name().0));
            return;
        };
        if c.type_name().0 != name || c.is_struct() == is_enum {
            st.err("constr-get", format!("field access through constructor of `{}` on a value of type {scrut:?}", c.type_name().0));
            return;
        }
        let (generics, field): (&[compiler::tast::TastIdent], Option<&Ty>) = match c {
            Constructor::Enum(ec) => {
                let Some(def) = self.enums.get(name) else {
                    st.err("constr-unknown-type", format!("enum `{name}` has no definition at this stage"));
                    return;
                };
                let Some((vname, fields)) = def.variants.get(ec.index) else {
                    st.err("constr-get", format!("enum `{name}` has {} variants, constructor index {}", def.variants.len(), ec.index));
                    return;
                };
                if vname != &ec.variant {
                    st.err("constr-get", format!("variant {} of `{name}` is `{}`, constructor says `{}`", ec.index, vname.0, ec.variant.0));
                    return;
                }
                (&def.generics, fields.get(index))
            }
            Constructor::Struct(_) => {
                let Some(def) = self.structs.get(name) else {
                    st.err("constr-unknown-type", format!("struct `{name}` has no definition at this stage"));
                    return;
                };
                (&def.generics, def.fields.get(index).map(|(_, t)| t))
            }
        };
        let Some(f) = field else {
            st.err("constr-get", format!("`{}` of `{name}` has no field {index}", c.name().0));
            return;
        };
        if generics.len() != targs.len() {
            st.err("constr-targs", format!("`{name}` has {} type parameters, type {scrut:?} supplies {}", generics.len(), targs.len()));
            return;
        }
        let ok = if generics.is_empty() { teq(f, ty) } else { teq(&subst(f, generics, targs), ty) };
        if !ok {
            st.err("constr-get", format!("field {index} of `{}` ({scrut:?}) is declared {f:?}, access node has {ty:?}", c.name().0));
        }
    }

    pub(crate) fn check_proj(&self, st: &mut State<'a>, tuple: &'a Ty, index: usize, ty: &'a Ty) {
        self.check_annot(st, ty, "projection");
        match tuple {
            Ty::TTuple { typs } => match typs.get(index) {
                Some(t) if teq(t, ty) => {}
                Some(t) => st.err("proj", format!("component {index} of {tuple:?} is {t:?}, projection node has {ty:?}")),
                None => st.err("proj", format!("projection .{index} out of range for {tuple:?}")),
            },
            _ => st.err("proj", format!("projection .{index} on non-tuple type {tuple:?}")),
        }
    }

    pub(crate) fn check_tuple(&self, st: &mut State<'a>, items: &[&'a Ty], ty: &'a Ty) {
        self.check_annot(st, ty, "tuple");
        match ty {
            Ty::TTuple { typs } => {
                if typs.len() != items.len() {
                    st.err("tuple-arity", format!("tuple of {} items at type {ty:?}", items.len()));
                    return;
                }
                for (i, (t, a)) in typs.iter().zip(items).enumerate() {
                    if !teq(t, a) {
                        st.err("tuple-item-type", format!("tuple item {i}: type says {t:?}, item has {a:?}"));
                    }
                }
            }
            _ => st.err("tuple-arity", format!("tuple expression at non-tuple type {ty:?}")),
        }
    }

    pub(crate) fn check_array(&self, st: &mut State<'a>, items: &[&'a Ty], ty: &'a Ty) {
        self.check_annot(st, ty, "array");
        match ty {
            Ty::TArray { len, elem } => {
                if *len != items.len() {
                    st.err("array-len", format!("array literal of {} items at type {ty:?}", items.len()));
                }
                for (i, a) in items.iter().enumerate() {
                    if !teq(elem, a) {
                        st.err("array-item-type", format!("array item {i}: element type {elem:?}, item has {a:?}"));
                    }
                }
            }
            _ => st.err("array-len", format!("array literal at non-array type {ty:?}")),
        }
    }

    pub(crate) fn check_prim(&self, st: &mut State<'a>, v: &Prim, ty: &'a Ty) {
        if !prim_matches(v, ty) {
            st.err("prim-type", format!("literal {v} annotated {ty:?}"));
        }
    }

    pub(crate) fn check_unary(&self, st: &mut State<'a>, op: &str, operand: &'a Ty, ty: &'a Ty) {
        self.check_annot(st, ty, "unary operator");
        match op {
            "!" => {
                if *operand != Ty::TBool || *ty != Ty::TBool {
                    st.err("unop", format!("`!` applied to {operand:?} giving {ty:?}"));
                }
            }
            "-" => {
                if !teq(operand, ty) {
                    st.err("unop", format!("`-` applied to {operand:?} giving {ty:?}"));
                } else if !is_numeric(operand) && !matches!(operand, Ty::TParam { .. }) {
                    st.err("unop", format!("`-` applied to non-numeric {operand:?}"));
                }
            }
            _ => st.skip(),
        }
    }

    pub(crate) fn check_binary(&self, st: &mut State<'a>, op: &str, l: &'a Ty, r: &'a Ty, ty: &'a Ty) {
        self.check_annot(st, ty, "binary operator");
        let open = |t: &Ty| matches!(t, Ty::TParam { .. } | Ty::TVar(_));
        match op {
            "+" | "-" | "*" | "/" => {
                if !teq(l, r) || !teq(l, ty) {
                    st.err("binop", format!("`{op}`: operands {l:?}, {r:?}, result {ty:?}"));
                } else if !(is_numeric(l) || (op == "+" && *l == Ty::TString) || open(l)) {
                    st.err("binop-operand-class", format!("`{op}` on non-numeric operands of type {l:?}"));
                }
            }
            "&&" | "||" => {
                if *l != Ty::TBool || *r != Ty::TBool || *ty != Ty::TBool {
                    st.err("binop", format!("`{op}`: operands {l:?}, {r:?}, result {ty:?}"));
                }
            }
            "<" | ">" | "<=" | ">=" => {
                if !teq(l, r) || *ty != Ty::TBool {
                    st.err("binop", format!("`{op}`: operands {l:?}, {r:?}, result {ty:?}"));
                } else if !(is_numeric(l) || *l == Ty::TString || open(l)) {
                    st.err("binop-operand-class", format!("`{op}` on unordered operands of type {l:?}"));
                }
            }
            "==" | "!=" => {
                if !teq(l, r) || *ty != Ty::TBool {
                    st.err("binop", format!("`{op}`: operands {l:?}, {r:?}, result {ty:?}"));
                }
            }
            _ => st.skip(),
        }
    }

    /// `EToDyn`
    pub(crate) fn check_to_dyn(&self, st: &mut State<'a>, trait_name: &str, for_ty: &'a Ty, expr: &'a Ty, ty: &'a Ty) {
        self.check_annot(st, ty, "dyn conversion");
        self.check_annot(st, for_ty, "dyn conversion source");
        if !matches!(ty, Ty::TDyn { trait_name: t } if t == trait_name) {
            st.err("todyn", format!("conversion to dyn {trait_name} annotated {ty:?}"));
        }
        if !teq(for_ty, expr) {
            st.err("todyn", format!("conversion to dyn {trait_name} from {for_ty:?} applied to a value of type {expr:?}"));
        }
        let Some(def) = self.genv.trait_env.trait_defs.get(trait_name) else {
            st.err("todyn", format!("trait `{trait_name}` is not defined"));
            return;
        };
        if self.stage.post_mono() {
            // the backend builds the vtable from `trait_impl#<trait>#<ty>#<method>`
            let ident = compiler::tast::TastIdent(trait_name.to_string());
            for m in def.methods.keys() {
                let n = compiler::names::trait_impl_fn_name(&ident, for_ty, m);
                if !self.fns.contains_key(n.as_str()) {
                    st.err("todyn-impl", format!("vtable of dyn {trait_name} for {for_ty:?} needs `{n}`, which is not defined"));
                }
            }
        }
    }

    /// `EDynCall`
    pub(crate) fn check_dyn_call(
        &self,
        st: &mut State<'a>,
        trait_name: &str,
        method: &str,
        receiver: &'a Ty,
        args: &[&'a Ty],
        ty: &'a Ty,
    ) {
        self.check_annot(st, ty, "dyn call");
        if !matches!(receiver, Ty::TDyn { trait_name: t } if t == trait_name) {
            st.err("dyncall", format!("dyn call {trait_name}::{method} on receiver of type {receiver:?}"));
        }
        let Some(sig) = self.genv.trait_env.trait_defs.get(trait_name).and_then(|d| d.methods.get(method)) else {
            st.err("dyncall", format!("trait method {trait_name}::{method} is not defined"));
            return;
        };
        let Ty::TFunc { params, ret_ty } = &sig.ty else {
            st.skip();
            return;
        };
        if params.len() != args.len() + 1 {
            st.err("dyncall", format!("{trait_name}::{method} takes {} arguments after the receiver, {} given", params.len().saturating_sub(1), args.len()));
            return;
        }
        for (i, (p, a)) in params.iter().skip(1).zip(args).enumerate() {
            if mentions_self(p) {
                st.skip();
            } else if !teq(p, a) {
                st.err("dyncall", format!("{trait_name}::{method} argument {i}: declared {p:?}, got {a:?}"));
            }
        }
        if mentions_self(ret_ty) {
            st.skip();
        } else if !teq(ret_ty, ty) {
            st.err("dyncall", format!("{trait_name}::{method} returns {ret_ty:?}, call node has {ty:?}"));
        }
    }

    /// function-level checks common to all stages; returns false if the body should not be checked
    pub(crate) fn check_fn_header(&self, st: &mut State<'a>, name: &'a str, params: &'a [(String, Ty)], ret: &'a Ty) {
        for (i, (p, t)) in params.iter().enumerate() {
            self.check_annot(st, t, "parameter");
            if params[..i].iter().any(|(q, _)| q == p) {
                st.err("dup-param", format!("parameter `{p}` declared twice"));
            }
        }
        self.check_annot(st, ret, "return type");
        if self.stage.post_lift() {
            self.check_lifted_header(st, name, params, ret);
        }
    }

    /// a lifted closure body `inherent#closure_env_X#closure_env_X#apply`
    fn check_lifted_header(&self, st: &mut State<'a>, name: &'a str, params: &'a [(String, Ty)], ret: &'a Ty) {
        // recognised by name (that is how the backend finds the body of a closure)
        let mut it = name.split('#');
        let (Some("inherent"), Some(env), Some(env2), Some("apply"), None) = (it.next(), it.next(), it.next(), it.next(), it.next()) else {
            return;
        };
        if env != env2 || !Env::is_closure_env(env) {
            return;
        }
        if !matches!(params.first(), Some((_, Ty::TStruct { name: n })) if n == env) {
            st.err("closure-env", format!("lifted function does not take its environment `{env}` as first parameter"));
            return;
        }
        if !self.structs.contains_key(env) {
            st.err("closure-env", format!("environment struct `{env}` of lifted function is not defined"));
        }
        match self.apply_impls.get(env) {
            None => st.err("closure-env", format!("no `apply` method registered for `{env}`")),
            Some(Ty::TFunc { params: ps, ret_ty }) => {
                let same = ps.len() == params.len() && ps.iter().zip(params).all(|(a, (_, b))| teq(a, b)) && teq(ret_ty, ret);
                if !same {
                    st.err("closure-env", format!("`apply` of `{env}` is registered as {:?} but defined with parameters {:?} -> {ret:?}", self.apply_impls.get(env), params.iter().map(|(_, t)| t).collect::<Vec<_>>()));
                }
            }
            Some(other) => st.err("closure-env", format!("`apply` of `{env}` registered with non-function type {other:?}")),
        }
    }

    /// construction of a closure environment (Lift / ANF)
    pub(crate) fn check_closure_construction(&self, st: &mut State<'a>, c: &Constructor, all_args_are_vars: bool) {
        if !self.stage.post_lift() {
            return;
        }
        let Constructor::Struct(sc) = c else { return };
        let env = sc.type_name.0.as_str();
        if !Env::is_closure_env(env) {
            return;
        }
        if !all_args_are_vars {
            st.err("closure-env", format!("environment `{env}` is built from something other than captured variables"));
        }
        let apply = Env::apply_fn_name(env);
        match self.fns.get(apply.as_str()) {
            None => st.err("closure-env", format!("closure `{env}` has no lifted body `{apply}`")),
            Some(info) => {
                if !matches!(info.params.first(), Some(Ty::TStruct { name }) if name == env) {
                    st.err("closure-env", format!("lifted body `{apply}` does not take the environment `{env}` as first parameter"));
                }
            }
        }
    }

    /// `go <closure>` after closure conversion
    pub(crate) fn check_go_lifted(&self, st: &mut State<'a>, closure: &'a Ty) {
        match closure {
            Ty::TStruct { name } if Env::is_closure_env(name) => {
                let apply = Env::apply_fn_name(name);
                match self.fns.get(apply.as_str()) {
                    Some(info) if info.params.len() == 1 => {}
                    Some(info) => st.err("go-expr", format!("`go` on closure `{name}` whose body takes {} extra parameters", info.params.len().saturating_sub(1))),
                    None => st.err("go-expr", format!("`go` on closure `{name}` without lifted body")),
                }
            }
            other => st.err("go-expr", format!("`go` applied to a value of type {other:?}, expected a closure environment")),
        }
    }
}
