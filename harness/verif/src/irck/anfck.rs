//! Checker for the A-normal form.  Immediates are variables / constants /
//! constructor tags by construction of the Rust types; what is checked here is
//! that every immediate variable is defined before use (scoping), that the
//! types of the immediates fit the operation they are used in, and everything
//! the tree checkers verify for the corresponding node kinds.

use super::{decompose, teq, Env, State};
use compiler::anf::{AExpr, Arm, CExpr, File, ImmExpr};
use compiler::tast::Ty;

pub(crate) fn check_file<'a>(env: &Env<'a>, st: &mut State<'a>, f: &'a File) {
    st.stage = env.stage.name();
    let mut dups: Vec<(&str, u32)> = env.fns.iter().filter(|(_, i)| i.count > 1).map(|(n, i)| (*n, i.count)).collect();
    dups.sort();
    for (n, c) in dups {
        st.cur_fn = "";
        st.err("dup-fn", format!("function `{n}` is defined {c} times"));
    }
    for t in &f.toplevels {
        st.cur_fn = &t.name;
        st.scope.clear();
        env.check_fn_header(st, &t.name, &t.params, &t.ret_ty);
        for (n, ty) in &t.params {
            st.scope.push((n, ty));
        }
        let bt = aexpr(env, st, &t.body);
        if !teq(bt, &t.ret_ty) {
            st.err("ret-type", format!("declared to return {:?}, body has type {bt:?}", t.ret_ty));
        }
        st.scope.clear();
    }
}

fn imm_ty(i: &ImmExpr) -> &Ty {
    match i {
        ImmExpr::ImmVar { ty, .. } | ImmExpr::ImmPrim { ty, .. } | ImmExpr::ImmTag { ty, .. } => ty,
    }
}

/// an immediate in value position
fn imm<'a>(env: &Env<'a>, st: &mut State<'a>, i: &'a ImmExpr, as_callee: bool) -> &'a Ty {
    st.stats.nodes_checked += 1;
    match i {
        ImmExpr::ImmVar { name, ty } => {
            env.check_var(st, name, ty, as_callee);
            ty
        }
        ImmExpr::ImmPrim { value, ty } => {
            env.check_prim(st, value, ty);
            ty
        }
        ImmExpr::ImmTag { index, ty } => {
            env.check_annot(st, ty, "tag");
            tag(env, st, *index, ty, true);
            ty
        }
    }
}

/// constructor tag `index` of enum type `ty`; as a value it denotes a nullary constructor
fn tag<'a>(env: &Env<'a>, st: &mut State<'a>, index: usize, ty: &'a Ty, value: bool) {
    let Some((name, _, true)) = decompose(ty) else {
        st.err("tag-value", format!("constructor tag {index} at non-enum type {ty:?}"));
        return;
    };
    let Some(def) = env.enums.get(name) else {
        st.err("constr-unknown-type", format!("enum `{name}` has no definition at this stage"));
        return;
    };
    match def.variants.get(index) {
        None => st.err("tag-value", format!("enum `{name}` has {} variants, tag {index}", def.variants.len())),
        Some((v, fields)) => {
            if value && !fields.is_empty() {
                st.err("tag-value", format!("tag of `{}` (which has {} fields) used as a value of `{name}`", v.0, fields.len()));
            }
        }
    }
}

fn imms<'a>(env: &Env<'a>, st: &mut State<'a>, is: &'a [ImmExpr]) -> Vec<&'a Ty> {
    is.iter().map(|i| imm(env, st, i, false)).collect()
}

fn aexpr<'a>(env: &Env<'a>, st: &mut State<'a>, e: &'a AExpr) -> &'a Ty {
    let base = st.scope.len();
    let mut cur = e;
    let t = loop {
        match cur {
            AExpr::ALet { name, value, body, ty } => {
                st.stats.nodes_checked += 1;
                // `ty` is the type the let had before the continuation was
                // pushed into its body; no consumer reads it, only residue is checked
                env.check_annot(st, ty, "let");
                let tv = cexpr(env, st, value);
                st.scope.push((name, tv));
                cur = body;
            }
            AExpr::ACExpr { expr } => break cexpr(env, st, expr),
        }
    };
    st.scope.truncate(base);
    t
}

fn arm_head<'a>(env: &Env<'a>, st: &mut State<'a>, arm: &'a Arm, scrut: &'a Ty) {
    st.stats.nodes_checked += 1;
    match &arm.lhs {
        ImmExpr::ImmPrim { value, ty } => {
            env.check_prim(st, value, ty);
            if !teq(ty, scrut) {
                st.err("match-arm-head", format!("literal {value} of type {ty:?} against a scrutinee of type {scrut:?}"));
            }
        }
        ImmExpr::ImmTag { index, ty } => {
            env.check_annot(st, ty, "pattern");
            if !teq(ty, scrut) {
                st.err("match-arm-head", format!("constructor tag {index} of type {ty:?} against a scrutinee of type {scrut:?}"));
            } else {
                tag(env, st, *index, ty, false);
            }
        }
        ImmExpr::ImmVar { .. } => st.skip(),
    }
}

fn cexpr<'a>(env: &Env<'a>, st: &mut State<'a>, e: &'a CExpr) -> &'a Ty {
    st.stats.nodes_checked += 1;
    match e {
        CExpr::CImm { imm: i } => {
            st.stats.nodes_checked -= 1;
            imm(env, st, i, false)
        }
        CExpr::EConstr { constructor, args, ty } => {
            let all_vars = args.iter().all(|a| matches!(a, ImmExpr::ImmVar { .. }));
            let ts = imms(env, st, args);
            env.check_constr(st, constructor, &ts, ty);
            env.check_closure_construction(st, constructor, all_vars);
            ty
        }
        CExpr::ETuple { items, ty } => {
            let ts = imms(env, st, items);
            env.check_tuple(st, &ts, ty);
            ty
        }
        CExpr::EArray { items, ty } => {
            let ts = imms(env, st, items);
            env.check_array(st, &ts, ty);
            ty
        }
        CExpr::EMatch { expr, arms, default, ty } => {
            env.check_annot(st, ty, "match");
            let ts = imm(env, st, expr, false);
            for arm in arms {
                arm_head(env, st, arm, ts);
                let tb = aexpr(env, st, &arm.body);
                if !teq(tb, ty) {
                    st.err("match-arm-type", format!("match of type {ty:?} has an arm of type {tb:?}"));
                }
            }
            if let Some(d) = default {
                let tb = aexpr(env, st, d);
                if !teq(tb, ty) {
                    st.err("match-arm-type", format!("match of type {ty:?} has a default arm of type {tb:?}"));
                }
            }
            ty
        }
        CExpr::EIf { cond, then, else_, ty } => {
            env.check_annot(st, ty, "if");
            let tc = imm(env, st, cond, false);
            if *tc != Ty::TBool {
                st.err("if-cond", format!("condition has type {tc:?}"));
            }
            let tt = aexpr(env, st, then);
            let te = aexpr(env, st, else_);
            if !teq(tt, ty) || !teq(te, ty) {
                st.err("if-branches", format!("if of type {ty:?} has branches of type {tt:?} and {te:?}"));
            }
            ty
        }
        CExpr::EWhile { cond, body, ty } => {
            let tc = aexpr(env, st, cond);
            if *tc != Ty::TBool {
                st.err("while-cond", format!("condition has type {tc:?}"));
            }
            aexpr(env, st, body);
            if *ty != Ty::TUnit {
                st.err("while-type", format!("while loop annotated {ty:?}"));
            }
            ty
        }
        CExpr::EConstrGet { expr, constructor, field_index, ty } => {
            let te = imm(env, st, expr, false);
            env.check_constr_get(st, constructor, *field_index, te, ty);
            ty
        }
        CExpr::EUnary { op, expr, ty } => {
            let te = imm(env, st, expr, false);
            env.check_unary(st, op.symbol(), te, ty);
            ty
        }
        CExpr::EBinary { op, lhs, rhs, ty } => {
            let tl = imm(env, st, lhs, false);
            let tr = imm(env, st, rhs, false);
            env.check_binary(st, op.symbol(), tl, tr, ty);
            ty
        }
        CExpr::ECall { func, args, ty } => {
            env.check_annot(st, ty, "call");
            let tf = imm(env, st, func, true);
            let name = match func {
                ImmExpr::ImmVar { name, .. } => Some(name.as_str()),
                _ => None,
            };
            let ts = imms(env, st, args);
            env.check_call(st, name, tf, &ts, ty);
            ty
        }
        CExpr::EToDyn { trait_name, for_ty, expr, ty } => {
            let te = imm(env, st, expr, false);
            env.check_to_dyn(st, &trait_name.0, for_ty, te, ty);
            ty
        }
        CExpr::EDynCall { trait_name, method_name, receiver, args, ty } => {
            let tr = imm(env, st, receiver, false);
            let ts = imms(env, st, args);
            env.check_dyn_call(st, &trait_name.0, &method_name.0, tr, &ts, ty);
            ty
        }
        CExpr::EGo { closure, ty } => {
            let tc = imm(env, st, closure, false);
            if *ty != Ty::TUnit {
                st.err("go-type", format!("go statement annotated {ty:?}"));
            }
            env.check_go_lifted(st, tc);
            ty
        }
        CExpr::EProj { tuple, index, ty } => {
            let tt = imm(env, st, tuple, false);
            env.check_proj(st, tt, *index, ty);
            ty
        }
    }
}

#[allow(dead_code)]
pub(crate) fn imm_type(i: &ImmExpr) -> &Ty {
    imm_ty(i)
}
