//! Checker for the three tree-shaped IRs (Core, Mono, Lift).  The IRs have the
//! same node kinds (Core additionally has trait calls, Lift has no closures),
//! so one walker works on a borrowed view of a node.

use super::{decompose, teq, tparams_of, Env, Stage, State};
use compiler::common::{Constructor, Prim};
use compiler::tast::{ClosureParam, Ty};

pub(crate) enum V<'a, E> {
    Var { name: &'a str, ty: &'a Ty },
    Prim { value: &'a Prim, ty: &'a Ty },
    Constr { c: &'a Constructor, args: &'a [E], ty: &'a Ty },
    Tuple { items: &'a [E], ty: &'a Ty },
    Array { items: &'a [E], ty: &'a Ty },
    Closure { params: &'a [ClosureParam], body: &'a E, ty: &'a Ty },
    Let { name: &'a str, value: &'a E, body: &'a E, ty: &'a Ty },
    Match { expr: &'a E, arms: Vec<(&'a E, &'a E)>, default: Option<&'a E>, ty: &'a Ty },
    If { cond: &'a E, then_b: &'a E, else_b: &'a E, ty: &'a Ty },
    While { cond: &'a E, body: &'a E, ty: &'a Ty },
    Go { expr: &'a E, ty: &'a Ty },
    ConstrGet { expr: &'a E, c: &'a Constructor, index: usize, ty: &'a Ty },
    Unary { op: &'static str, expr: &'a E, ty: &'a Ty },
    Binary { op: &'static str, lhs: &'a E, rhs: &'a E, ty: &'a Ty },
    Call { func: &'a E, args: &'a [E], ty: &'a Ty },
    ToDyn { trait_name: &'a str, for_ty: &'a Ty, expr: &'a E, ty: &'a Ty },
    DynCall { trait_name: &'a str, method: &'a str, receiver: &'a E, args: &'a [E], ty: &'a Ty },
    TraitCall { trait_name: &'a str, method: &'a str, receiver: &'a E, args: &'a [E], ty: &'a Ty },
    Proj { tuple: &'a E, index: usize, ty: &'a Ty },
}

pub(crate) trait Ir: Sized {
    fn view(&self) -> V<'_, Self>;
}

macro_rules! impl_view {
    ($E:path, [$($extra:tt)*]) => {
        impl Ir for $E {
            fn view(&self) -> V<'_, Self> {
                use $E as X;
                match self {
                    X::EVar { name, ty } => V::Var { name, ty },
                    X::EPrim { value, ty } => V::Prim { value, ty },
                    X::EConstr { constructor, args, ty } => V::Constr { c: constructor, args, ty },
                    X::ETuple { items, ty } => V::Tuple { items, ty },
                    X::EArray { items, ty } => V::Array { items, ty },
                    X::ELet { name, value, body, ty } => V::Let { name, value, body, ty },
                    X::EMatch { expr, arms, default, ty } => V::Match {
                        expr,
                        arms: arms.iter().map(|a| (&a.lhs, &a.body)).collect(),
                        default: default.as_deref(),
                        ty,
                    },
                    X::EIf { cond, then_branch, else_branch, ty } => {
                        V::If { cond, then_b: then_branch, else_b: else_branch, ty }
                    }
                    X::EWhile { cond, body, ty } => V::While { cond, body, ty },
                    X::EGo { expr, ty } => V::Go { expr, ty },
                    X::EConstrGet { expr, constructor, field_index, ty } => {
                        V::ConstrGet { expr, c: constructor, index: *field_index, ty }
                    }
                    X::EUnary { op, expr, ty } => V::Unary { op: op.symbol(), expr, ty },
                    X::EBinary { op, lhs, rhs, ty } => V::Binary { op: op.symbol(), lhs, rhs, ty },
                    X::ECall { func, args, ty } => V::Call { func, args, ty },
                    X::EToDyn { trait_name, for_ty, expr, ty } => {
                        V::ToDyn { trait_name: &trait_name.0, for_ty, expr, ty }
                    }
                    X::EDynCall { trait_name, method_name, receiver, args, ty } => V::DynCall {
                        trait_name: &trait_name.0,
                        method: &method_name.0,
                        receiver,
                        args,
                        ty,
                    },
                    X::EProj { tuple, index, ty } => V::Proj { tuple, index: *index, ty },
                    $($extra)*
                }
            }
        }
    };
}

impl_view!(compiler::core::Expr, [
    X::EClosure { params, body, ty } => V::Closure { params, body, ty },
    X::ETraitCall { trait_name, method_name, receiver, args, ty } => V::TraitCall {
        trait_name: &trait_name.0,
        method: &method_name.0,
        receiver,
        args,
        ty,
    },
]);
impl_view!(compiler::mono::MonoExpr, [
    X::EClosure { params, body, ty } => V::Closure { params, body, ty },
]);
impl_view!(compiler::lift::LiftExpr, []);

pub(crate) struct FnView<'a, E> {
    pub name: &'a String,
    pub generics: &'a Vec<String>,
    pub params: &'a Vec<(String, Ty)>,
    pub ret_ty: &'a Ty,
    pub body: &'a E,
}

pub(crate) fn check_file<'a, E: Ir + 'a>(
    env: &Env<'a>,
    st: &mut State<'a>,
    fns: impl Iterator<Item = FnView<'a, E>>,
) {
    st.stage = env.stage.name();
    // file-level: unique function names
    let mut dups: Vec<(&str, u32)> = env.fns.iter().filter(|(_, i)| i.count > 1).map(|(n, i)| (*n, i.count)).collect();
    dups.sort();
    for (n, c) in dups {
        st.cur_fn = "";
        st.err("dup-fn", format!("function `{n}` is defined {c} times"));
    }
    for f in fns {
        st.cur_fn = f.name;
        st.scope.clear();
        env.check_fn_header(st, f.name, f.params, f.ret_ty);
        let mut w = Walker { env, tparams: Vec::new() };
        if env.stage == Stage::Core {
            for g in f.generics {
                w.tparams.push(g);
            }
            for (_, t) in f.params {
                tparams_of(t, &mut w.tparams);
            }
            tparams_of(f.ret_ty, &mut w.tparams);
        }
        for (n, t) in f.params {
            st.scope.push((n, t));
        }
        let bt = w.expr(st, f.body);
        if !teq(bt, f.ret_ty) {
            st.err("ret-type", format!("declared to return {:?}, body has type {bt:?}", f.ret_ty));
        }
        st.scope.clear();
    }
}

struct Walker<'e, 'a> {
    env: &'e Env<'a>,
    /// Core: type parameters of the enclosing function
    tparams: Vec<&'a str>,
}

impl<'e, 'a> Walker<'e, 'a> {
    /// every annotation: no residue after mono; in Core only the enclosing
    /// function's own type parameters may occur
    fn annot(&self, st: &mut State<'a>, t: &'a Ty, what: &str) {
        self.tparam_scope(st, t, what);
        self.env.check_annot(st, t, what);
    }

    fn tparam_scope(&self, st: &mut State<'a>, t: &'a Ty, what: &str) {
        if self.env.stage == Stage::Core {
            let mut ps = Vec::new();
            tparams_of(t, &mut ps);
            for p in ps {
                if !self.tparams.contains(&p) {
                    st.err("tparam-scope", format!("{what}: type {t:?} mentions `{p}`, not a type parameter of the function"));
                }
            }
        }
    }

    /// checks `e` and returns its type
    fn expr<E: Ir>(&mut self, st: &mut State<'a>, e: &'a E) -> &'a Ty {
        let base = st.scope.len();
        // (annotation, type of the bound value) of every let of the chain
        let mut lets: Vec<(&'a Ty, &'a Ty)> = Vec::new();
        let mut cur = e;
        // let chains are walked iteratively (they are as long as a function body)
        let t = loop {
            st.stats.nodes_checked += 1;
            match cur.view() {
                V::Let { name, value, body, ty } => {
                    self.annot(st, ty, "let");
                    let tv = self.expr(st, value);
                    st.scope.push((name, tv));
                    lets.push((ty, tv));
                    cur = body;
                }
                other => break self.node(st, other),
            }
        };
        // The binder of a let carries no annotation of its own (uses are
        // checked against the type of the bound value).  The annotation of the
        // let *node*: lift recomputes it from the body; the match compiler
        // (Core, inherited by Mono) writes either the type of the body or the
        // type of the bound variable, depending on which construct the let
        // was generated for, so only that disjunction can be required there.
        for (lt, tv) in lets {
            let ok = teq(lt, t) || (self.env.stage != Stage::Lift && teq(lt, tv));
            if !ok {
                st.err("let-type", format!("let annotated {lt:?}; bound value has type {tv:?}, body has type {t:?}"));
                break;
            }
        }
        st.scope.truncate(base);
        t
    }

    fn exprs<E: Ir>(&mut self, st: &mut State<'a>, es: &'a [E]) -> Vec<&'a Ty> {
        es.iter().map(|e| self.expr(st, e)).collect()
    }

    fn node<E: Ir>(&mut self, st: &mut State<'a>, v: V<'a, E>) -> &'a Ty {
        let env = self.env;
        match v {
            // lets are consumed by `expr`; kept total for robustness
            V::Let { body, .. } => self.expr(st, body),
            V::Var { name, ty } => {
                self.tparam_scope(st, ty, "variable");
                env.check_var(st, name, ty, false);
                ty
            }
            V::Prim { value, ty } => {
                env.check_prim(st, value, ty);
                ty
            }
            V::Constr { c, args, ty } => {
                self.annot(st, ty, "constructor");
                let all_vars = args.iter().all(|a| matches!(a.view(), V::Var { .. }));
                let ts = self.exprs(st, args);
                env.check_constr(st, c, &ts, ty);
                env.check_closure_construction(st, c, all_vars);
                ty
            }
            V::Tuple { items, ty } => {
                self.annot(st, ty, "tuple");
                let ts = self.exprs(st, items);
                env.check_tuple(st, &ts, ty);
                ty
            }
            V::Array { items, ty } => {
                self.annot(st, ty, "array");
                let ts = self.exprs(st, items);
                env.check_array(st, &ts, ty);
                ty
            }
            V::Closure { params, body, ty } => {
                self.annot(st, ty, "closure");
                let base = st.scope.len();
                for p in params {
                    self.annot(st, &p.ty, "closure parameter");
                    st.scope.push((&p.name, &p.ty));
                }
                let tb = self.expr(st, body);
                st.scope.truncate(base);
                match ty {
                    Ty::TFunc { params: ps, ret_ty } => {
                        if ps.len() != params.len() || ps.iter().zip(params).any(|(a, p)| !teq(a, &p.ty)) {
                            st.err("closure-type", format!("closure with parameters {:?} annotated {ty:?}", params.iter().map(|p| &p.ty).collect::<Vec<_>>()));
                        }
                        if !teq(ret_ty, tb) {
                            st.err("closure-ret", format!("closure annotated {ty:?} but its body has type {tb:?}"));
                        }
                    }
                    _ => st.err("closure-type", format!("closure annotated with non-function type {ty:?}")),
                }
                ty
            }
            V::Match { expr, arms, default, ty } => {
                self.annot(st, ty, "match");
                let ts = self.expr(st, expr);
                for (lhs, body) in arms {
                    let base = st.scope.len();
                    self.arm_head(st, lhs, ts);
                    let tb = self.expr(st, body);
                    st.scope.truncate(base);
                    if !teq(tb, ty) {
                        st.err("match-arm-type", format!("match of type {ty:?} has an arm of type {tb:?}"));
                    }
                }
                if let Some(d) = default {
                    let tb = self.expr(st, d);
                    if !teq(tb, ty) {
                        st.err("match-arm-type", format!("match of type {ty:?} has a default arm of type {tb:?}"));
                    }
                }
                ty
            }
            V::If { cond, then_b, else_b, ty } => {
                self.annot(st, ty, "if");
                let tc = self.expr(st, cond);
                if *tc != Ty::TBool {
                    st.err("if-cond", format!("condition has type {tc:?}"));
                }
                let tt = self.expr(st, then_b);
                let te = self.expr(st, else_b);
                if !teq(tt, ty) || !teq(te, ty) {
                    st.err("if-branches", format!("if of type {ty:?} has branches of type {tt:?} and {te:?}"));
                }
                ty
            }
            V::While { cond, body, ty } => {
                let tc = self.expr(st, cond);
                if *tc != Ty::TBool {
                    st.err("while-cond", format!("condition has type {tc:?}"));
                }
                self.expr(st, body);
                if *ty != Ty::TUnit {
                    st.err("while-type", format!("while loop annotated {ty:?}"));
                }
                ty
            }
            V::Go { expr, ty } => {
                let te = self.expr(st, expr);
                if *ty != Ty::TUnit {
                    st.err("go-type", format!("go statement annotated {ty:?}"));
                }
                if env.stage.post_lift() {
                    env.check_go_lifted(st, te);
                } else if !matches!(te, Ty::TFunc { params, .. } if params.is_empty()) {
                    st.err("go-expr", format!("`go` applied to a value of type {te:?}, expected a nullary function"));
                }
                ty
            }
            V::ConstrGet { expr, c, index, ty } => {
                self.annot(st, ty, "field access");
                let te = self.expr(st, expr);
                env.check_constr_get(st, c, index, te, ty);
                ty
            }
            V::Unary { op, expr, ty } => {
                self.annot(st, ty, "unary operator");
                let te = self.expr(st, expr);
                env.check_unary(st, op, te, ty);
                ty
            }
            V::Binary { op, lhs, rhs, ty } => {
                self.annot(st, ty, "binary operator");
                let tl = self.expr(st, lhs);
                let tr = self.expr(st, rhs);
                env.check_binary(st, op, tl, tr, ty);
                ty
            }
            V::Call { func, args, ty } => {
                self.annot(st, ty, "call");
                let (callee_name, tf) = match func.view() {
                    V::Var { name, ty: fty } => {
                        st.stats.nodes_checked += 1;
                        self.tparam_scope(st, fty, "callee");
                        env.check_var(st, name, fty, true);
                        (Some(name), fty)
                    }
                    _ => (None, self.expr(st, func)),
                };
                let ts = self.exprs(st, args);
                env.check_call(st, callee_name, tf, &ts, ty);
                ty
            }
            V::ToDyn { trait_name, for_ty, expr, ty } => {
                self.annot(st, ty, "dyn conversion");
                self.annot(st, for_ty, "dyn conversion source");
                let te = self.expr(st, expr);
                env.check_to_dyn(st, trait_name, for_ty, te, ty);
                ty
            }
            V::DynCall { trait_name, method, receiver, args, ty } => {
                self.annot(st, ty, "dyn call");
                let tr = self.expr(st, receiver);
                let ts = self.exprs(st, args);
                env.check_dyn_call(st, trait_name, method, tr, &ts, ty);
                ty
            }
            V::TraitCall { trait_name, method, receiver, args, ty } => {
                // Core only: a trait method on a receiver whose type is still a
                // type parameter; resolved by mono once the receiver is known
                self.annot(st, ty, "trait call");
                let tr = self.expr(st, receiver);
                let ts = self.exprs(st, args);
                let mut ps = Vec::new();
                tparams_of(tr, &mut ps);
                if ps.is_empty() {
                    st.err("traitcall", format!("unresolved trait call {trait_name}::{method} on concrete receiver type {tr:?}"));
                }
                match env.genv.trait_env.trait_defs.get(trait_name).and_then(|d| d.methods.get(method)) {
                    None => st.err("traitcall", format!("trait method {trait_name}::{method} is not defined")),
                    Some(s) => match &s.ty {
                        Ty::TFunc { params, .. } => {
                            if params.len() != ts.len() + 1 {
                                st.err("traitcall", format!("{trait_name}::{method} takes {} arguments after the receiver, {} given", params.len().saturating_sub(1), ts.len()));
                            } else {
                                // argument / result types involve Self: not checked
                                st.skip();
                            }
                        }
                        _ => st.skip(),
                    },
                }
                ty
            }
            V::Proj { tuple, index, ty } => {
                self.annot(st, ty, "projection");
                let tt = self.expr(st, tuple);
                env.check_proj(st, tt, index, ty);
                ty
            }
        }
    }

    /// head of a match arm against the scrutinee type
    fn arm_head<E: Ir>(&mut self, st: &mut State<'a>, lhs: &'a E, scrut: &'a Ty) {
        st.stats.nodes_checked += 1;
        match lhs.view() {
            V::Prim { value, ty } => {
                self.env.check_prim(st, value, ty);
                if !teq(ty, scrut) {
                    st.err("match-arm-head", format!("literal {value} of type {ty:?} against a scrutinee of type {scrut:?}"));
                }
            }
            V::Constr { c, args, ty } => {
                self.annot(st, ty, "pattern");
                if !teq(ty, scrut) {
                    st.err("match-arm-head", format!("constructor pattern `{}` of type {ty:?} against a scrutinee of type {scrut:?}", c.name().0));
                    return;
                }
                if !matches!(decompose(scrut), Some((_, _, true))) || c.is_struct() {
                    st.err("match-arm-head", format!("constructor pattern `{}` against non-enum type {scrut:?}", c.name().0));
                    return;
                }
                // the sub-patterns are fresh variables carrying the field types.
                // They are NOT binders: the match compiler re-binds every one of
                // them in the arm body (`let x0 = C.0(scrutinee) in ..`) and ANF
                // drops the pattern arguments, keeping only the constructor tag.
                let mut ts = Vec::with_capacity(args.len());
                for a in args {
                    match a.view() {
                        V::Var { ty, .. } => {
                            self.annot(st, ty, "pattern variable");
                            ts.push(ty);
                        }
                        _ => {
                            // not produced by the match compiler
                            st.skip();
                            return;
                        }
                    }
                }
                self.env.check_constr(st, c, &ts, ty);
            }
            _ => st.skip(),
        }
    }
}
