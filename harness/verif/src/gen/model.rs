//! The typed program model `GProg` (generator output, input of the renderer
//! and of the reference interpreter).

use std::collections::BTreeSet;

pub type VarId = u32;

#[derive(Clone, Copy, PartialEq, Eq, Hash, Debug, PartialOrd, Ord)]
pub enum IK {
    I8,
    I16,
    I32,
    I64,
    U8,
    U16,
    U32,
    U64,
}

pub const ALL_IK: [IK; 8] = [IK::I32, IK::I8, IK::I16, IK::I64, IK::U8, IK::U16, IK::U32, IK::U64];

impl IK {
    pub fn bits(self) -> u32 {
        match self {
            IK::I8 | IK::U8 => 8,
            IK::I16 | IK::U16 => 16,
            IK::I32 | IK::U32 => 32,
            IK::I64 | IK::U64 => 64,
        }
    }
    pub fn signed(self) -> bool {
        matches!(self, IK::I8 | IK::I16 | IK::I32 | IK::I64)
    }
    pub fn name(self) -> &'static str {
        match self {
            IK::I8 => "int8",
            IK::I16 => "int16",
            IK::I32 => "int32",
            IK::I64 => "int64",
            IK::U8 => "uint8",
            IK::U16 => "uint16",
            IK::U32 => "uint32",
            IK::U64 => "uint64",
        }
    }
    pub fn suffix(self) -> &'static str {
        match self {
            IK::I8 => "i8",
            IK::I16 => "i16",
            IK::I32 => "i32",
            IK::I64 => "i64",
            IK::U8 => "u8",
            IK::U16 => "u16",
            IK::U32 => "u32",
            IK::U64 => "u64",
        }
    }
    pub fn min(self) -> i128 {
        if self.signed() {
            -(1i128 << (self.bits() - 1))
        } else {
            0
        }
    }
    pub fn max(self) -> i128 {
        if self.signed() {
            (1i128 << (self.bits() - 1)) - 1
        } else {
            (1i128 << self.bits()) - 1
        }
    }
    /// wrap an exact integer into this width (reference semantics: modulo 2^N)
    pub fn wrap(self, v: i128) -> i128 {
        let m = 1i128 << self.bits();
        let mut r = v.rem_euclid(m);
        if self.signed() && r >= (m >> 1) {
            r -= m;
        }
        r
    }
}

#[derive(Clone, PartialEq, Eq, Hash, Debug, PartialOrd, Ord)]
pub enum Ty {
    Unit,
    Bool,
    Int(IK),
    /// float32 (true) / float64 (false): values are small dyadic rationals, so + - * are exact
    Float(bool),
    Str,
    Tuple(Vec<Ty>),
    Array(Box<Ty>, u32),
    Vec(Box<Ty>),
    Ref(Box<Ty>),
    Fn(Vec<Ty>, Box<Ty>),
    Adt(usize, Vec<Ty>),
    Param(u32),
    /// trait object `dyn Tr` (index into `GProg::traits`)
    Dyn(usize),
}

impl Ty {
    pub fn i32() -> Ty {
        Ty::Int(IK::I32)
    }
    pub fn has_param(&self) -> bool {
        match self {
            Ty::Param(_) => true,
            Ty::Tuple(ts) => ts.iter().any(|t| t.has_param()),
            Ty::Array(t, _) | Ty::Vec(t) | Ty::Ref(t) => t.has_param(),
            Ty::Fn(ps, r) => ps.iter().any(|t| t.has_param()) || r.has_param(),
            Ty::Adt(_, a) => a.iter().any(|t| t.has_param()),
            _ => false,
        }
    }
    pub fn has_fn(&self) -> bool {
        match self {
            Ty::Fn(..) => true,
            Ty::Tuple(ts) => ts.iter().any(|t| t.has_fn()),
            Ty::Array(t, _) | Ty::Vec(t) | Ty::Ref(t) => t.has_fn(),
            Ty::Adt(_, a) => a.iter().any(|t| t.has_fn()),
            _ => false,
        }
    }
    pub fn subst(&self, args: &[Ty]) -> Ty {
        match self {
            Ty::Param(i) => args.get(*i as usize).cloned().unwrap_or(Ty::Unit),
            Ty::Tuple(ts) => Ty::Tuple(ts.iter().map(|t| t.subst(args)).collect()),
            Ty::Array(t, n) => Ty::Array(Box::new(t.subst(args)), *n),
            Ty::Vec(t) => Ty::Vec(Box::new(t.subst(args))),
            Ty::Ref(t) => Ty::Ref(Box::new(t.subst(args))),
            Ty::Fn(ps, r) => Ty::Fn(ps.iter().map(|t| t.subst(args)).collect(), Box::new(r.subst(args))),
            Ty::Adt(i, a) => Ty::Adt(*i, a.iter().map(|t| t.subst(args)).collect()),
            other => other.clone(),
        }
    }
    pub fn depth(&self) -> u32 {
        match self {
            Ty::Tuple(ts) => 1 + ts.iter().map(|t| t.depth()).max().unwrap_or(0),
            Ty::Array(t, _) | Ty::Vec(t) | Ty::Ref(t) => 1 + t.depth(),
            Ty::Fn(ps, r) => 1 + ps.iter().map(|t| t.depth()).max().unwrap_or(0).max(r.depth()),
            Ty::Adt(_, a) => 1 + a.iter().map(|t| t.depth()).max().unwrap_or(0),
            _ => 0,
        }
    }
}

#[derive(Clone, Debug)]
pub enum AdtKind {
    Struct(Vec<(String, Ty)>),
    Enum(Vec<(String, Vec<Ty>)>),
}

#[derive(Clone, Debug)]
pub struct AdtDef {
    pub name: String,
    pub tparams: u32,
    pub kind: AdtKind,
}

#[derive(Clone, Copy, PartialEq, Eq, Debug)]
pub enum UnOp {
    Neg,
    Not,
}

#[derive(Clone, Copy, PartialEq, Eq, Debug)]
pub enum BinOp {
    Add,
    Sub,
    Mul,
    Div,
    Lt,
    Gt,
    Le,
    Ge,
    Eq,
    Ne,
    And,
    Or,
}

impl BinOp {
    pub fn text(self) -> &'static str {
        match self {
            BinOp::Add => "+",
            BinOp::Sub => "-",
            BinOp::Mul => "*",
            BinOp::Div => "/",
            BinOp::Lt => "<",
            BinOp::Gt => ">",
            BinOp::Le => "<=",
            BinOp::Ge => ">=",
            BinOp::Eq => "==",
            BinOp::Ne => "!=",
            BinOp::And => "&&",
            BinOp::Or => "||",
        }
    }
    /// binding power (higher binds tighter), as documented
    pub fn prec(self) -> u8 {
        match self {
            BinOp::Mul | BinOp::Div => 6,
            BinOp::Add | BinOp::Sub => 5,
            BinOp::Lt | BinOp::Gt | BinOp::Le | BinOp::Ge => 4,
            BinOp::Eq | BinOp::Ne => 3,
            BinOp::And => 2,
            BinOp::Or => 1,
        }
    }
}

#[derive(Clone, Copy, PartialEq, Eq, Debug, Hash)]
pub enum Builtin {
    Println,
    Print,
    IntToString(IK),
    BoolToString,
    UnitToString,
    StringLen,
    StringGet,
    ArrayGet,
    ArraySet,
    RefNew,
    RefGet,
    RefSet,
    VecNew,
    VecPush,
    VecGet,
    VecLen,
}

impl Builtin {
    pub fn name(self) -> String {
        match self {
            Builtin::Println => "string_println".into(),
            Builtin::Print => "string_print".into(),
            Builtin::IntToString(k) => format!("{}_to_string", k.name()),
            Builtin::BoolToString => "bool_to_string".into(),
            Builtin::UnitToString => "unit_to_string".into(),
            Builtin::StringLen => "string_len".into(),
            Builtin::StringGet => "string_get".into(),
            Builtin::ArrayGet => "array_get".into(),
            Builtin::ArraySet => "array_set".into(),
            Builtin::RefNew => "ref".into(),
            Builtin::RefGet => "ref_get".into(),
            Builtin::RefSet => "ref_set".into(),
            Builtin::VecNew => "vec_new".into(),
            Builtin::VecPush => "vec_push".into(),
            Builtin::VecGet => "vec_get".into(),
            Builtin::VecLen => "vec_len".into(),
        }
    }
}

/// how a method call is written
#[derive(Clone, Copy, PartialEq, Eq, Debug)]
pub enum MForm {
    /// `recv.m(args)`
    Dot,
    /// `Type::m(recv, args)`
    TypeUfcs,
    /// `Trait::m(recv, args)`
    TraitUfcs,
}

#[derive(Clone, Debug)]
pub enum Callee {
    /// top-level function with the generator's type arguments
    Fn(usize, Vec<Ty>),
    /// a method whose implementation is known statically (inherent method, or trait method
    /// on a receiver of concrete type): index into `fns`; the receiver is the first argument
    Method(usize, MForm),
    /// trait method (trait, method index) on a receiver whose implementation is only known at
    /// run time: a value of a bounded type parameter or a `dyn Tr`; the receiver is the first argument
    Dispatch(usize, usize, MForm),
    /// a function value (variable, field, projection …)
    Val(Box<Expr>),
    Builtin(Builtin),
}

#[derive(Clone, Debug)]
pub enum Pat {
    Wild,
    Var(VarId),
    Unit,
    Bool(bool),
    Int(IK, i128),
    Str(String),
    Tuple(Vec<Pat>),
    /// struct pattern: (adt, fields in written order: field index -> pattern)
    Struct(usize, Vec<(u32, Pat)>),
    /// enum constructor pattern: (adt, variant, payload patterns, qualified spelling `E::V`)
    Con(usize, u32, Vec<Pat>, bool),
}

#[derive(Clone, Debug)]
pub enum Stmt {
    /// `let pat [: ty] = e;`
    Let(Pat, Option<Ty>, Expr),
    /// `let _ = e;` (false) or `e;` (true)
    Expr(Expr, bool),
    /// verbatim statement text (used to inject ill-typed code; never interpreted)
    Raw(String),
}

#[derive(Clone, Debug)]
pub enum Expr {
    Unit,
    Bool(bool),
    /// integer literal (non-negative magnitude); `true` = written with suffix
    Int(IK, i128, bool),
    /// float literal (float32?, non-negative dyadic value with at most 3 fractional bits)
    Float(bool, f64),
    Str(String),
    Var(VarId),
    /// top-level (monomorphic) function used as a value
    FnRef(usize),
    Un(UnOp, Box<Expr>),
    Bin(BinOp, Box<Expr>, Box<Expr>),
    Tuple(Vec<Expr>),
    Proj(Box<Expr>, u32),
    ArrayLit(Vec<Expr>),
    /// struct literal, fields in WRITTEN order
    StructLit(usize, Vec<(u32, Expr)>),
    Field(Box<Expr>, usize, u32),
    /// enum constructor; bool = qualified spelling
    Con(usize, u32, Vec<Expr>, bool),
    Call(Callee, Vec<Expr>),
    Closure(Vec<(VarId, Ty)>, Box<Expr>),
    If(Box<Expr>, Box<Expr>, Box<Expr>),
    Match(Box<Expr>, Vec<(Pat, Expr)>),
    While(Box<Expr>, Box<Expr>),
    /// statements and a final expression (None = the block ends in `;`/unit `()`)
    Block(Vec<Stmt>, Option<Box<Expr>>),
    /// `go <closure expr>` : spawn an activation running the zero-argument closure
    Go(Box<Expr>),
    /// a value of concrete type written where `dyn Tr` is expected (implicit coercion: nothing is written)
    Coerce(usize, Box<Expr>),
}

#[derive(Clone, Debug)]
pub struct FnDef {
    pub name: String,
    pub tparams: u32,
    pub params: Vec<(VarId, Ty)>,
    pub ret: Ty,
    pub body: Expr,
    /// the impl block this function is a method of (its first parameter is `self`)
    pub owner: Option<usize>,
    /// trait bounds of the type parameters (indices into `GProg::traits`)
    pub bounds: Vec<Vec<usize>>,
}

impl Default for FnDef {
    fn default() -> Self {
        FnDef { name: String::new(), tparams: 0, params: vec![], ret: Ty::Unit, body: Expr::Unit, owner: None, bounds: vec![] }
    }
}

#[derive(Clone, Debug)]
pub struct TraitSig {
    pub name: String,
    /// parameters after the receiver (closed types, no `Self`)
    pub params: Vec<Ty>,
    pub ret: Ty,
}

#[derive(Clone, Debug)]
pub struct TraitDef {
    pub name: String,
    pub methods: Vec<TraitSig>,
}

#[derive(Clone, Debug)]
pub struct ImplDef {
    /// None = inherent impl
    pub trait_: Option<usize>,
    /// impl-level type parameters (`impl[T, U] Name[T, U] { .. }`): the methods are generic in them
    pub tparams: u32,
    pub for_ty: Ty,
    /// indices into `fns` (for a trait impl: in the order of the trait's methods)
    pub methods: Vec<usize>,
}

#[derive(Clone, Debug)]
pub struct VarInfo {
    pub spelling: String,
    pub ty: Ty,
}

#[derive(Clone, Debug, Default)]
pub struct GProg {
    pub adts: Vec<AdtDef>,
    pub traits: Vec<TraitDef>,
    pub impls: Vec<ImplDef>,
    pub fns: Vec<FnDef>,
    pub vars: Vec<VarInfo>,
    /// index of `main` in `fns`
    pub main: usize,
    pub labels: BTreeSet<String>,
    pub nodes: u32,
}

impl GProg {
    pub fn label(&mut self, l: &str) {
        self.labels.insert(l.to_string());
    }
    /// the implementation of trait `tr` for the type `t`
    pub fn impl_of(&self, tr: usize, t: &Ty) -> Option<usize> {
        self.impls.iter().position(|i| i.trait_ == Some(tr) && &i.for_ty == t)
    }
    pub fn implements(&self, t: &Ty, traits: &[usize]) -> bool {
        traits.iter().all(|tr| self.impl_of(*tr, t).is_some())
    }
}
