//! GProg -> goml source text (minimal parentheses from the documented
//! binding powers, plus the lexically forced ones).

use super::model::*;

pub const TPARAM_NAMES: [&str; 4] = ["T", "U", "V", "W"];

/// an identifier occurrence of a local variable in the rendered text
#[derive(Clone, Debug)]
pub struct Mark {
    pub start: usize,
    pub end: usize,
    pub var: VarId,
    pub binder: bool,
}

pub struct Renderer<'a> {
    pub p: &'a GProg,
    out: String,
    indent: usize,
    pub marks: Vec<Mark>,
    layout: Option<&'a Layout>,
    cur: usize,
    used: Vec<usize>,
}

/// assignment of items to packages (index into `pkgs`; the last one is Main)
#[derive(Clone, Debug)]
pub struct Layout {
    pub pkgs: Vec<String>,
    pub adt_pkg: Vec<usize>,
    pub fn_pkg: Vec<usize>,
}

pub fn render_ty(p: &GProg, t: &Ty) -> String {
    render_ty_in(p, t, None, 0, &mut Vec::new())
}

/// type text as seen from package `cur`; packages referred to are pushed on `used`
pub fn render_ty_in(p: &GProg, t: &Ty, layout: Option<&Layout>, cur: usize, used: &mut Vec<usize>) -> String {
    match t {
        Ty::Unit => "unit".into(),
        Ty::Bool => "bool".into(),
        Ty::Int(k) => k.name().into(),
        Ty::Float(f) => if *f { "float32".into() } else { "float64".into() },
        Ty::Str => "string".into(),
        Ty::Tuple(ts) => {
            let parts: Vec<String> = ts.iter().map(|t| render_ty_in(p, t, layout, cur, used)).collect();
            format!("({})", parts.join(", "))
        }
        Ty::Array(t, n) => format!("[{}; {}]", render_ty_in(p, t, layout, cur, used), n),
        Ty::Vec(t) => format!("Vec[{}]", render_ty_in(p, t, layout, cur, used)),
        Ty::Ref(t) => format!("Ref[{}]", render_ty_in(p, t, layout, cur, used)),
        Ty::Fn(ps, r) => {
            let parts: Vec<String> = ps.iter().map(|t| render_ty_in(p, t, layout, cur, used)).collect();
            format!("({}) -> {}", parts.join(", "), render_ty_in(p, r, layout, cur, used))
        }
        Ty::Adt(i, args) => {
            let name = adt_ref(p, *i, layout, cur, used);
            if args.is_empty() {
                name
            } else {
                let parts: Vec<String> = args.iter().map(|t| render_ty_in(p, t, layout, cur, used)).collect();
                format!("{}[{}]", name, parts.join(", "))
            }
        }
        Ty::Param(i) => TPARAM_NAMES[*i as usize % 4].into(),
        Ty::Dyn(t) => format!("dyn {}", p.traits[*t].name),
    }
}

fn adt_ref(p: &GProg, a: usize, layout: Option<&Layout>, cur: usize, used: &mut Vec<usize>) -> String {
    if let Some(l) = layout {
        if l.adt_pkg[a] != cur {
            used.push(l.adt_pkg[a]);
            return format!("{}::{}", l.pkgs[l.adt_pkg[a]], p.adts[a].name);
        }
    }
    p.adts[a].name.clone()
}

pub fn escape_str(s: &str) -> String {
    let mut o = String::from("\"");
    for c in s.chars() {
        match c {
            '"' => o.push_str("\\\""),
            '\\' => o.push_str("\\\\"),
            '\n' => o.push_str("\\n"),
            '\t' => o.push_str("\\t"),
            '\r' => o.push_str("\\r"),
            c => o.push(c),
        }
    }
    o.push('"');
    o
}

const P_TOP: u8 = 0;
const P_UNARY: u8 = 7;
const P_POSTFIX: u8 = 8;

fn contains_struct_lit(e: &Expr) -> bool {
    match e {
        Expr::StructLit(..) => true,
        Expr::Un(_, a) | Expr::Proj(a, _) | Expr::Field(a, _, _) | Expr::Coerce(_, a) => contains_struct_lit(a),
        Expr::Call(Callee::Method(_, MForm::Dot), args) | Expr::Call(Callee::Dispatch(_, _, MForm::Dot), args) => {
            args.first().map_or(false, contains_struct_lit)
        }
        Expr::Bin(_, a, b) => contains_struct_lit(a) || contains_struct_lit(b),
        // anything bracketed by ( ) [ ] or braces is safe
        _ => false,
    }
}

impl<'a> Renderer<'a> {
    pub fn new(p: &'a GProg) -> Self {
        Renderer {
            p,
            out: String::new(),
            indent: 0,
            marks: vec![],
            layout: None,
            cur: 0,
            used: vec![],
        }
    }

    fn nl(&mut self) {
        self.out.push('\n');
        for _ in 0..self.indent {
            self.out.push_str("    ");
        }
    }

    fn ty(&mut self, t: &Ty) -> String {
        render_ty_in(self.p, t, self.layout, self.cur, &mut self.used)
    }

    fn adt_name(&mut self, a: usize) -> String {
        adt_ref(self.p, a, self.layout, self.cur, &mut self.used)
    }

    fn cross_pkg_adt(&self, a: usize) -> bool {
        self.layout.map_or(false, |l| l.adt_pkg[a] != self.cur)
    }

    fn fn_name(&mut self, f: usize) -> String {
        if let Some(l) = self.layout {
            if l.fn_pkg[f] != self.cur {
                self.used.push(l.fn_pkg[f]);
                return format!("{}::{}", l.pkgs[l.fn_pkg[f]], self.p.fns[f].name);
            }
        }
        self.p.fns[f].name.clone()
    }

    fn var(&self, v: VarId) -> &str {
        &self.p.vars[v as usize].spelling
    }

    fn emit_var(&mut self, v: VarId, binder: bool) {
        let s = self.p.vars[v as usize].spelling.clone();
        let start = self.out.len();
        self.out.push_str(&s);
        self.marks.push(Mark {
            start,
            end: self.out.len(),
            var: v,
            binder,
        });
    }

    pub fn program(mut self) -> String {
        self.program_mut();
        self.out
    }

    pub fn program_with_marks(mut self) -> (String, Vec<Mark>) {
        self.program_mut();
        (self.out, self.marks)
    }

    fn program_mut(&mut self) {
        for (ai, a) in self.p.adts.iter().enumerate() {
            if self.layout.map_or(false, |l| l.adt_pkg[ai] != self.cur) {
                continue;
            }
            let tps = if a.tparams > 0 {
                format!(
                    "[{}]",
                    (0..a.tparams).map(|i| TPARAM_NAMES[i as usize % 4]).collect::<Vec<_>>().join(", ")
                )
            } else {
                String::new()
            };
            match &a.kind {
                AdtKind::Struct(fields) => {
                    self.out.push_str(&format!("struct {}{} {{", a.name, tps));
                    for (n, t) in fields {
                        let tt = self.ty(t);
                        self.out.push_str(&format!("\n    {}: {},", n, tt));
                    }
                    self.out.push_str("\n}\n\n");
                }
                AdtKind::Enum(vs) => {
                    self.out.push_str(&format!("enum {}{} {{", a.name, tps));
                    for (n, ts) in vs {
                        if ts.is_empty() {
                            self.out.push_str(&format!("\n    {},", n));
                        } else {
                            let parts: Vec<String> = ts.iter().map(|t| self.ty(t)).collect();
                            self.out.push_str(&format!("\n    {}({}),", n, parts.join(", ")));
                        }
                    }
                    self.out.push_str("\n}\n\n");
                }
            }
        }
        let main_pkg = self.layout.map_or(true, |l| self.cur == l.pkgs.len() - 1);
        if main_pkg {
            // traits and impls stay in the entry package
            for t in &self.p.traits {
                self.out.push_str(&format!("trait {} {{", t.name));
                for m in &t.methods {
                    let mut ps = vec!["Self".to_string()];
                    for pt in &m.params {
                        ps.push(self.ty(pt));
                    }
                    let rt = self.ty(&m.ret);
                    self.out.push_str(&format!("\n    fn {}({}) -> {};", m.name, ps.join(", "), rt));
                }
                self.out.push_str("\n}\n\n");
            }
            for im in &self.p.impls {
                let tt = self.ty(&im.for_ty);
                let generics = if im.tparams > 0 {
                    format!("[{}]", (0..im.tparams).map(|i| TPARAM_NAMES[i as usize % 4]).collect::<Vec<_>>().join(", "))
                } else {
                    String::new()
                };
                match im.trait_ {
                    Some(t) => self.out.push_str(&format!("impl{} {} for {} {{", generics, self.p.traits[t].name, tt)),
                    None => self.out.push_str(&format!("impl{} {} {{", generics, tt)),
                }
                self.indent += 1;
                for f in &im.methods {
                    self.nl();
                    self.func(&self.p.fns[*f]);
                }
                self.indent -= 1;
                self.out.push_str("}\n\n");
            }
        }
        for (fi, f) in self.p.fns.iter().enumerate() {
            if f.owner.is_some() || self.layout.map_or(false, |l| l.fn_pkg[fi] != self.cur) {
                continue;
            }
            self.func(f);
            self.out.push('\n');
        }
    }

    fn func(&mut self, f: &FnDef) {
        // (a method's type parameters are those of its impl block)
        let tps = if f.tparams > 0 && f.owner.is_none() {
            format!(
                "[{}]",
                (0..f.tparams)
                    .map(|i| {
                        let n = TPARAM_NAMES[i as usize % 4];
                        match f.bounds.get(i as usize) {
                            Some(b) if !b.is_empty() => format!(
                                "{}: {}",
                                n,
                                b.iter().map(|t| self.p.traits[*t].name.clone()).collect::<Vec<_>>().join(" + ")
                            ),
                            _ => n.to_string(),
                        }
                    })
                    .collect::<Vec<_>>()
                    .join(", ")
            )
        } else if let Some(own) = f.owner.map(|im| self.p.impls[im].tparams).filter(|n| f.tparams > *n) {
            // a method's own type parameters come after those of its impl block
            format!("[{}]", (own..f.tparams).map(|i| TPARAM_NAMES[i as usize % 4]).collect::<Vec<_>>().join(", "))
        } else {
            String::new()
        };
        self.out.push_str(&format!("fn {}{}(", f.name, tps));
        for (i, (v, t)) in f.params.iter().enumerate() {
            if i > 0 {
                self.out.push_str(", ");
            }
            self.emit_var(*v, true);
            self.out.push_str(": ");
            let tt = self.ty(t);
            self.out.push_str(&tt);
        }
        self.out.push(')');
        if f.ret != Ty::Unit || f.name != "main" {
            let tt = self.ty(&f.ret);
            self.out.push_str(&format!(" -> {}", tt));
        }
        self.out.push(' ');
        self.block_body(&f.body);
        self.out.push('\n');
    }

    /// `{ ... }` with the expression as its content
    fn block_body(&mut self, e: &Expr) {
        self.out.push('{');
        self.indent += 1;
        match e {
            Expr::Block(stmts, fin) => {
                for s in stmts {
                    self.nl();
                    self.stmt(s);
                }
                if let Some(f) = fin {
                    self.nl();
                    self.expr(f, P_TOP);
                }
            }
            other => {
                self.nl();
                self.expr(other, P_TOP);
            }
        }
        self.indent -= 1;
        self.nl();
        self.out.push('}');
    }

    fn stmt(&mut self, s: &Stmt) {
        match s {
            Stmt::Let(p, ann, e) => {
                self.out.push_str("let ");
                self.pat(p);
                if let Some(t) = ann {
                    self.out.push_str(": ");
                    let tt = self.ty(t);
            self.out.push_str(&tt);
                }
                self.out.push_str(" = ");
                self.expr(e, P_TOP);
                self.out.push(';');
            }
            Stmt::Raw(t) => self.out.push_str(t),
            Stmt::Expr(e, bare) => {
                if !*bare {
                    self.out.push_str("let _ = ");
                }
                self.expr(e, P_TOP);
                self.out.push(';');
            }
        }
    }

    pub fn pat(&mut self, p: &Pat) {
        match p {
            Pat::Wild => self.out.push('_'),
            Pat::Var(v) => self.emit_var(*v, true),
            Pat::Unit => self.out.push_str("()"),
            Pat::Bool(b) => self.out.push_str(if *b { "true" } else { "false" }),
            Pat::Int(k, v) => {
                if *k == IK::I32 {
                    self.out.push_str(&v.to_string());
                } else {
                    self.out.push_str(&format!("{}{}", v, k.suffix()));
                }
            }
            Pat::Str(s) => self.out.push_str(&escape_str(s)),
            Pat::Tuple(ps) => {
                self.out.push('(');
                for (i, q) in ps.iter().enumerate() {
                    if i > 0 {
                        self.out.push_str(", ");
                    }
                    self.pat(q);
                }
                self.out.push(')');
            }
            Pat::Struct(a, fs) => {
                let AdtKind::Struct(fields) = &self.p.adts[*a].kind else {
                    self.out.push('_');
                    return;
                };
                let n = self.adt_name(*a);
                self.out.push_str(&n);
                self.out.push_str(" { ");
                for (i, (fi, q)) in fs.iter().enumerate() {
                    if i > 0 {
                        self.out.push_str(", ");
                    }
                    self.out.push_str(&fields[*fi as usize].0.clone());
                    self.out.push_str(": ");
                    self.pat(q);
                }
                self.out.push_str(" }");
            }
            Pat::Con(a, v, ps, qual) => {
                let AdtKind::Enum(vs) = &self.p.adts[*a].kind else {
                    self.out.push('_');
                    return;
                };
                if *qual || self.cross_pkg_adt(*a) {
                    let n = self.adt_name(*a);
                    self.out.push_str(&n);
                    self.out.push_str("::");
                }
                self.out.push_str(&vs[*v as usize].0.clone());
                if !ps.is_empty() {
                    self.out.push('(');
                    for (i, q) in ps.iter().enumerate() {
                        if i > 0 {
                            self.out.push_str(", ");
                        }
                        self.pat(q);
                    }
                    self.out.push(')');
                }
            }
        }
    }

    fn args(&mut self, args: &[Expr]) {
        self.out.push('(');
        for (i, a) in args.iter().enumerate() {
            if i > 0 {
                self.out.push_str(", ");
            }
            self.expr(a, P_TOP);
        }
        self.out.push(')');
    }

    fn method_call(&mut self, name: &str, form: MForm, tr: Option<usize>, for_ty: Option<&Ty>, args: &[Expr]) {
        match form {
            MForm::Dot => {
                // `S { .. }.m()` is fine; an operator expression needs parentheses
                self.expr(&args[0], P_POSTFIX);
                self.out.push('.');
                self.out.push_str(name);
                self.args(&args[1..]);
            }
            MForm::TypeUfcs => {
                let head = match for_ty {
                    Some(Ty::Adt(a, _)) => self.adt_name(*a),
                    Some(t) => self.ty(t),
                    None => String::new(),
                };
                self.out.push_str(&format!("{}::{}", head, name));
                self.args(args);
            }
            MForm::TraitUfcs => {
                let head = self.p.traits[tr.unwrap_or(0)].name.clone();
                self.out.push_str(&format!("{}::{}", head, name));
                self.args(args);
            }
        }
    }

    fn head(&mut self, e: &Expr) {
        if contains_struct_lit(e) {
            self.out.push('(');
            self.expr(e, P_TOP);
            self.out.push(')');
        } else {
            self.expr(e, P_TOP);
        }
    }

    /// render `e` in a context that requires binding power `ctx`
    pub fn expr(&mut self, e: &Expr, ctx: u8) {
        match e {
            Expr::Unit => self.out.push_str("()"),
            Expr::Bool(b) => self.out.push_str(if *b { "true" } else { "false" }),
            Expr::Float(f, v) => {
                self.out.push_str(&format!("{:?}{}", v, if *f { "f32" } else { "f64" }));
            }
            Expr::Int(k, v, suffixed) => {
                if *suffixed {
                    self.out.push_str(&format!("{}{}", v, k.suffix()));
                } else {
                    self.out.push_str(&v.to_string());
                }
            }
            Expr::Str(s) => self.out.push_str(&escape_str(s)),
            Expr::Var(v) => self.emit_var(*v, false),
            Expr::FnRef(f) => {
                let n = self.fn_name(*f);
                self.out.push_str(&n)
            }
            Expr::Un(op, a) => {
                let paren = ctx > P_UNARY;
                if paren {
                    self.out.push('(');
                }
                self.out.push(match op {
                    UnOp::Neg => '-',
                    UnOp::Not => '!',
                });
                self.expr(a, P_UNARY);
                if paren {
                    self.out.push(')');
                }
            }
            Expr::Bin(op, a, b) => {
                let p = op.prec();
                let paren = ctx > p;
                if paren {
                    self.out.push('(');
                }
                self.expr(a, p);
                self.out.push(' ');
                self.out.push_str(op.text());
                self.out.push(' ');
                self.expr(b, p + 1);
                if paren {
                    self.out.push(')');
                }
            }
            Expr::Tuple(items) => {
                self.out.push('(');
                for (i, a) in items.iter().enumerate() {
                    if i > 0 {
                        self.out.push_str(", ");
                    }
                    self.expr(a, P_TOP);
                }
                self.out.push(')');
            }
            Expr::Proj(a, i) => {
                // `t.0.1` would lex `0.1` as a float: parenthesise a projection base
                if matches!(**a, Expr::Proj(..)) {
                    self.out.push('(');
                    self.expr(a, P_TOP);
                    self.out.push(')');
                } else {
                    self.expr(a, P_POSTFIX);
                }
                self.out.push_str(&format!(".{}", i));
            }
            Expr::ArrayLit(items) => {
                self.out.push('[');
                for (i, a) in items.iter().enumerate() {
                    if i > 0 {
                        self.out.push_str(", ");
                    }
                    self.expr(a, P_TOP);
                }
                self.out.push(']');
            }
            Expr::StructLit(a, fs) => {
                let name = self.adt_name(*a);
                let AdtKind::Struct(fields) = &self.p.adts[*a].kind else {
                    self.out.push_str("()");
                    return;
                };
                self.out.push_str(&name);
                self.out.push_str(" { ");
                for (i, (fi, v)) in fs.iter().enumerate() {
                    if i > 0 {
                        self.out.push_str(", ");
                    }
                    self.out.push_str(&fields[*fi as usize].0.clone());
                    self.out.push_str(": ");
                    self.expr(v, P_TOP);
                }
                self.out.push_str(" }");
            }
            Expr::Field(a, adt, fi) => {
                self.expr(a, P_POSTFIX);
                let AdtKind::Struct(fields) = &self.p.adts[*adt].kind else {
                    return;
                };
                self.out.push('.');
                self.out.push_str(&fields[*fi as usize].0.clone());
            }
            Expr::Con(a, v, args, qual) => {
                let AdtKind::Enum(vs) = &self.p.adts[*a].kind else {
                    self.out.push_str("()");
                    return;
                };
                if *qual || self.cross_pkg_adt(*a) {
                    let n = self.adt_name(*a);
                    self.out.push_str(&n);
                    self.out.push_str("::");
                }
                self.out.push_str(&vs[*v as usize].0.clone());
                if !args.is_empty() {
                    self.args(args);
                }
            }
            Expr::Call(Callee::Method(f, form), args) => {
                let def = &self.p.fns[*f];
                let im = &self.p.impls[def.owner.unwrap_or(0)];
                self.method_call(&def.name, *form, im.trait_, Some(&im.for_ty), args);
            }
            Expr::Call(Callee::Dispatch(t, m, form), args) => {
                let name = self.p.traits[*t].methods[*m].name.clone();
                self.method_call(&name, *form, Some(*t), None, args);
            }
            Expr::Coerce(_, inner) => self.expr(inner, ctx),
            Expr::Call(c, args) => {
                match c {
                    Callee::Method(..) | Callee::Dispatch(..) => {}
                    Callee::Fn(f, _) => {
                        let n = self.fn_name(*f);
                        self.out.push_str(&n)
                    }
                    Callee::Builtin(b) => self.out.push_str(&b.name()),
                    Callee::Val(f) => self.expr(f, P_POSTFIX),
                }
                self.args(args);
            }
            Expr::Closure(params, body) => {
                let paren = ctx > P_TOP;
                if paren {
                    self.out.push('(');
                }
                self.out.push('|');
                for (i, (v, t)) in params.iter().enumerate() {
                    if i > 0 {
                        self.out.push_str(", ");
                    }
                    self.emit_var(*v, true);
                    self.out.push_str(": ");
                    let tt = self.ty(t);
            self.out.push_str(&tt);
                }
                self.out.push_str("| ");
                match &**body {
                    Expr::Block(..) => self.block_body(body),
                    other => self.expr(other, P_TOP),
                }
                if paren {
                    self.out.push(')');
                }
            }
            Expr::If(c, t, f) => {
                let paren = ctx > P_TOP;
                if paren {
                    self.out.push('(');
                }
                self.out.push_str("if ");
                self.head(c);
                self.out.push(' ');
                self.block_body(t);
                self.out.push_str(" else ");
                self.block_body(f);
                if paren {
                    self.out.push(')');
                }
            }
            Expr::Match(s, arms) => {
                let paren = ctx > P_TOP;
                if paren {
                    self.out.push('(');
                }
                self.out.push_str("match ");
                self.head(s);
                self.out.push_str(" {");
                self.indent += 1;
                for (p, b) in arms {
                    self.nl();
                    self.pat(p);
                    self.out.push_str(" => ");
                    match b {
                        Expr::Block(..) => self.block_body(b),
                        other => self.expr(other, P_TOP),
                    }
                    self.out.push(',');
                }
                self.indent -= 1;
                self.nl();
                self.out.push('}');
                if paren {
                    self.out.push(')');
                }
            }
            Expr::While(c, b) => {
                let paren = ctx > P_TOP;
                if paren {
                    self.out.push('(');
                }
                self.out.push_str("while ");
                self.head(c);
                self.out.push(' ');
                self.block_body(b);
                if paren {
                    self.out.push(')');
                }
            }
            Expr::Block(..) => {
                // bare blocks are not expressions in goml; the generator only
                // puts blocks where `block_body` renders them. As a safety net
                // wrap it in a one-arm match.
                self.out.push_str("(match () { _ => ");
                self.block_body(e);
                self.out.push_str(" })");
            }
            Expr::Go(c) => {
                self.out.push_str("go ");
                self.expr(c, P_TOP);
            }
        }
    }
}

pub fn render(p: &GProg) -> String {
    Renderer::new(p).program()
}

pub fn render_with_marks(p: &GProg) -> (String, Vec<Mark>) {
    Renderer::new(p).program_with_marks()
}

/// one file per package: `main.gom` for Main, `<Pkg>/lib.gom` for the others
pub fn render_project(p: &GProg, layout: &Layout) -> Vec<(String, String)> {
    let mut files = vec![];
    let main_idx = layout.pkgs.len() - 1;
    for (k, name) in layout.pkgs.iter().enumerate() {
        let mut r = Renderer::new(p);
        r.layout = Some(layout);
        r.cur = k;
        r.program_mut();
        let has_items = layout.adt_pkg.iter().any(|x| *x == k) || layout.fn_pkg.iter().any(|x| *x == k);
        if !has_items && k != main_idx {
            continue;
        }
        let mut used: Vec<usize> = r.used.clone();
        used.sort();
        used.dedup();
        let mut text = format!("package {}\n", name);
        for u in used {
            if u != k {
                text.push_str(&format!("import {}\n", layout.pkgs[u]));
            }
        }
        text.push('\n');
        text.push_str(&r.out);
        let path = if k == main_idx { "main.gom".to_string() } else { format!("{}/lib.gom", name) };
        files.push((path, text));
    }
    files
}
