pub mod build;
pub mod layout;
pub mod model;
pub mod render;
