//! Splitting a generated program over packages: every item gets a package not
//! lower than the packages of the items it refers to (libraries form a chain
//! Alpha <- Beta <- Main), so the same `GProg` renders as a multi-package
//! project with qualified references while its meaning (refsem) is unchanged.

use super::build::walk;
use super::model::*;
use super::render::Layout;
use crate::util::Dec;

fn adts_in_ty(t: &Ty, out: &mut Vec<usize>) {
    match t {
        Ty::Tuple(ts) => ts.iter().for_each(|t| adts_in_ty(t, out)),
        Ty::Array(t, _) | Ty::Vec(t) | Ty::Ref(t) => adts_in_ty(t, out),
        Ty::Fn(ps, r) => {
            ps.iter().for_each(|t| adts_in_ty(t, out));
            adts_in_ty(r, out)
        }
        Ty::Adt(a, args) => {
            out.push(*a);
            args.iter().for_each(|t| adts_in_ty(t, out))
        }
        _ => {}
    }
}

fn adts_in_pat(p: &Pat, out: &mut Vec<usize>) {
    match p {
        Pat::Tuple(ps) => ps.iter().for_each(|p| adts_in_pat(p, out)),
        Pat::Struct(a, fs) => {
            out.push(*a);
            fs.iter().for_each(|(_, p)| adts_in_pat(p, out))
        }
        Pat::Con(a, _, ps, _) => {
            out.push(*a);
            ps.iter().for_each(|p| adts_in_pat(p, out))
        }
        _ => {}
    }
}

fn fn_deps(p: &GProg, f: &FnDef) -> (Vec<usize>, Vec<usize>) {
    let mut adts = vec![];
    let mut fns = vec![];
    for (_, t) in &f.params {
        adts_in_ty(t, &mut adts);
    }
    adts_in_ty(&f.ret, &mut adts);
    walk(&f.body, &mut |e| match e {
        Expr::Call(Callee::Fn(g, targs), _) => {
            fns.push(*g);
            targs.iter().for_each(|t| adts_in_ty(t, &mut adts));
        }
        Expr::FnRef(g) => fns.push(*g),
        Expr::StructLit(a, _) | Expr::Field(_, a, _) | Expr::Con(a, _, _, _) => adts.push(*a),
        Expr::Closure(ps, _) => ps.iter().for_each(|(_, t)| adts_in_ty(t, &mut adts)),
        Expr::Match(_, arms) => arms.iter().for_each(|(pt, _)| adts_in_pat(pt, &mut adts)),
        Expr::Block(stmts, _) => {
            for s in stmts {
                if let Stmt::Let(pt, ann, _) = s {
                    adts_in_pat(pt, &mut adts);
                    if let Some(t) = ann {
                        adts_in_ty(t, &mut adts);
                    }
                }
            }
        }
        _ => {}
    });
    // types of all variables bound in the function are not visible in the text
    // unless annotated, so they add no dependency
    let _ = p;
    (adts, fns)
}

pub fn choose_layout(p: &GProg, d: &mut Dec) -> Layout {
    let nlibs = 1 + d.below(2);
    let names = ["Alpha", "Beta"];
    let mut pkgs: Vec<String> = names[..nlibs].iter().map(|s| s.to_string()).collect();
    pkgs.push("Main".into());
    let main_idx = pkgs.len() - 1;
    // ADTs in definition order only refer to earlier ones
    let mut adt_pkg = vec![0usize; p.adts.len()];
    for (i, a) in p.adts.iter().enumerate() {
        let mut deps = vec![];
        match &a.kind {
            AdtKind::Struct(fs) => fs.iter().for_each(|(_, t)| adts_in_ty(t, &mut deps)),
            AdtKind::Enum(vs) => vs.iter().for_each(|(_, ts)| ts.iter().for_each(|t| adts_in_ty(t, &mut deps))),
        }
        let m = deps.iter().filter(|x| **x < i).map(|x| adt_pkg[*x]).max().unwrap_or(0);
        adt_pkg[i] = (m + d.weighted(&[70, 20, 10])).min(main_idx);
    }
    // functions: memoised max over dependencies (no recursion in generated programs)
    let deps: Vec<(Vec<usize>, Vec<usize>)> = p.fns.iter().map(|f| fn_deps(p, f)).collect();
    let mut fn_pkg: Vec<Option<usize>> = vec![None; p.fns.len()];
    fn place(
        i: usize,
        deps: &[(Vec<usize>, Vec<usize>)],
        adt_pkg: &[usize],
        fn_pkg: &mut Vec<Option<usize>>,
        bumps: &[usize],
        main_idx: usize,
        depth: u32,
    ) -> usize {
        if let Some(k) = fn_pkg[i] {
            return k;
        }
        if depth > 200 {
            return main_idx;
        }
        let mut m = deps[i].0.iter().map(|a| adt_pkg[*a]).max().unwrap_or(0);
        for g in deps[i].1.clone() {
            if g != i {
                m = m.max(place(g, deps, adt_pkg, fn_pkg, bumps, main_idx, depth + 1));
            }
        }
        let k = (m + bumps[i]).min(main_idx);
        fn_pkg[i] = Some(k);
        k
    }
    let mut bumps: Vec<usize> = (0..p.fns.len()).map(|_| d.weighted(&[70, 20, 10])).collect();
    // a function that returns a closure keeps callers and callee in one package: the
    // closure-typed result is only patched within a package (part of KF-05)
    for (i, f) in p.fns.iter().enumerate() {
        if f.ret.has_fn() {
            bumps[i] = main_idx;
        }
    }
    fn_pkg[p.main] = Some(main_idx);
    for i in 0..p.fns.len() {
        place(i, &deps, &adt_pkg, &mut fn_pkg, &bumps, main_idx, 0);
    }
    Layout {
        pkgs,
        adt_pkg,
        fn_pkg: fn_pkg.into_iter().map(|x| x.unwrap_or(main_idx)).collect(),
    }
}
