//! Type-directed program generator: choice bytes -> GProg.
//! Construction, not rejection: `expr(ty, fuel)` only picks productions able
//! to produce `ty` in the current scope.

use super::model::*;
use crate::util::Dec;
use std::collections::{BTreeSet, HashMap, HashSet};

#[derive(Clone, Debug)]
pub struct GenCfg {
    pub max_nodes: u32,
    pub shadow: bool,
    pub adts: bool,
    pub generics: bool,
    pub closures: bool,
    pub containers: bool,
    pub wide_ints: bool,
    pub ticks: bool,
    /// operations that may fail at run time with generated operands
    pub fails: bool,
    pub whiles: bool,
    pub strings: bool,
    /// float32 / float64 values (dyadic literals; + - *, unary minus, comparisons)
    pub floats: bool,
    /// user identifiers drawn from pools of Go keywords, predeclared names, runtime helper
    /// and compiler-temporary look-alikes (C19)
    pub hostile_names: bool,
    /// traits, trait / inherent impls, method calls in every form, bounded generics, `dyn Tr`
    pub traits: bool,
    /// statements that compute a value of any type and drop it (`let _ = e;`, `e;`)
    pub discards: bool,
    /// bias towards closures (C08), generics (C07), effects (C09)
    pub focus: Focus,
}

#[derive(Clone, Copy, Debug, PartialEq, Eq)]
pub enum Focus {
    None,
    Closures,
    Generics,
    Effects,
    Scopes,
    Traits,
}

impl GenCfg {
    pub fn full(max_nodes: u32) -> GenCfg {
        GenCfg {
            max_nodes,
            shadow: true,
            adts: true,
            generics: true,
            closures: true,
            containers: true,
            wide_ints: true,
            ticks: true,
            fails: true,
            whiles: true,
            strings: true,
            floats: true,
            hostile_names: false,
            traits: false,
            discards: false,
            focus: Focus::None,
        }
    }
}

/// closed gates (known findings) and counters, passed in by the driver
pub trait Gates {
    fn gated(&mut self, gate: &str) -> bool;
}

impl Gates for crate::driver::Ctx {
    fn gated(&mut self, gate: &str) -> bool {
        crate::driver::Ctx::gated(self, gate)
    }
}

pub struct NoGates;
impl Gates for NoGates {
    fn gated(&mut self, _gate: &str) -> bool {
        false
    }
}

const LOCAL_NAMES: [&str; 6] = ["a", "b", "c", "x", "y", "z"];
// the last four need escapes in the goml literal and in the emitted Go literal
const STRS: [&str; 15] = [
    "", "a", "go", "ml", "x y", "Zz", "0", "héé", "a\nb", "q\"q", "b\\s", "\tT",
    // C1 control characters (two bytes in UTF-8; a printer must not turn them into one-byte escapes), DEL
    "n\u{85}l", "\u{9f}\u{7f}",
    // longer than any line width a pretty printer may wrap at
    "the quick brown fox jumps over the lazy dog and keeps running until the line is well past one hundred and twenty columns wide",
];

/// (name, gate) — gate = shape label closed by an open known finding
const HOSTILE_FNS: [(&str, &str); 52] = [
    // names that merely start like a builtin
    ("array_sum", ""), ("array_get2", ""), ("vec_sum", ""), ("ref_count", ""), ("string_join", ""), ("array_", ""),
    // look-alikes of the runtime's pure helpers (a user function stays a user function)
    ("log_to_string", ""), ("x_to_json", ""), ("to_string", ""), ("to_json", ""), ("string_length", ""), ("my_escape_string", ""),
    ("len", ""), ("append", ""), ("panic", ""), ("println", ""), ("print", ""), ("nil", ""), ("any", ""),
    ("fmt", ""), ("cap", ""), ("copy", ""), ("new", ""), ("make", ""), ("error", ""), ("int", ""),
    ("byte", ""), ("rune", ""), ("iota", ""), ("var", ""), ("func", ""), ("chan", ""), ("map", ""),
    ("range", ""), ("select", ""), ("defer", ""), ("switch", ""), ("case", ""), ("default", ""),
    ("interface", ""), ("const", ""), ("goto", ""), ("init", "names:go-init"),
    ("t3", "names:temp-like"), ("t1", "names:temp-like"), ("ret2", "names:temp-like"), ("x0", "names:temp-like"),
    ("mtmp1", "names:temp-like"), ("cond1", "names:temp-like"),
    ("main0", "names:entry-wrapper"), ("missing", "names:runtime-helper"),
    ("a_b__c", ""),
];
const HOSTILE_TYPES: [(&str, &str); 13] = [
    ("error", ""), ("any", ""), ("len", ""), ("Len", ""), ("A_B", ""), ("B_C", ""), ("a", ""), ("A", ""),
    ("Tuple2_int32_int32", "names:generated-type"), ("ref_int32_x", "names:generated-type"),
    ("closure_env_f_0", "names:generated-type"), ("Tuple2_bool_bool", "names:generated-type"),
    ("dyn__Show", ""),
];
const HOSTILE_FIELDS: [&str; 14] = [
    "func", "range", "var", "chan", "map", "select", "defer", "switch", "value", "len", "x_0", "interface", "goto", "nil",
];
const HOSTILE_LOCALS: [&str; 17] = [
    "a_local_variable_with_a_name_that_is_seventy_something_characters_long_x",
    "len", "nil", "t1", "ret0", "mtmp0", "x", "func", "var", "range", "chan", "a__1", "string2", "append", "fmt", "cond0", "any",
];

struct ScopeVar {
    id: VarId,
    known: bool,
}

pub struct Gen<'a, 'd> {
    d: &'a mut Dec<'d>,
    cfg: GenCfg,
    gates: &'a mut dyn Gates,
    pub p: GProg,
    scope: Vec<ScopeVar>,
    budget: i64,
    tick_no: u32,
    uniq: u32,
    show_fns: HashMap<Ty, usize>,
    tick_fns: HashMap<Ty, usize>,
    mk_fns: HashMap<String, usize>,
    /// number of type parameters of the function being generated
    cur_tparams: u32,
    /// functions callable from the body being generated (ids < limit)
    callable: Vec<usize>,
    in_show: bool,
    counters: HashSet<VarId>,
    /// closures may flow into declared function-typed positions
    esc_ok: bool,
    /// spellings bound so far inside the pattern under construction
    pat_names: Vec<String>,
    used_names: HashSet<String>,
    user_fns: Vec<usize>,
    /// enum-typed variables that are the scrutinee of an enclosing match
    active_scrutinees: Vec<VarId>,
    /// variables holding closure values (not plain function values)
    closure_vars: HashSet<VarId>,
    /// functions whose result is a closure they create
    closure_ret_fns: HashSet<usize>,
    /// generic functions with a type parameter that occurs only in the result type
    phantom_fns: HashSet<usize>,
    /// generic functions that call themselves at permuted type arguments (last parameter = fuel)
    polyrec_fns: HashSet<usize>,
    /// trait bounds of the type parameters of the function being generated
    cur_bounds: Vec<Vec<usize>>,
    /// traits 0..usable_traits are complete (all impls generated): usable for dyn / bounds
    usable_traits: usize,
    /// methods (indices into fns) whose bodies are complete: callable statically
    usable_methods: Vec<usize>,
    closure_depth: u32,
    /// a value of trait-object type must be an existing variable (the type argument of a call is inferred from it)
    force_dyn_var: bool,
    /// a bounded type parameter is instantiated at a trait-object type when one qualifies
    prefer_dyn_targ: bool,
}

fn is_printable_ty(t: &Ty) -> bool {
    !t.has_param()
}

impl<'a, 'd> Gen<'a, 'd> {
    pub fn new(d: &'a mut Dec<'d>, cfg: GenCfg, gates: &'a mut dyn Gates) -> Self {
        let budget = cfg.max_nodes as i64;
        let esc_ok = !cfg.closures || !gates.gated("closure:escapes");
        Gen {
            d,
            cfg,
            gates,
            p: GProg::default(),
            scope: vec![],
            budget,
            tick_no: 0,
            uniq: 0,
            show_fns: HashMap::new(),
            tick_fns: HashMap::new(),
            mk_fns: HashMap::new(),
            cur_tparams: 0,
            callable: vec![],
            in_show: false,
            counters: HashSet::new(),
            esc_ok,
            pat_names: vec![],
            used_names: HashSet::new(),
            user_fns: vec![],
            active_scrutinees: vec![],
            closure_vars: HashSet::new(),
            closure_ret_fns: HashSet::new(),
            phantom_fns: HashSet::new(),
            polyrec_fns: HashSet::new(),
            cur_bounds: vec![],
            usable_traits: 0,
            usable_methods: vec![],
            closure_depth: 0,
            force_dyn_var: false,
            prefer_dyn_targ: false,
        }
    }

    fn label(&mut self, l: &str) {
        self.p.labels.insert(l.to_string());
    }

    /// an item name: in hostile mode from the pool (unique, gates respected), else `default`
    fn item_name(&mut self, pool: &[(&str, &str)], default: String) -> String {
        // scoping bias: a function spelled like the locals, so that locals shadow it
        if self.cfg.focus == Focus::Scopes && std::ptr::eq(pool.as_ptr(), HOSTILE_FNS.as_ptr()) && self.d.chance(100) {
            let n = LOCAL_NAMES[self.d.below(3)];
            if !self.used_names.contains(n) {
                self.used_names.insert(n.to_string());
                self.label("shadow:fn-named-like-local");
                return n.to_string();
            }
        }
        // a name built around a word the back end treats specially (`domain`, `is_main`,
        // `init0`, `mapx`, `println_`): none of these is reserved, all must simply work
        if self.cfg.hostile_names && self.d.chance(50) {
            const STEMS: [&str; 22] = [
                "main", "init", "missing", "print", "println", "len", "map", "func", "go", "type", "string", "int32",
                "Tuple2", "ref", "closure_env", "dyn", "goml", "apply", "unit", "bool", "panic", "fmt",
            ];
            const PRE: [&str; 6] = ["", "do", "re", "is_", "x", "my_"];
            const SUF: [&str; 7] = ["", "0", "1", "_", "x", "_0", "s"];
            const KEYWORDS: [&str; 24] = [
                "fn", "let", "match", "if", "else", "while", "struct", "enum", "trait", "impl", "for", "go", "return", "true",
                "false", "package", "import", "extern", "dyn", "use", "in", "type", "unit", "bool",
            ];
            let stem = STEMS[self.d.below(STEMS.len())];
            let pre = PRE[self.d.below(PRE.len())];
            let suf = SUF[self.d.below(SUF.len())];
            let n = format!("{pre}{stem}{suf}");
            let listed = HOSTILE_FNS.iter().chain(HOSTILE_TYPES.iter()).any(|(x, _)| *x == n);
            let folds = self.used_names.iter().any(|u| u.eq_ignore_ascii_case(&n));
            if (!pre.is_empty() || !suf.is_empty())
                && !listed
                && !folds
                && !KEYWORDS.contains(&n.as_str())
                && !matches!(n.as_str(), "string" | "int32" | "println" | "print" | "ref")
            {
                self.used_names.insert(n.clone());
                self.label("names:hostile-item");
                self.label("names:composite");
                return n;
            }
        }
        if self.cfg.hostile_names && self.d.chance(200) {
            let (n, gate) = pool[self.d.below(pool.len())];
            // Ref[A] and Ref[a] share one generated name (KF-30)
            let folds = self.used_names.iter().any(|u| u != n && u.eq_ignore_ascii_case(n));
            let fold_ok = !folds || !self.gates.gated("names:ref-case-fold");
            if fold_ok && !self.used_names.contains(n) && (gate.is_empty() || !self.gates.gated(gate)) {
                if folds {
                    self.label("names:ref-case-fold");
                }
                self.used_names.insert(n.to_string());
                self.label("names:hostile-item");
                if !gate.is_empty() {
                    self.label(gate);
                }
                return n.to_string();
            }
        }
        self.used_names.insert(default.clone());
        default
    }

    // ------------------------------------------------------------ variables

    /// a parameter: its spelling differs from the other parameters in `taken`
    fn new_param(&mut self, ty: Ty, taken: &mut Vec<String>) -> VarId {
        let mut v = self.new_var(ty.clone(), true);
        let mut tries = 0;
        while taken.contains(&self.p.vars[v as usize].spelling) {
            self.scope.pop();
            self.p.vars.pop();
            tries += 1;
            v = if tries > 4 { self.fresh_named("a", ty.clone()) } else { self.new_var(ty.clone(), true) };
        }
        taken.push(self.p.vars[v as usize].spelling.clone());
        v
    }

    fn new_var(&mut self, ty: Ty, known: bool) -> VarId {
        let spelling = if self.cfg.shadow {
            let n = if self.cfg.focus == Focus::Scopes { 3 } else { LOCAL_NAMES.len() };
            let hostile = if self.cfg.hostile_names && self.d.chance(128) {
                Some(HOSTILE_LOCALS[self.d.below(HOSTILE_LOCALS.len())])
            } else {
                None
            };
            if let Some(h) = hostile {
                self.label("names:hostile-local");
                if self.used_names.contains(h) {
                    // from here on the function of that name cannot be named (fn_nameable)
                    self.label("shadow:local-over-fn");
                }
                h.to_string()
            } else {
                let l = LOCAL_NAMES[self.d.below(n)];
                if self.used_names.contains(l) {
                    self.label("shadow:local-over-fn");
                }
                l.to_string()
            }
        } else {
            self.uniq += 1;
            format!("v{}", self.uniq)
        };
        self.new_var_named(spelling, ty, known)
    }

    fn new_var_named(&mut self, spelling: String, ty: Ty, known: bool) -> VarId {
        let id = self.p.vars.len() as VarId;
        if self.scope.iter().any(|v| self.p.vars[v.id as usize].spelling == spelling) {
            self.label("shadow");
        }
        self.p.vars.push(VarInfo { spelling, ty });
        self.scope.push(ScopeVar { id, known });
        id
    }

    pub fn fresh_named(&mut self, prefix: &str, ty: Ty) -> VarId {
        self.uniq += 1;
        let s = format!("{}{}", prefix, self.uniq);
        self.new_var_named(s, ty, true)
    }

    /// a top-level function can be named here: no visible local has its spelling
    /// (a local closure called like a function must win over the function)
    fn fn_nameable(&self, f: usize) -> bool {
        let n = &self.p.fns[f].name;
        n.is_empty() || !self.scope.iter().any(|v| &self.p.vars[v.id as usize].spelling == n)
    }

    /// variables that a use of their spelling would actually refer to
    fn visible(&self) -> Vec<(VarId, bool)> {
        let mut seen: HashSet<&str> = HashSet::new();
        let mut out = vec![];
        for v in self.scope.iter().rev() {
            let s = self.p.vars[v.id as usize].spelling.as_str();
            if seen.insert(s) {
                out.push((v.id, v.known));
            }
        }
        out
    }

    fn var_ty(&self, v: VarId) -> &Ty {
        &self.p.vars[v as usize].ty
    }

    // ---------------------------------------------------------------- types

    fn int_kind(&mut self) -> IK {
        if self.cfg.wide_ints && self.d.chance(70) {
            ALL_IK[self.d.below(ALL_IK.len())]
        } else {
            IK::I32
        }
    }

    pub fn ty(&mut self, depth: u32) -> Ty {
        // weights: simple types first
        let comp = depth > 0;
        let w = [
            30,                                                        // int
            12,                                                        // bool
            if self.cfg.strings { 12 } else { 0 },                     // string
            3,                                                         // unit
            if comp { 10 } else { 0 },                                 // tuple
            if comp && self.cfg.adts && !self.p.adts.is_empty() { 14 } else { 0 }, // adt
            if comp && self.cfg.containers { 6 } else { 0 },           // array
            if comp && self.cfg.containers { 5 } else { 0 },           // ref
            if comp && self.cfg.containers { 4 } else { 0 },           // vec
            if comp && self.cfg.closures { if self.cfg.focus == Focus::Closures { 16 } else { 6 } } else { 0 }, // fn
            if self.cfg.floats { 5 } else { 0 },                       // float
        ];
        match self.d.weighted(&w) {
            10 => Ty::Float(self.d.bool()),
            0 => Ty::Int(self.int_kind()),
            1 => Ty::Bool,
            2 => Ty::Str,
            3 => Ty::Unit,
            4 => {
                let n = 2 + self.d.below(2);
                Ty::Tuple((0..n).map(|_| self.ty(depth - 1)).collect())
            }
            5 => {
                let i = self.d.below(self.p.adts.len());
                let n = self.p.adts[i].tparams;
                Ty::Adt(i, (0..n).map(|_| self.ty(depth.saturating_sub(2))).collect())
            }
            6 => Ty::Array(Box::new(self.ty(depth - 1)), 1 + self.d.below(3) as u32),
            7 => Ty::Ref(Box::new(self.ty(depth - 1))),
            8 => Ty::Vec(Box::new(self.ty(depth.saturating_sub(2)))),
            _ => {
                let n = self.d.below(3);
                let mut ps: Vec<Ty> = (0..n).map(|_| self.ty(depth.saturating_sub(2))).collect();
                // `(unit) -> T` and `() -> T` get the same generated type name (KF-30)
                for t in ps.iter_mut() {
                    if *t == Ty::Unit {
                        if self.gates.gated("names:fn-unit-param") {
                            *t = Ty::Bool;
                        } else {
                            self.label("names:fn-unit-param");
                        }
                    }
                }
                Ty::Fn(ps, Box::new(self.ty(depth.saturating_sub(2))))
            }
        }
    }

    fn gen_adts(&mut self) {
        if !self.cfg.adts {
            return;
        }
        let n = self.d.below(4);
        for i in 0..n {
            let generic = self.cfg.generics && self.d.chance(90);
            let tparams = if generic { 1 + self.d.below(2) as u32 } else { 0 };
            let is_enum = self.d.bool();
            let mut used = vec![false; tparams as usize];
            let mut field_ty = |g: &mut Self, used: &mut Vec<bool>| -> Ty {
                if tparams > 0 && g.d.chance(120) {
                    let k = g.d.below(tparams as usize);
                    used[k] = true;
                    Ty::Param(k as u32)
                } else {
                    g.ty(1)
                }
            };
            if is_enum {
                let nv = 1 + self.d.below(3);
                let mut vs = vec![];
                for v in 0..nv {
                    let np = self.d.below(3);
                    let ps: Vec<Ty> = (0..np).map(|_| field_ty(self, &mut used)).collect();
                    vs.push((format!("K{}x{}", i, v), ps));
                }
                // every type parameter must occur somewhere
                for (k, u) in used.iter().enumerate() {
                    if !u {
                        vs[0].1.push(Ty::Param(k as u32));
                    }
                }
                let adt_name = self.item_name(&HOSTILE_TYPES, format!("E{}", i));
                self.p.adts.push(AdtDef {
                    name: adt_name,
                    tparams,
                    kind: AdtKind::Enum(vs),
                });
                self.label("adt:enum");
            } else {
                let nf = 1 + self.d.below(3);
                let mut fs = vec![];
                for f in 0..nf {
                    let fname = if self.cfg.hostile_names && self.d.chance(160) {
                        let n = HOSTILE_FIELDS[self.d.below(HOSTILE_FIELDS.len())];
                        if fs.iter().any(|(x, _): &(String, Ty)| x == n) { format!("f{}", f) } else { self.label("names:hostile-field"); n.to_string() }
                    } else {
                        format!("f{}", f)
                    };
                    fs.push((fname, field_ty(self, &mut used)));
                }
                for (k, u) in used.iter().enumerate() {
                    if !u {
                        fs.push((format!("g{}", k), Ty::Param(k as u32)));
                    }
                }
                let adt_name = self.item_name(&HOSTILE_TYPES, format!("S{}", i));
                self.p.adts.push(AdtDef {
                    name: adt_name,
                    tparams,
                    kind: AdtKind::Struct(fs),
                });
                self.label("adt:struct");
            }
            if generic {
                self.label("adt:generic");
            }
        }
    }


    // ------------------------------------------------------ traits and impls

    /// a closed type for method signatures (no `Self`, no trait objects)
    fn sig_ty(&mut self) -> Ty {
        self.ty(1)
    }

    /// types a trait can be implemented for: nominal types (a generic one at one instance),
    /// integers, string, bool — told apart at run time by their outermost shape
    fn impl_targets(&mut self) -> Vec<Ty> {
        let mut out = vec![Ty::i32(), Ty::Str, Ty::Bool];
        // a trait-object type of an earlier (complete) trait: `impl Tr1 for dyn Tr0`
        for t0 in self.dyn_traits() {
            out.push(Ty::Dyn(t0));
        }
        if self.cfg.wide_ints {
            out.push(Ty::Int(ALL_IK[1 + self.d.below(ALL_IK.len() - 1)]));
        }
        for i in 0..self.p.adts.len() {
            let n = self.p.adts[i].tparams;
            let args: Vec<Ty> = (0..n)
                .map(|_| match self.d.below(3) {
                    0 => Ty::Str,
                    1 => Ty::Bool,
                    _ => Ty::i32(),
                })
                .collect();
            // nominal types twice: they are the common case
            out.push(Ty::Adt(i, args.clone()));
            out.push(Ty::Adt(i, args));
        }
        out
    }

    fn same_head(a: &Ty, b: &Ty) -> bool {
        match (a, b) {
            (Ty::Adt(x, _), Ty::Adt(y, _)) => x == y,
            _ => a == b,
        }
    }

    fn gen_method(&mut self, impl_idx: usize, name: String, self_ty: &Ty, extra: &[Ty], ret: &Ty) -> usize {
        self.scope.clear();
        self.cur_tparams = 0;
        self.cur_bounds.clear();
        let idx = self.p.fns.len();
        self.p.fns.push(FnDef::default());
        let sv = self.new_var_named("self".into(), self_ty.clone(), true);
        let mut taken = vec!["self".to_string()];
        let mut params = vec![(sv, self_ty.clone())];
        for t in extra {
            params.push((self.new_param(t.clone(), &mut taken), t.clone()));
        }
        let body = self.block(ret, 3);
        self.scope.clear();
        self.p.fns[idx] = FnDef { name, tparams: 0, params, ret: ret.clone(), body, owner: Some(impl_idx), bounds: vec![] };
        idx
    }

    fn gen_traits(&mut self) {
        if !self.cfg.traits {
            return;
        }
        let nt = match self.cfg.focus {
            Focus::Traits => 1 + self.d.below(2),
            _ => self.d.below(3),
        };
        for t in 0..nt {
            let nm = 1 + self.d.below(2);
            let mut methods = vec![];
            for m in 0..nm {
                let np = self.d.below(3);
                let params: Vec<Ty> = (0..np).map(|_| self.sig_ty()).collect();
                // methods called for their effect are common
                let ret = if self.d.chance(50) { Ty::Unit } else { self.sig_ty() };
                // (C19) method and trait names the back end has to escape or that look like its own
                let mname = if self.cfg.hostile_names && self.d.chance(140) {
                    const M: [&str; 14] = ["len", "range", "new", "init", "func", "strings", "main", "print", "cap", "append", "chan", "defer", "select", "apply"];
                    let n = M[self.d.below(M.len())];
                    if self.used_names.insert(format!("method:{n}")) { self.label("names:hostile-method"); n.to_string() } else { format!("m{t}x{m}") }
                } else {
                    format!("m{t}x{m}")
                };
                methods.push(TraitSig { name: mname, params, ret });
            }
            let tname = if self.cfg.hostile_names && self.d.chance(140) {
                const T: [&str; 8] = ["error", "any", "Stringer", "Len", "Error", "Reader", "vtable", "Dyn"];
                let n = T[self.d.below(T.len())];
                let clash = self.used_names.iter().any(|u| u.eq_ignore_ascii_case(n));
                if !clash && self.used_names.insert(n.to_string()) { self.label("names:hostile-trait"); n.to_string() } else { format!("Tr{t}") }
            } else {
                format!("Tr{t}")
            };
            self.p.traits.push(TraitDef { name: tname, methods: methods.clone() });
            self.label("trait");
            let k = 1 + self.d.below(3);
            let mut done: Vec<Ty> = vec![];
            for _ in 0..k {
                let mut cands = self.impl_targets();
                if done.is_empty() {
                    // every trait has an implementing type that is not a trait object (bounds stay satisfiable)
                    cands.retain(|t| !matches!(t, Ty::Dyn(_)));
                }
                let ty = cands[self.d.below(cands.len())].clone();
                if done.iter().any(|x| Self::same_head(x, &ty)) {
                    continue;
                }
                done.push(ty.clone());
                let impl_idx = self.p.impls.len();
                self.p.impls.push(ImplDef { trait_: Some(t), tparams: 0, for_ty: ty.clone(), methods: vec![] });
                let mut fs = vec![];
                for sig in &methods {
                    fs.push(self.gen_method(impl_idx, sig.name.clone(), &ty, &sig.params, &sig.ret));
                }
                self.p.impls[impl_idx].methods = fs.clone();
                self.usable_methods.extend(fs);
                match &ty {
                    Ty::Dyn(_) => self.label("impl:for-dyn-type"),
                    Ty::Adt(_, a) if !a.is_empty() => self.label("impl:generic-instance"),
                    Ty::Adt(..) => self.label("impl:adt"),
                    _ => self.label("impl:prim"),
                }
            }
            self.usable_traits = t + 1;
        }
        // inherent impls on non-generic nominal types
        for a in 0..self.p.adts.len() {
            if self.p.adts[a].tparams > 0 || !self.d.chance(if self.cfg.focus == Focus::Traits { 140 } else { 70 }) {
                continue;
            }
            let ty = Ty::Adt(a, vec![]);
            let impl_idx = self.p.impls.len();
            self.p.impls.push(ImplDef { trait_: None, tparams: 0, for_ty: ty.clone(), methods: vec![] });
            let nm = 1 + self.d.below(2);
            let mut fs = vec![];
            for m in 0..nm {
                let np = self.d.below(3);
                let params: Vec<Ty> = (0..np).map(|_| self.sig_ty()).collect();
                let ret = self.sig_ty();
                // an inherent method may be called like a trait method the type implements:
                // `x.m()` / `T::m(x)` mean the inherent one, `Tr::m(x)` and calls through a bound the trait's
                let twins: Vec<String> = self
                    .p
                    .impls
                    .iter()
                    .filter(|i| i.trait_.is_some() && Self::same_head(&i.for_ty, &ty))
                    .flat_map(|i| self.p.traits[i.trait_.unwrap()].methods.iter().map(|m| m.name.clone()))
                    .collect();
                let mname = if !twins.is_empty() && self.d.chance(110) && self.used_names.insert(format!("inherent:{a}:twin")) {
                    self.label("method:inherent-named-like-trait-method");
                    twins[self.d.below(twins.len())].clone()
                } else if self.cfg.hostile_names && self.d.chance(120) {
                    const IM: [&str; 6] = ["to_string", "to_json", "len", "new", "show_to_string", "init"];
                    let n = IM[self.d.below(IM.len())];
                    if self.used_names.insert(format!("inherent:{a}:{n}")) { self.label("names:hostile-method"); n.to_string() } else { format!("im{a}x{m}") }
                } else {
                    format!("im{a}x{m}")
                };
                let f = self.gen_method(impl_idx, mname, &ty, &params, &ret);
                fs.push(f);
                // a later method of the block may call an earlier one
                self.usable_methods.push(f);
            }
            self.p.impls[impl_idx].methods = fs;
            self.label("impl:inherent");
        }
        // generic inherent impls: `impl[T] Name[T] { fn m(self: Name[T], p: T, ..) -> .. }`
        for a in 0..self.p.adts.len() {
            let n = self.p.adts[a].tparams;
            if n == 0 || !self.cfg.generics || !self.d.chance(if self.cfg.focus == Focus::Traits { 140 } else { 70 }) {
                continue;
            }
            let ty = Ty::Adt(a, (0..n).map(Ty::Param).collect());
            let impl_idx = self.p.impls.len();
            self.p.impls.push(ImplDef { trait_: None, tparams: n, for_ty: ty.clone(), methods: vec![] });
            let nm = 1 + self.d.below(2);
            let mut fs = vec![];
            for m in 0..nm {
                let f = self.gen_generic_method(impl_idx, format!("gm{a}x{m}"), &ty, n);
                fs.push(f);
                self.usable_methods.push(f);
            }
            self.p.impls[impl_idx].methods = fs;
            self.label("impl:generic-inherent");
        }
    }

    /// a method of a generic inherent impl: generic in the impl's type parameters; one
    /// parameter of each parameter's type keeps a value of that type reachable
    fn gen_generic_method(&mut self, impl_idx: usize, name: String, self_ty: &Ty, n: u32) -> usize {
        self.scope.clear();
        self.cur_tparams = n;
        self.cur_bounds.clear();
        let idx = self.p.fns.len();
        self.p.fns.push(FnDef::default());
        let sv = self.new_var_named("self".into(), self_ty.clone(), true);
        let mut taken = vec!["self".to_string()];
        let mut params = vec![(sv, self_ty.clone())];
        for k in 0..n {
            let t = Ty::Param(k);
            params.push((self.fresh_named("p", t.clone()), t));
        }
        for _ in 0..self.d.below(2) {
            let t = self.sig_ty();
            params.push((self.new_param(t.clone(), &mut taken), t));
        }
        // a type parameter of the method's own: `fn m[U](self: Name[T], p: T, q: U) -> (T, U)`
        let own = if n < 3 && self.d.chance(90) { 1 } else { 0 };
        if own > 0 {
            let t = Ty::Param(n);
            params.push((self.fresh_named("p", t.clone()), t));
            self.cur_tparams = n + own;
            self.label("impl:method-own-generics");
        }
        let ret = match self.d.below(if own > 0 { 6 } else { 4 }) {
            0 => Ty::Param(self.d.below(n as usize) as u32),
            1 => self_ty.clone(),
            2 => Ty::Tuple(vec![Ty::Param(self.d.below(n as usize) as u32), Ty::i32()]),
            3 => self.sig_ty(),
            4 => Ty::Param(n),
            _ => Ty::Tuple(vec![Ty::Param(self.d.below(n as usize) as u32), Ty::Param(n)]),
        };
        let body = self.block(&ret, 3);
        self.scope.clear();
        self.cur_tparams = 0;
        self.p.fns[idx] = FnDef { name, tparams: n + own, params, ret, body, owner: Some(impl_idx), bounds: vec![] };
        idx
    }

    /// types implementing every trait of `bounds`
    fn implementors(&self, bounds: &[usize]) -> Vec<Ty> {
        let Some(first) = bounds.first() else { return vec![] };
        self.p
            .impls
            .iter()
            .filter(|i| i.trait_ == Some(*first))
            .map(|i| i.for_ty.clone())
            .filter(|t| self.p.implements(t, bounds))
            .collect()
    }

    /// implementing types of `tr` a trait object can be made from
    fn dyn_sources(&mut self, tr: usize) -> Vec<Ty> {
        let all: Vec<Ty> = self.implementors(&[tr]).into_iter().filter(|t| !matches!(t, Ty::Dyn(_))).collect();
        let inst_ok = !all.iter().any(|t| matches!(t, Ty::Adt(_, a) if !a.is_empty())) || !self.gates.gated("dyn:generic-instance");
        all.into_iter().filter(|t| inst_ok || !matches!(t, Ty::Adt(_, a) if !a.is_empty())).collect()
    }

    /// traits (complete ones) that have a type a trait object can be made from
    fn dyn_traits(&mut self) -> Vec<usize> {
        (0..self.usable_traits).filter(|t| !self.dyn_sources(*t).is_empty()).collect()
    }

    /// an expression of concrete type `ty` whose type is known where it is written
    /// (a coercion to `dyn` needs that: KF-43): annotated variable, literal, constructor
    fn known_typed(&mut self, ty: &Ty, fuel: i32) -> Expr {
        let vars: Vec<VarId> = self.visible().into_iter().filter(|(v, k)| *k && self.var_ty(*v) == ty).map(|(v, _)| v).collect();
        if !vars.is_empty() && self.d.bool() {
            return Expr::Var(vars[self.d.below(vars.len())]);
        }
        match ty {
            Ty::Int(k) => self.int_lit(*k),
            Ty::Str => self.str_lit(),
            Ty::Bool => Expr::Bool(self.d.bool()),
            Ty::Adt(a, args) => self.adt_value(*a, args, false, fuel.min(2)),
            _ => self.const_leaf(ty),
        }
    }

    /// a value of type `dyn Tr`: an existing trait object or a coercion site
    fn dyn_value(&mut self, tr: usize, fuel: i32) -> Expr {
        let vars: Vec<VarId> =
            self.visible().into_iter().filter(|(v, _)| self.var_ty(*v) == &Ty::Dyn(tr)).map(|(v, _)| v).collect();
        if !vars.is_empty() && (self.force_dyn_var || self.d.chance(150)) {
            self.label("dyn:passed-on");
            return Expr::Var(vars[self.d.below(vars.len())]);
        }
        let srcs = self.dyn_sources(tr);
        if srcs.is_empty() {
            // unreachable by construction (dyn types are only made for traits with a source)
            return Expr::Unit;
        }
        let ty = srcs[self.d.below(srcs.len())].clone();
        self.spend();
        let src = if fuel > 1 && self.d.chance(50) {
            let c = self.expr(&Ty::Bool, fuel - 1);
            let a = self.known_typed(&ty, fuel - 1);
            let b = self.known_typed(&ty, fuel - 1);
            self.label("dyn:coerce-if");
            Expr::If(Box::new(c), Box::new(a), Box::new(b))
        } else {
            self.known_typed(&ty, fuel - 1)
        };
        self.label("dyn:coerce");
        match &ty {
            Ty::Adt(..) => self.label("dyn:from-adt"),
            _ => self.label("dyn:from-prim"),
        }
        Expr::Coerce(tr, Box::new(src))
    }

    /// `let v: R = <recv>.m(args);` / `let v: R = Tr::m(<recv>, args);` for a receiver whose
    /// implementation is chosen at run time (bounded type parameter or trait object)
    fn dispatch_stmt(&mut self, recv: Expr, tr: usize, bound: bool, fuel: i32) -> Stmt {
        let mi = self.d.below(self.p.traits[tr].methods.len());
        let sig = self.p.traits[tr].methods[mi].clone();
        let form = if bound && self.d.bool() {
            self.label("method:bound-dot");
            MForm::Dot
        } else {
            self.label(if bound { "method:bound-ufcs" } else { "method:dyn" });
            MForm::TraitUfcs
        };
        self.label("method-call");
        let mut args = vec![recv];
        args.extend(self.call_args(&sig.params, fuel));
        let v = self.new_var(sig.ret.clone(), true);
        Stmt::Let(Pat::Var(v), Some(sig.ret.clone()), Expr::Call(Callee::Dispatch(tr, mi, form), args))
    }

    /// method calls whose result type is `t`
    fn method_calls(&mut self, t: &Ty, fuel: i32) -> Option<Expr> {
        #[derive(Clone)]
        enum Cand {
            Static(usize),
            Generic(usize, Vec<Option<Ty>>),
            Bound(u32, usize, usize),
            Dyn(VarId, usize, usize),
        }
        let mut cands: Vec<Cand> = vec![];
        for f in &self.usable_methods {
            let def = &self.p.fns[*f];
            if def.tparams == 0 {
                let for_dyn = matches!(&self.p.impls[def.owner.unwrap_or(0)].for_ty, Ty::Dyn(_));
                let recv_var = !for_dyn || self.visible().iter().any(|(v, _)| self.var_ty(*v) == &self.p.impls[def.owner.unwrap_or(0)].for_ty);
                if &def.ret == t && recv_var {
                    cands.push(Cand::Static(*f));
                }
            } else if !t.has_param() || self.cur_tparams > 0 {
                let mut b = vec![None; def.tparams as usize];
                if match_ty(&def.ret, t, &mut b) {
                    cands.push(Cand::Generic(*f, b));
                }
            }
        }
        for k in 0..self.cur_tparams {
            for tr in self.cur_bounds.get(k as usize).cloned().unwrap_or_default() {
                for (mi, sig) in self.p.traits[tr].methods.iter().enumerate() {
                    if &sig.ret == t {
                        // twice: the bounded call is what a bounded function is for
                        cands.push(Cand::Bound(k, tr, mi));
                        cands.push(Cand::Bound(k, tr, mi));
                    }
                }
            }
        }
        for (v, _) in self.visible() {
            if let Ty::Dyn(tr) = self.var_ty(v).clone() {
                for (mi, sig) in self.p.traits[tr].methods.iter().enumerate() {
                    if &sig.ret == t {
                        cands.push(Cand::Dyn(v, tr, mi));
                        cands.push(Cand::Dyn(v, tr, mi));
                    }
                }
            }
        }
        if cands.is_empty() {
            return None;
        }
        let c = cands[self.d.below(cands.len())].clone();
        self.label("method-call");
        if self.closure_depth > 0 {
            self.label("method:in-closure");
        }
        Some(match c {
            Cand::Static(f) => {
                let def = self.p.fns[f].clone();
                let im = self.p.impls[def.owner.unwrap_or(0)].clone();
                let extra: Vec<Ty> = def.params.iter().skip(1).map(|(_, t)| t.clone()).collect();
                if im.trait_.is_some() {
                    self.label("method:trait-ufcs");
                    // (the receiver of an impl for a trait-object type is a variable of that type:
                    // a concrete value written there would select the impl for its own type)
                    let was = self.force_dyn_var;
                    if matches!(im.for_ty, Ty::Dyn(_)) {
                        self.force_dyn_var = true;
                        self.label("method:static-on-dyn-type");
                    }
                    let recv = self.expr(&im.for_ty, fuel - 1);
                    self.force_dyn_var = was;
                    let mut args = vec![recv];
                    args.extend(self.call_args(&extra, fuel));
                    Expr::Call(Callee::Method(f, MForm::TraitUfcs), args)
                } else {
                    // `x.m(..)` needs a receiver whose type is known where the call is typed:
                    // an annotated variable / parameter, or a struct literal
                    let known: Vec<VarId> =
                        self.visible().into_iter().filter(|(v, k)| *k && self.var_ty(*v) == &im.for_ty).map(|(v, _)| v).collect();
                    let is_struct = matches!(&im.for_ty, Ty::Adt(a, _) if matches!(self.p.adts[*a].kind, AdtKind::Struct(_)));
                    let (recv, form) = match self.d.below(3) {
                        0 if !known.is_empty() => {
                            self.label("method:inherent-dot");
                            (Expr::Var(known[self.d.below(known.len())]), MForm::Dot)
                        }
                        1 if is_struct => {
                            self.label("method:inherent-dot");
                            self.label("method:dot-on-literal");
                            let Ty::Adt(a, args) = &im.for_ty else { unreachable!() };
                            (self.adt_value(*a, args, false, fuel - 1), MForm::Dot)
                        }
                        _ => {
                            self.label("method:inherent-ufcs");
                            (self.expr(&im.for_ty, fuel - 1), MForm::TypeUfcs)
                        }
                    };
                    let mut args = vec![recv];
                    args.extend(self.call_args(&extra, fuel));
                    Expr::Call(Callee::Method(f, form), args)
                }
            }
            Cand::Generic(f, b) => {
                // the receiver's type arguments: what the result type fixes, the rest chosen here
                let def = self.p.fns[f].clone();
                let im = self.p.impls[def.owner.unwrap_or(0)].clone();
                let targs: Vec<Ty> = b.into_iter().map(|x| x.unwrap_or_else(|| self.ty(1))).collect();
                let recv_ty = im.for_ty.subst(&targs);
                let extra: Vec<Ty> = def.params.iter().skip(1).map(|(_, t)| t.subst(&targs)).collect();
                let known: Vec<VarId> =
                    self.visible().into_iter().filter(|(v, k)| *k && self.var_ty(*v) == &recv_ty).map(|(v, _)| v).collect();
                self.label("method:generic-impl");
                let (recv, form) = if !known.is_empty() && self.d.bool() {
                    self.label("method:inherent-dot");
                    (Expr::Var(known[self.d.below(known.len())]), MForm::Dot)
                } else {
                    self.label("method:inherent-ufcs");
                    (self.expr(&recv_ty, fuel - 1), MForm::TypeUfcs)
                };
                let mut args = vec![recv];
                args.extend(self.call_args(&extra, fuel));
                Expr::Call(Callee::Method(f, form), args)
            }
            Cand::Bound(k, tr, mi) => {
                let sig = self.p.traits[tr].methods[mi].clone();
                let recv = self.param_var(&Ty::Param(k));
                let form = if self.d.bool() {
                    self.label("method:bound-dot");
                    MForm::Dot
                } else {
                    self.label("method:bound-ufcs");
                    MForm::TraitUfcs
                };
                let mut args = vec![recv];
                args.extend(self.call_args(&sig.params, fuel));
                Expr::Call(Callee::Dispatch(tr, mi, form), args)
            }
            Cand::Dyn(v, tr, mi) => {
                let sig = self.p.traits[tr].methods[mi].clone();
                self.label("method:dyn");
                if self.closure_depth > 0 {
                    self.label("method:dyn-in-closure");
                }
                let mut args = vec![Expr::Var(v)];
                args.extend(self.call_args(&sig.params, fuel));
                Expr::Call(Callee::Dispatch(tr, mi, MForm::TraitUfcs), args)
            }
        })
    }

    // -------------------------------------------------------------- helpers

    fn str_lit(&mut self) -> Expr {
        Expr::Str(STRS[self.d.below(STRS.len())].to_string())
    }

    fn int_lit(&mut self, k: IK) -> Expr {
        let v: i128 = match self.d.below(10) {
            0..=5 => self.d.below(8) as i128,
            6 => k.max(),
            7 => k.max() - 1,
            8 => (self.d.below(200) as i128).min(k.max()),
            _ => {
                let r = self.d.u64() as i128;
                r.rem_euclid(k.max() + 1)
            }
        };
        Expr::Int(k, v, k != IK::I32)
    }

    /// a deterministic simplest value (used by show functions to call closures)
    fn const_leaf(&mut self, t: &Ty) -> Expr {
        match t {
            Ty::Unit => Expr::Unit,
            Ty::Bool => Expr::Bool(true),
            Ty::Int(k) => Expr::Int(*k, 1, *k != IK::I32),
            Ty::Float(f) => Expr::Float(*f, 1.5),
            Ty::Str => Expr::Str("s".into()),
            Ty::Tuple(ts) => Expr::Tuple(ts.iter().map(|t| self.const_leaf(t)).collect()),
            Ty::Array(t, n) => Expr::ArrayLit((0..*n).map(|_| self.const_leaf(t)).collect()),
            Ty::Vec(t) => {
                let f = self.mk_vec_fn(t, 0);
                Expr::Call(Callee::Fn(f, vec![]), vec![])
            }
            Ty::Ref(t) => Expr::Call(Callee::Builtin(Builtin::RefNew), vec![self.const_leaf(t)]),
            Ty::Fn(ps, r) if !self.esc_ok => self.fn_ref_value(ps, r),
            Ty::Fn(ps, r) => {
                let saved = self.scope.len();
                let params: Vec<(VarId, Ty)> =
                    ps.iter().map(|t| (self.fresh_named("k", t.clone()), t.clone())).collect();
                let body = self.const_leaf(r);
                self.scope.truncate(saved);
                Expr::Closure(params, Box::new(body))
            }
            Ty::Adt(a, args) => self.adt_value(*a, args, true, 0),
            Ty::Param(_) => self.param_value(t),
            Ty::Dyn(tr) => self.dyn_value(*tr, 0),
        }
    }

    /// a variable of the (parameter) type `t`: receivers of calls through a bound are plain variables
    fn param_var(&mut self, t: &Ty) -> Expr {
        for (v, _) in self.visible() {
            if self.var_ty(v) == t {
                return Expr::Var(v);
            }
        }
        Expr::Unit
    }

    fn param_value(&mut self, t: &Ty) -> Expr {
        // a field / component of that type of a value in scope (`p.first` with `p: Pair[U, T]`), or a variable
        let ps = self.paths(t);
        if ps.iter().any(|e| !matches!(e, Expr::Var(_))) && self.d.chance(140) {
            let fields: Vec<Expr> = ps.into_iter().filter(|e| !matches!(e, Expr::Var(_))).collect();
            self.label("generic-fn:field-of-parameter-type");
            return fields[self.d.below(fields.len())].clone();
        }
        for (v, _) in self.visible() {
            if self.var_ty(v) == t {
                return Expr::Var(v);
            }
        }
        Expr::Unit // unreachable by construction: every T has a parameter of type T
    }

    /// `fn mkN() -> Vec[T] { let v: Vec[T] = vec_new(); let v = vec_push(v, e); ... v }`
    fn mk_vec_fn(&mut self, elem: &Ty, n: usize) -> usize {
        let key = format!("vec:{:?}:{}", elem, n);
        if let Some(f) = self.mk_fns.get(&key) {
            return *f;
        }
        let saved_scope = std::mem::take(&mut self.scope);
        let vt = Ty::Vec(Box::new(elem.clone()));
        let mut stmts = vec![];
        let mut v = self.fresh_named("w", vt.clone());
        stmts.push(Stmt::Let(Pat::Var(v), Some(vt.clone()), Expr::Call(Callee::Builtin(Builtin::VecNew), vec![])));
        for _ in 0..n {
            let e = self.const_leaf(elem);
            let v2 = self.fresh_named("w", vt.clone());
            stmts.push(Stmt::Let(
                Pat::Var(v2),
                None,
                Expr::Call(Callee::Builtin(Builtin::VecPush), vec![Expr::Var(v), e]),
            ));
            v = v2;
        }
        let body = Expr::Block(stmts, Some(Box::new(Expr::Var(v))));
        self.scope = saved_scope;
        let id = self.p.fns.len();
        self.p.fns.push(FnDef { owner: None, bounds: vec![],
            name: format!("mk{}", id),
            tparams: 0,
            params: vec![],
            ret: vt,
            body,
        });
        self.mk_fns.insert(key, id);
        id
    }

    /// a value of ADT type; `simple` = deterministic leaves
    fn adt_value(&mut self, a: usize, args: &[Ty], simple: bool, fuel: i32) -> Expr {
        let def = self.p.adts[a].clone();
        match &def.kind {
            AdtKind::Struct(fields) => {
                let mut order: Vec<u32> = (0..fields.len() as u32).collect();
                if !simple && fields.len() > 1 && self.d.chance(100) && !self.gates.gated("struct-lit:reordered") {
                    // written order differs from declaration order
                    let i = self.d.below(order.len());
                    let j = self.d.below(order.len());
                    if i != j {
                        order.swap(i, j);
                        self.label("struct-lit:reordered");
                    }
                }
                let fs = order
                    .iter()
                    .map(|fi| {
                        let t = fields[*fi as usize].1.subst(args);
                        let e = if simple { self.const_leaf(&t) } else { self.expr(&t, fuel - 1) };
                        (*fi, e)
                    })
                    .collect();
                Expr::StructLit(a, fs)
            }
            AdtKind::Enum(vs) => {
                let vi = if simple { 0 } else { self.d.below(vs.len()) };
                let (_, pts) = &vs[vi];
                // is every type parameter determined by the payload?
                let determined = (0..def.tparams).all(|k| pts.iter().any(|t| mentions_param(t, k)));
                let qual = !simple && self.d.chance(80);
                let payload: Vec<Expr> = pts
                    .iter()
                    .map(|t| {
                        let t = t.subst(args);
                        if simple {
                            self.const_leaf(&t)
                        } else {
                            self.expr(&t, fuel - 1)
                        }
                    })
                    .collect();
                let con = Expr::Con(a, vi as u32, payload, qual);
                if determined || args.iter().any(|t| t.has_param()) {
                    con
                } else {
                    // wrap in a helper with an explicit return type so that
                    // the type arguments are known to the typer
                    self.wrap_typed(con, Ty::Adt(a, args.to_vec()))
                }
            }
        }
    }

    /// `fn mkN(captured...) -> T { e }` is not possible for open terms, so an
    /// identity helper `fn asN(v: T) -> T { v }` pins the type instead.
    fn wrap_typed(&mut self, e: Expr, t: Ty) -> Expr {
        let key = format!("as:{:?}", t);
        let f = if let Some(f) = self.mk_fns.get(&key) {
            *f
        } else {
            let saved_scope = std::mem::take(&mut self.scope);
            let v = self.fresh_named("q", t.clone());
            self.scope = saved_scope;
            let id = self.p.fns.len();
            self.p.fns.push(FnDef { owner: None, bounds: vec![],
                name: format!("as{}", id),
                tparams: 0,
                params: vec![(v, t.clone())],
                ret: t.clone(),
                body: Expr::Var(v),
            });
            self.mk_fns.insert(key, id);
            id
        };
        Expr::Call(Callee::Fn(f, vec![]), vec![e])
    }

    fn tick_fn(&mut self, t: &Ty) -> usize {
        if let Some(f) = self.tick_fns.get(t) {
            return *f;
        }
        let saved_scope = std::mem::take(&mut self.scope);
        let l = self.fresh_named("l", Ty::Str);
        let v = self.fresh_named("v", t.clone());
        self.scope = saved_scope;
        let id = self.p.fns.len();
        self.p.fns.push(FnDef { owner: None, bounds: vec![],
            name: format!("tick{}", id),
            tparams: 0,
            params: vec![(l, Ty::Str), (v, t.clone())],
            ret: t.clone(),
            body: Expr::Block(
                vec![Stmt::Expr(
                    Expr::Call(Callee::Builtin(Builtin::Println), vec![Expr::Var(l)]),
                    false,
                )],
                Some(Box::new(Expr::Var(v))),
            ),
        });
        self.tick_fns.insert(t.clone(), id);
        id
    }

    pub fn tick(&mut self, t: &Ty, inner: Expr) -> Expr {
        self.tick_no += 1;
        self.label("tick");
        let f = self.tick_fn(t);
        Expr::Call(Callee::Fn(f, vec![]), vec![Expr::Str(format!("t{}", self.tick_no)), inner])
    }

    // ---------------------------------------------------------------- show

    pub fn concat(parts: Vec<Expr>) -> Expr {
        let mut it = parts.into_iter();
        let mut acc = it.next().unwrap_or(Expr::Str(String::new()));
        for p in it {
            acc = Expr::Bin(BinOp::Add, Box::new(acc), Box::new(p));
        }
        acc
    }

    /// string-typed expression rendering the value of `e : t`
    pub fn show(&mut self, t: &Ty, e: Expr) -> Expr {
        match t {
            Ty::Unit => Expr::Call(Callee::Builtin(Builtin::UnitToString), vec![e]),
            Ty::Bool => Expr::Call(Callee::Builtin(Builtin::BoolToString), vec![e]),
            Ty::Int(k) => Expr::Call(Callee::Builtin(Builtin::IntToString(*k)), vec![e]),
            Ty::Str => e,
            // float*_to_string prints Go's bad-verb text (KF-45): a float is shown through comparisons
            Ty::Float(f) => {
                let f = *f;
                let v = self.fresh_named("fl", t.clone());
                let cmp = |c: f64| {
                    Expr::Call(
                        Callee::Builtin(Builtin::BoolToString),
                        vec![Expr::Bin(BinOp::Lt, Box::new(Expr::Var(v)), Box::new(Expr::Float(f, c)))],
                    )
                };
                let parts = vec![Expr::Str("f".into()), cmp(0.0), cmp(1.0), cmp(2.5), cmp(8.0)];
                self.scope.pop();
                Expr::Match(Box::new(e), vec![(Pat::Var(v), Self::concat(parts))])
            }
            Ty::Param(_) => Expr::Str("?".into()),
            Ty::Dyn(tr) => {
                // a trait object shows itself through its first method
                let sig = self.p.traits[*tr].methods[0].clone();
                let mut args = vec![e];
                for pt in &sig.params {
                    let a = self.const_leaf(pt);
                    args.push(a);
                }
                let call = Expr::Call(Callee::Dispatch(*tr, 0, MForm::TraitUfcs), args);
                self.label("method:dyn-shown");
                let s = self.show(&sig.ret, call);
                Self::concat(vec![Expr::Str("dyn:".into()), s])
            }
            Ty::Fn(ps, r) if !self.esc_ok => {
                // call it in place (the closure must not be passed around)
                let args: Vec<Expr> = ps.iter().map(|t| self.const_leaf(t)).collect();
                if matches!(e, Expr::Field(..)) {
                    // `x.f(..)` is a method call: a function-typed field is bound to a name first
                    let g = self.fresh_named("g", t.clone());
                    self.scope.pop();
                    let call = Expr::Call(Callee::Val(Box::new(Expr::Var(g))), args);
                    let s = self.show(r, call);
                    return Expr::Match(Box::new(e), vec![(Pat::Var(g), Self::concat(vec![Expr::Str("fn:".into()), s]))]);
                }
                let call = Expr::Call(Callee::Val(Box::new(e)), args);
                let s = self.show(r, call);
                Self::concat(vec![Expr::Str("fn:".into()), s])
            }
            _ => {
                let f = self.show_fn(t);
                Expr::Call(Callee::Fn(f, vec![]), vec![e])
            }
        }
    }

    fn show_fn(&mut self, t: &Ty) -> usize {
        if let Some(f) = self.show_fns.get(t) {
            return *f;
        }
        // reserve the slot first (types are finite trees, no recursion yet)
        let id = self.p.fns.len();
        self.p.fns.push(FnDef { owner: None, bounds: vec![],
            name: format!("show{}", id),
            tparams: 0,
            params: vec![],
            ret: Ty::Str,
            body: Expr::Unit,
        });
        self.show_fns.insert(t.clone(), id);
        let saved_scope = std::mem::take(&mut self.scope);
        let was = self.in_show;
        self.in_show = true;
        let x = self.fresh_named("x", t.clone());
        let body = match t {
            Ty::Tuple(ts) => {
                let mut parts = vec![Expr::Str("(".into())];
                for (i, ti) in ts.iter().enumerate() {
                    if i > 0 {
                        parts.push(Expr::Str(",".into()));
                    }
                    let s = self.show(ti, Expr::Proj(Box::new(Expr::Var(x)), i as u32));
                    parts.push(s);
                }
                parts.push(Expr::Str(")".into()));
                Self::concat(parts)
            }
            Ty::Array(et, n) => {
                let mut parts = vec![Expr::Str("[".into())];
                for i in 0..*n {
                    if i > 0 {
                        parts.push(Expr::Str(",".into()));
                    }
                    let g = Expr::Call(
                        Callee::Builtin(Builtin::ArrayGet),
                        vec![Expr::Var(x), Expr::Int(IK::I32, i as i128, false)],
                    );
                    let s = self.show(et, g);
                    parts.push(s);
                }
                parts.push(Expr::Str("]".into()));
                Self::concat(parts)
            }
            Ty::Ref(et) => {
                let g = Expr::Call(Callee::Builtin(Builtin::RefGet), vec![Expr::Var(x)]);
                let s = self.show(et, g);
                Self::concat(vec![Expr::Str("&".into()), s])
            }
            Ty::Vec(et) => {
                // let i = ref(0); let acc = ref("<"); while ref_get(i) < vec_len(x) { ... }; ref_get(acc) + ">"
                let i = self.fresh_named("i", Ty::Ref(Box::new(Ty::i32())));
                let acc = self.fresh_named("s", Ty::Ref(Box::new(Ty::Str)));
                let rg = |v: VarId| Expr::Call(Callee::Builtin(Builtin::RefGet), vec![Expr::Var(v)]);
                let elem = Expr::Call(Callee::Builtin(Builtin::VecGet), vec![Expr::Var(x), rg(i)]);
                let shown = self.show(et, elem);
                let body = Expr::Block(
                    vec![
                        Stmt::Expr(
                            Expr::Call(
                                Callee::Builtin(Builtin::RefSet),
                                vec![
                                    Expr::Var(acc),
                                    Self::concat(vec![rg(acc), shown, Expr::Str(";".into())]),
                                ],
                            ),
                            false,
                        ),
                        Stmt::Expr(
                            Expr::Call(
                                Callee::Builtin(Builtin::RefSet),
                                vec![
                                    Expr::Var(i),
                                    Expr::Bin(BinOp::Add, Box::new(rg(i)), Box::new(Expr::Int(IK::I32, 1, false))),
                                ],
                            ),
                            false,
                        ),
                    ],
                    None,
                );
                let cond = Expr::Bin(
                    BinOp::Lt,
                    Box::new(rg(i)),
                    Box::new(Expr::Call(Callee::Builtin(Builtin::VecLen), vec![Expr::Var(x)])),
                );
                Expr::Block(
                    vec![
                        Stmt::Let(
                            Pat::Var(i),
                            None,
                            Expr::Call(Callee::Builtin(Builtin::RefNew), vec![Expr::Int(IK::I32, 0, false)]),
                        ),
                        Stmt::Let(
                            Pat::Var(acc),
                            None,
                            Expr::Call(Callee::Builtin(Builtin::RefNew), vec![Expr::Str("<".into())]),
                        ),
                        Stmt::Expr(Expr::While(Box::new(cond), Box::new(body)), false),
                    ],
                    Some(Box::new(Self::concat(vec![rg(acc), Expr::Str(">".into())]))),
                )
            }
            Ty::Fn(ps, r) => {
                let args: Vec<Expr> = ps.iter().map(|t| self.const_leaf(t)).collect();
                let call = Expr::Call(Callee::Val(Box::new(Expr::Var(x))), args);
                let s = self.show(r, call);
                Self::concat(vec![Expr::Str("fn:".into()), s])
            }
            Ty::Adt(a, args) => {
                let def = self.p.adts[*a].clone();
                match &def.kind {
                    AdtKind::Struct(fields) => {
                        let mut parts = vec![Expr::Str(format!("{}{{", def.name))];
                        for (fi, (_, ft)) in fields.iter().enumerate() {
                            if fi > 0 {
                                parts.push(Expr::Str(",".into()));
                            }
                            let ft = ft.subst(args);
                            let s = self.show(&ft, Expr::Field(Box::new(Expr::Var(x)), *a, fi as u32));
                            parts.push(s);
                        }
                        parts.push(Expr::Str("}".into()));
                        Self::concat(parts)
                    }
                    AdtKind::Enum(vs) => {
                        let mut arms = vec![];
                        for (vi, (vn, pts)) in vs.iter().enumerate() {
                            let mut pats = vec![];
                            let mut parts = vec![Expr::Str(format!("{}(", vn))];
                            for (pi, pt) in pts.iter().enumerate() {
                                let pt = pt.subst(args);
                                let pv = self.fresh_named("p", pt.clone());
                                pats.push(Pat::Var(pv));
                                if pi > 0 {
                                    parts.push(Expr::Str(",".into()));
                                }
                                let s = self.show(&pt, Expr::Var(pv));
                                parts.push(s);
                            }
                            parts.push(Expr::Str(")".into()));
                            arms.push((Pat::Con(*a, vi as u32, pats, false), Self::concat(parts)));
                        }
                        Expr::Match(Box::new(Expr::Var(x)), arms)
                    }
                }
            }
            _ => Expr::Str("?".into()),
        };
        self.scope = saved_scope;
        self.in_show = was;
        self.p.fns[id].params = vec![(x, t.clone())];
        self.p.fns[id].body = body;
        id
    }

    // ---------------------------------------------------------- expressions

    fn spend(&mut self) -> bool {
        self.budget -= 1;
        self.p.nodes += 1;
        self.budget > 0
    }

    /// access paths (variables, projections, fields) of type `t`
    fn paths(&self, t: &Ty) -> Vec<Expr> {
        let mut out = vec![];
        for (v, known) in self.visible() {
            let vt = self.var_ty(v).clone();
            if !self.esc_ok && self.closure_vars.contains(&v) {
                // a closure value must not flow anywhere (KF-05): only called in place
                continue;
            }
            if &vt == t {
                out.push(Expr::Var(v));
            }
            match &vt {
                Ty::Tuple(ts) if known => {
                    for (i, ti) in ts.iter().enumerate() {
                        if ti == t {
                            out.push(Expr::Proj(Box::new(Expr::Var(v)), i as u32));
                        }
                    }
                }
                Ty::Adt(a, args) => {
                    if let AdtKind::Struct(fields) = &self.p.adts[*a].kind {
                        for (fi, (_, ft)) in fields.iter().enumerate() {
                            if &ft.subst(args) == t {
                                out.push(Expr::Field(Box::new(Expr::Var(v)), *a, fi as u32));
                            }
                        }
                    }
                }
                _ => {}
            }
        }
        out
    }

    fn leaf(&mut self, t: &Ty) -> Expr {
        self.spend();
        // prefer an existing value half of the time
        let ps = self.paths(t);
        if !ps.is_empty() && (self.d.bool() || matches!(t, Ty::Param(_))) {
            let i = self.d.below(ps.len());
            return ps[i].clone();
        }
        match t {
            Ty::Unit => Expr::Unit,
            Ty::Bool => Expr::Bool(self.d.bool()),
            Ty::Int(k) => self.int_lit(*k),
            Ty::Float(f) => {
                const FL: [f64; 10] = [0.0, 0.5, 1.0, 1.5, 2.0, 2.25, 3.0, 4.0, 0.125, 8.0];
                Expr::Float(*f, FL[self.d.below(FL.len())])
            }
            Ty::Str => self.str_lit(),
            Ty::Tuple(ts) => Expr::Tuple(ts.iter().map(|t| self.leaf(t)).collect()),
            Ty::Array(et, n) => Expr::ArrayLit((0..*n).map(|_| self.leaf(et)).collect()),
            Ty::Vec(et) => {
                let n = self.d.below(3);
                if et.has_param() {
                    return self.param_value(t);
                }
                let f = self.mk_vec_fn(et, n);
                self.label("vec");
                Expr::Call(Callee::Fn(f, vec![]), vec![])
            }
            Ty::Ref(et) => {
                self.label("ref");
                Expr::Call(Callee::Builtin(Builtin::RefNew), vec![self.leaf(et)])
            }
            Ty::Fn(ps, r) => self.closure(ps, r, 0, false),
            Ty::Adt(a, args) => self.adt_value(*a, args, false, 0),
            Ty::Param(_) => self.param_value(t),
            Ty::Dyn(tr) => self.dyn_value(*tr, 0),
        }
    }

    /// a plain function value (reference to a monomorphic top-level function,
    /// created on demand) of type (ps) -> r
    fn fn_ref_value(&mut self, ps: &[Ty], r: &Ty) -> Expr {
        if ps.iter().any(|t| t.has_param()) || r.has_param() {
            let t = Ty::Fn(ps.to_vec(), Box::new(r.clone()));
            return self.param_value(&t);
        }
        let cands: Vec<usize> = self
            .callable
            .iter()
            .copied()
            .filter(|f| {
                let d = &self.p.fns[*f];
                d.tparams == 0
                    && self.fn_nameable(*f)
                    && !self.closure_ret_fns.contains(f)
                    && &d.ret == r
                    && d.params.len() == ps.len()
                    && d.params.iter().zip(ps).all(|((_, a), b)| a == b)
            })
            .collect();
        if !cands.is_empty() && self.d.chance(128) {
            self.label("fn-as-value");
            return Expr::FnRef(cands[self.d.below(cands.len())]);
        }
        let key = format!("fv:{:?}->{:?}", ps, r);
        let f = if let Some(f) = self.mk_fns.get(&key) {
            *f
        } else {
            let saved_scope = std::mem::take(&mut self.scope);
            let params: Vec<(VarId, Ty)> = ps.iter().map(|t| (self.fresh_named("k", t.clone()), t.clone())).collect();
            let body = self.const_leaf(r);
            self.scope = saved_scope;
            let id = self.p.fns.len();
            self.p.fns.push(FnDef { owner: None, bounds: vec![],
                name: format!("fv{}", id),
                tparams: 0,
                params,
                ret: r.clone(),
                body,
            });
            self.mk_fns.insert(key, id);
            id
        };
        self.label("fn-as-value");
        Expr::FnRef(f)
    }

    /// a value of function type: closure literal or function reference.
    /// `literal_ok` = the position keeps a closure usable while KF-05 is open
    /// (let-bound and called locally, or the direct result of a function)
    fn closure(&mut self, ps: &[Ty], r: &Ty, fuel: i32, literal_ok: bool) -> Expr {
        if !self.esc_ok && !literal_ok {
            return self.fn_ref_value(ps, r);
        }
        // a monomorphic top-level function of exactly this type?
        let cands: Vec<usize> = self
            .callable
            .iter()
            .copied()
            .filter(|f| {
                let d = &self.p.fns[*f];
                d.tparams == 0
                    && self.fn_nameable(*f)
                    && &d.ret == r
                    && d.params.len() == ps.len()
                    && d.params.iter().zip(ps).all(|((_, a), b)| a == b)
            })
            .collect();
        if !cands.is_empty() && self.d.chance(90) && !self.gates.gated("fn-as-value") {
            self.label("fn-as-value");
            return Expr::FnRef(cands[self.d.below(cands.len())]);
        }
        self.label("closure");
        let saved = self.scope.len();
        let before: HashSet<VarId> = self.visible().into_iter().map(|(v, _)| v).collect();
        let mut taken = vec![];
        let params: Vec<(VarId, Ty)> = ps.iter().map(|t| (self.new_param(t.clone(), &mut taken), t.clone())).collect();
        // (KF-05) inside a closure body a closure-returning function still has its
        // declared func result type: not called from closure bodies while that is open
        let saved_callable = self.callable.clone();
        let saved_user = self.user_fns.clone();
        if !self.esc_ok {
            let crf = self.closure_ret_fns.clone();
            self.callable.retain(|f| !crf.contains(f));
            self.user_fns.retain(|f| !crf.contains(f));
        }
        self.closure_depth += 1;
        // a body that is nothing but a method call: the receiver (a captured trait object, a value of a
        // bounded type parameter, a captured value) may then be used by the closure in no other way
        let only_call = if self.cfg.traits && self.d.chance(60) { self.method_calls(r, fuel.max(2) - 1) } else { None };
        let body = match only_call {
            Some(e) => {
                self.label("closure:body-is-method-call");
                e
            }
            None if fuel > 1 && self.d.chance(100) => self.block(r, fuel - 1),
            None => self.expr(r, fuel - 1),
        };
        self.closure_depth -= 1;
        self.callable = saved_callable;
        self.user_fns = saved_user;
        self.scope.truncate(saved);
        if uses_any(&body, &before) {
            self.label("closure:capture");
            let dyns: HashSet<VarId> = before.iter().copied().filter(|v| matches!(self.var_ty(*v), Ty::Dyn(_))).collect();
            if uses_any(&body, &dyns) {
                self.label("closure:captures-dyn");
            }
        }
        Expr::Closure(params, Box::new(body))
    }

    fn call_args(&mut self, ps: &[Ty], fuel: i32) -> Vec<Expr> {
        ps.iter().map(|t| self.expr(t, fuel - 1)).collect()
    }

    /// calls of top-level functions whose result type is `t`
    fn fn_calls(&mut self, t: &Ty, fuel: i32) -> Option<Expr> {
        let mut cands: Vec<(usize, Vec<Option<Ty>>)> = vec![];
        for f in self.callable.clone() {
            if !self.fn_nameable(f) {
                continue;
            }
            let d = &self.p.fns[f];
            let mut b = vec![None; d.tparams as usize];
            if match_ty(&d.ret, t, &mut b) {
                cands.push((f, b));
            }
        }
        if cands.is_empty() {
            return None;
        }
        // a bounded type parameter can only be bound to an implementing type
        cands.retain(|(f, b)| {
            b.iter().enumerate().all(|(k, x)| match (x, self.p.fns[*f].bounds.get(k)) {
                (Some(t), Some(bs)) if !bs.is_empty() => self.p.implements(t, bs),
                _ => true,
            })
        });
        if cands.is_empty() {
            return None;
        }
        let (f, b) = cands[self.d.below(cands.len())].clone();
        let targs: Vec<Ty> = b
            .into_iter()
            .enumerate()
            .map(|(k, x)| x.unwrap_or_else(|| self.targ_for(f, k, 1)))
            .collect();
        let ps: Vec<Ty> = self.p.fns[f].params.iter().map(|(_, t)| t.subst(&targs)).collect();
        if !targs.is_empty() {
            self.label("generic-call");
            if targs.iter().any(|t| !matches!(t, Ty::Int(_) | Ty::Bool | Ty::Str | Ty::Unit)) {
                self.label("generic-call:composite");
            }
        } else {
            self.label("call");
        }
        let was = self.force_dyn_var;
        if targs.iter().any(|t| matches!(t, Ty::Dyn(_))) {
            self.force_dyn_var = true;
        }
        let args = self.call_args(&ps, fuel);
        self.force_dyn_var = was;
        Some(Expr::Call(Callee::Fn(f, targs), args))
    }

    /// a type argument for parameter `k` of the generic function `f`
    fn targ_for(&mut self, f: usize, k: usize, depth: u32) -> Ty {
        let bs = self.p.fns[f].bounds.get(k).cloned().unwrap_or_default();
        if bs.is_empty() {
            return self.ty(depth);
        }
        let mut c = self.implementors(&bs);
        // T = dyn Tr is inferred from an argument that is a variable of that type; the function's
        // signature then must mention T only as the type of whole parameters
        let def = &self.p.fns[f];
        let plain = !def.ret.has_param() && def.params.iter().all(|(_, t)| !t.has_param() || matches!(t, Ty::Param(_)));
        let visible: Vec<Ty> = self.visible().iter().map(|(v, _)| self.var_ty(*v).clone()).collect();
        c.retain(|t| !matches!(t, Ty::Dyn(_)) || (plain && visible.contains(t)));
        self.label("generic-call:bounded");
        let dyns: Vec<Ty> = c.iter().filter(|t| matches!(t, Ty::Dyn(_))).cloned().collect();
        let t = if self.prefer_dyn_targ && !dyns.is_empty() { dyns[self.d.below(dyns.len())].clone() } else { c[self.d.below(c.len())].clone() };
        if matches!(t, Ty::Dyn(_)) {
            self.label("generic-call:at-dyn-type");
        }
        t
    }

    /// calls of function values in scope returning `t`
    fn val_calls(&mut self, t: &Ty, fuel: i32) -> Option<Expr> {
        let mut cands = vec![];
        for (v, _) in self.visible() {
            if let Ty::Fn(ps, r) = self.var_ty(v).clone() {
                if &*r == t {
                    cands.push((v, ps));
                }
            }
        }
        if cands.is_empty() {
            return None;
        }
        let (v, ps) = cands[self.d.below(cands.len())].clone();
        self.label("closure:call");
        let args = self.call_args(&ps, fuel);
        Some(Expr::Call(Callee::Val(Box::new(Expr::Var(v))), args))
    }

    fn cmp_expr(&mut self, fuel: i32) -> Expr {
        let k = if self.cfg.strings && self.d.chance(40) { None } else { Some(self.int_kind()) };
        let t = if self.cfg.floats && self.d.chance(30) {
            Ty::Float(self.d.bool())
        } else {
            match k {
                Some(k) => Ty::Int(k),
                None => Ty::Str,
            }
        };
        let op = *[BinOp::Lt, BinOp::Gt, BinOp::Le, BinOp::Ge, BinOp::Eq, BinOp::Ne]
            .get(self.d.below(6))
            .unwrap();
        let a = self.expr(&t, fuel - 1);
        let b = self.expr(&t, fuel - 1);
        Expr::Bin(op, Box::new(a), Box::new(b))
    }

    fn has_effect_hint(e: &Expr) -> bool {
        matches!(e, Expr::Call(Callee::Fn(..), _) | Expr::Call(Callee::Val(..), _))
    }

    pub fn expr(&mut self, t: &Ty, fuel: i32) -> Expr {
        if fuel <= 0 || !self.spend() {
            return self.leaf(t);
        }
        if let Ty::Dyn(tr) = t {
            return self.dyn_value(*tr, fuel);
        }
        if matches!(t, Ty::Param(_)) {
            // opaque: a parameter, possibly through a (generic) call or branch
            return match self.d.below(4) {
                0 => {
                    let c = self.expr(&Ty::Bool, fuel - 1);
                    let a = self.expr(t, fuel - 2);
                    let b = self.expr(t, fuel - 2);
                    Expr::If(Box::new(c), Box::new(a), Box::new(b))
                }
                1 => self.fn_calls(t, fuel).unwrap_or_else(|| self.param_value(t)),
                _ => self.param_value(t),
            };
        }
        let effects = self.cfg.focus == Focus::Effects;
        let w = [
            10,                                                        // 0 leaf / path
            if self.cfg.ticks && !t.has_param() { if effects { 30 } else { 10 } } else { 0 }, // 1 tick
            10,                                                        // 2 if
            10,                                                        // 3 match
            14,                                                        // 4 fn call
            if self.cfg.closures { 12 } else { 0 },                    // 5 closure value call
            30,                                                        // 6 type-specific construction
            if self.cfg.traits { if self.cfg.focus == Focus::Traits { 45 } else { 14 } } else { 0 }, // 7 method call
        ];
        match self.d.weighted(&w) {
            7 => match self.method_calls(t, fuel) {
                Some(e) => e,
                None => self.specific(t, fuel),
            },
            0 => self.leaf(t),
            1 => {
                let inner = self.expr(t, fuel - 1);
                self.tick(t, inner)
            }
            2 => {
                self.label("if");
                let c = self.expr(&Ty::Bool, fuel - 1);
                let a = self.branch(t, fuel - 1);
                let b = self.branch(t, fuel - 1);
                Expr::If(Box::new(c), Box::new(a), Box::new(b))
            }
            3 => self.match_expr(t, fuel),
            4 => match self.fn_calls(t, fuel) {
                Some(e) => e,
                None => self.specific(t, fuel),
            },
            5 => match self.val_calls(t, fuel) {
                Some(e) => e,
                None => self.specific(t, fuel),
            },
            _ => self.specific(t, fuel),
        }
    }

    /// branch of an if / match arm / closure body: an expression or a block
    fn branch(&mut self, t: &Ty, fuel: i32) -> Expr {
        if fuel > 1 && self.d.chance(if self.cfg.focus == Focus::Scopes { 160 } else { 70 }) {
            self.block(t, fuel)
        } else {
            self.expr(t, fuel)
        }
    }

    fn specific(&mut self, t: &Ty, fuel: i32) -> Expr {
        match t {
            Ty::Unit => {
                // an effect
                match self.d.below(3) {
                    0 if self.cfg.ticks => {
                        self.tick_no += 1;
                        self.label("tick");
                        Expr::Call(
                            Callee::Builtin(Builtin::Println),
                            vec![Expr::Str(format!("u{}", self.tick_no))],
                        )
                    }
                    1 => self.ref_set().unwrap_or(Expr::Unit),
                    _ => Expr::Unit,
                }
            }
            Ty::Bool => match self.d.below(6) {
                5 => {
                    // `x != 0 && n / x > k` / `x == 0 || n / x > k`: the right operand is a
                    // call-free operator tree that must only be evaluated behind its guard
                    let xs: Vec<Expr> = self.paths(&Ty::i32()).into_iter().filter(|e| matches!(e, Expr::Var(_))).collect();
                    if xs.is_empty() {
                        return self.cmp_expr(fuel);
                    }
                    let x = xs[self.d.below(xs.len())].clone();
                    let n = self.leaf(&Ty::i32());
                    let k = Expr::Int(IK::I32, self.d.below(4) as i128, false);
                    let zero = Expr::Int(IK::I32, 0, false);
                    let cmp = *[BinOp::Gt, BinOp::Lt, BinOp::Eq].get(self.d.below(3)).unwrap();
                    let rhs = Expr::Bin(cmp, Box::new(Expr::Bin(BinOp::Div, Box::new(n), Box::new(x.clone()))), Box::new(k));
                    self.label("andor:guarded-div");
                    if self.d.bool() {
                        Expr::Bin(BinOp::And, Box::new(Expr::Bin(BinOp::Ne, Box::new(x), Box::new(zero))), Box::new(rhs))
                    } else {
                        Expr::Bin(BinOp::Or, Box::new(Expr::Bin(BinOp::Eq, Box::new(x), Box::new(zero))), Box::new(rhs))
                    }
                }
                0 | 1 => self.cmp_expr(fuel),
                2 => {
                    let a = self.expr(&Ty::Bool, fuel - 1);
                    Expr::Un(UnOp::Not, Box::new(a))
                }
                _ => {
                    let op = if self.d.bool() { BinOp::And } else { BinOp::Or };
                    let a = self.expr(&Ty::Bool, fuel - 1);
                    let mut b = self.expr(&Ty::Bool, fuel - 1);
                    if Self::has_effect_hint(&b) || contains_call(&b) {
                        if self.gates.gated("andor:rhs-effect") {
                            b = Expr::Bool(self.d.bool());
                        } else {
                            self.label("andor:rhs-effect");
                        }
                    }
                    Expr::Bin(op, Box::new(a), Box::new(b))
                }
            },
            Ty::Int(k) => {
                let k = *k;
                match self.d.below(8) {
                    0..=3 => {
                        let op = *[BinOp::Add, BinOp::Sub, BinOp::Mul].get(self.d.below(3)).unwrap();
                        let a = self.expr(t, fuel - 1);
                        let b = self.expr(t, fuel - 1);
                        if is_literal(&a) && is_literal(&b) && self.gates.gated("const:both-literal") {
                            return a;
                        }
                        Expr::Bin(op, Box::new(a), Box::new(b))
                    }
                    4 => {
                        let a = self.expr(t, fuel - 1);
                        let b = if self.cfg.fails && self.d.chance(60) && !self.gates.gated("div:maybe-zero") {
                            self.label("div:maybe-zero");
                            self.expr(t, fuel - 1)
                        } else {
                            let v = 1 + self.d.below(5) as i128;
                            Expr::Int(k, v.min(k.max()), k != IK::I32)
                        };
                        if is_literal(&a) && is_literal(&b) && self.gates.gated("const:both-literal") {
                            return a;
                        }
                        if is_zero_literal(&b) && self.gates.gated("const:div-zero") {
                            return a;
                        }
                        Expr::Bin(BinOp::Div, Box::new(a), Box::new(b))
                    }
                    5 if k.signed() => {
                        let a = self.expr(t, fuel - 1);
                        if is_literal(&a) && self.gates.gated("neg:literal") {
                            return a;
                        }
                        Expr::Un(UnOp::Neg, Box::new(a))
                    }
                    6 if k == IK::I32 && self.cfg.strings => {
                        let s = self.expr(&Ty::Str, fuel - 1);
                        Expr::Call(Callee::Builtin(Builtin::StringLen), vec![s])
                    }
                    _ => self.container_read(t, fuel).unwrap_or_else(|| self.leaf(t)),
                }
            }
            Ty::Float(f) => {
                self.label("float");
                match self.d.below(5) {
                    0 if self.d.bool() => {
                        let a = self.expr(t, fuel - 1);
                        Expr::Un(UnOp::Neg, Box::new(a))
                    }
                    _ => {
                        let op = *[BinOp::Add, BinOp::Sub, BinOp::Mul].get(self.d.below(3)).unwrap();
                        let a = self.expr(t, fuel - 1);
                        let b = self.expr(t, fuel - 1);
                        // two literals would be folded by Go as exact constants (see KF-19)
                        if matches!(a, Expr::Float(..)) && matches!(b, Expr::Float(..)) && self.gates.gated("const:both-literal") {
                            return a;
                        }
                        let _ = f;
                        Expr::Bin(op, Box::new(a), Box::new(b))
                    }
                }
            }
            Ty::Str => match self.d.below(5) {
                4 => {
                    // string_get(s, i): one ASCII character; fails when i is out of range
                    let ascii: Vec<&str> = STRS.iter().copied().filter(|x| x.is_ascii() && !x.is_empty()).collect();
                    let lit = ascii[self.d.below(ascii.len())];
                    let idx = if self.cfg.fails && !self.gates.gated("index:maybe-oob") && self.d.chance(90) {
                        self.label("index:maybe-oob");
                        self.expr(&Ty::i32(), fuel - 1)
                    } else {
                        Expr::Int(IK::I32, self.d.below(lit.len()) as i128, false)
                    };
                    self.label("string_get");
                    Expr::Call(Callee::Builtin(Builtin::StringGet), vec![Expr::Str(lit.to_string()), idx])
                }
                0 | 1 => {
                    let a = self.expr(&Ty::Str, fuel - 1);
                    let b = self.expr(&Ty::Str, fuel - 1);
                    Expr::Bin(BinOp::Add, Box::new(a), Box::new(b))
                }
                2 => {
                    let k = self.int_kind();
                    let a = self.expr(&Ty::Int(k), fuel - 1);
                    Expr::Call(Callee::Builtin(Builtin::IntToString(k)), vec![a])
                }
                _ => self.container_read(t, fuel).unwrap_or_else(|| self.leaf(t)),
            },
            Ty::Tuple(ts) => Expr::Tuple(ts.iter().map(|t| self.expr(t, fuel - 1)).collect()),
            Ty::Array(et, n) => {
                if self.d.chance(60) {
                    // array_set(arr, i, v)
                    self.label("array");
                    // the array argument's type must be known when the call is
                    // typed (a variable, literal or call), see KF array_set
                    let mut arr = self.expr(t, fuel - 1);
                    if matches!(arr, Expr::If(..) | Expr::Match(..)) {
                        if self.gates.gated("array_set:inferred-arg") {
                            arr = self.leaf(t);
                        } else {
                            self.label("array_set:inferred-arg");
                        }
                    }
                    let idx = self.index_expr(*n, fuel);
                    let v = self.expr(et, fuel - 1);
                    Expr::Call(Callee::Builtin(Builtin::ArraySet), vec![arr, idx, v])
                } else {
                    self.label("array");
                    Expr::ArrayLit((0..*n).map(|_| self.expr(et, fuel - 1)).collect())
                }
            }
            Ty::Vec(_) => self.leaf(t),
            Ty::Ref(et) => {
                self.label("ref");
                let v = self.expr(et, fuel - 1);
                Expr::Call(Callee::Builtin(Builtin::RefNew), vec![v])
            }
            Ty::Fn(ps, r) => self.closure(ps, r, fuel, false),
            Ty::Adt(a, args) => self.adt_value(*a, args, false, fuel),
            Ty::Param(_) => self.param_value(t),
            Ty::Dyn(tr) => self.dyn_value(*tr, fuel),
        }
    }

    fn index_expr(&mut self, n: u32, fuel: i32) -> Expr {
        if self.cfg.fails && self.d.chance(40) && !self.gates.gated("index:maybe-oob") {
            self.label("index:maybe-oob");
            self.expr(&Ty::i32(), fuel - 1)
        } else {
            Expr::Int(IK::I32, self.d.below(n.max(1) as usize) as i128, false)
        }
    }

    /// array_get / vec_get / ref_get producing `t` from something in scope
    fn container_read(&mut self, t: &Ty, fuel: i32) -> Option<Expr> {
        let mut cands = vec![];
        for (v, _) in self.visible() {
            match self.var_ty(v).clone() {
                Ty::Array(et, n) if &*et == t => cands.push((v, 0, n)),
                Ty::Vec(et) if &*et == t => cands.push((v, 1, 0)),
                Ty::Ref(et) if &*et == t => cands.push((v, 2, 0)),
                _ => {}
            }
        }
        if cands.is_empty() {
            return None;
        }
        let (v, kind, n) = cands[self.d.below(cands.len())];
        Some(match kind {
            0 => {
                self.label("array");
                let idx = self.index_expr(n, fuel);
                Expr::Call(Callee::Builtin(Builtin::ArrayGet), vec![Expr::Var(v), idx])
            }
            1 => {
                if !self.cfg.fails || self.gates.gated("index:maybe-oob") {
                    return None;
                }
                self.label("vec");
                self.label("index:maybe-oob");
                let idx = Expr::Int(IK::I32, self.d.below(3) as i128, false);
                Expr::Call(Callee::Builtin(Builtin::VecGet), vec![Expr::Var(v), idx])
            }
            _ => {
                self.label("ref");
                Expr::Call(Callee::Builtin(Builtin::RefGet), vec![Expr::Var(v)])
            }
        })
    }

    fn ref_set(&mut self) -> Option<Expr> {
        let mut cands = vec![];
        for (v, _) in self.visible() {
            if let Ty::Ref(et) = self.var_ty(v).clone() {
                if !et.has_param() && !self.counters.contains(&v) {
                    cands.push((v, *et));
                }
            }
        }
        if cands.is_empty() {
            return None;
        }
        let (v, et) = cands[self.d.below(cands.len())].clone();
        self.label("ref:set");
        let val = self.expr(&et, 2);
        Some(Expr::Call(Callee::Builtin(Builtin::RefSet), vec![Expr::Var(v), val]))
    }

    // -------------------------------------------------------------- matches

    /// a pattern for values of type `t`; binds variables (pushed on the scope)
    /// a pattern variable whose spelling is new within the current pattern
    fn pat_var(&mut self, t: &Ty) -> Pat {
        let v = self.new_var(t.clone(), false);
        let s = self.p.vars[v as usize].spelling.clone();
        if self.pat_names.contains(&s) {
            self.scope.pop();
            self.p.vars.pop();
            return Pat::Wild;
        }
        self.pat_names.push(s);
        Pat::Var(v)
    }

    fn pattern(&mut self, t: &Ty, depth: u32, refutable: bool) -> Pat {
        self.pat_names.clear();
        self.pattern_in(t, depth, refutable)
    }

    fn pattern_in(&mut self, t: &Ty, depth: u32, refutable: bool) -> Pat {
        let bind_w = 40;
        match t {
            _ if depth == 0 || self.d.chance(bind_w) => {
                if self.d.chance(90) {
                    Pat::Wild
                } else {
                    self.pat_var(t)
                }
            }
            Ty::Unit => Pat::Unit,
            Ty::Bool if refutable => Pat::Bool(self.d.bool()),
            Ty::Int(k) if refutable => Pat::Int(*k, self.d.below(4) as i128),
            Ty::Str if refutable => Pat::Str(STRS[self.d.below(3)].to_string()),
            Ty::Tuple(ts) => Pat::Tuple(ts.iter().map(|t| self.pattern_in(t, depth - 1, refutable)).collect()),
            Ty::Adt(a, args) => {
                let def = self.p.adts[*a].clone();
                match &def.kind {
                    AdtKind::Struct(fields) => {
                        let mut fs = vec![];
                        for (fi, (_, ft)) in fields.iter().enumerate() {
                            let ft = ft.subst(args);
                            fs.push((fi as u32, self.pattern_in(&ft, depth - 1, refutable)));
                        }
                        // fields are matched by name; the written order is free
                        match self.d.below(3) {
                            0 => fs.reverse(),
                            1 if fs.len() > 1 => fs.rotate_left(1),
                            _ => {}
                        }
                        Pat::Struct(*a, fs)
                    }
                    AdtKind::Enum(vs) if refutable => {
                        let vi = self.d.below(vs.len());
                        let ps = vs[vi]
                            .1
                            .iter()
                            .map(|t| {
                                let t = t.subst(args);
                                self.pattern_in(&t, depth - 1, refutable)
                            })
                            .collect();
                        Pat::Con(*a, vi as u32, ps, self.d.chance(60))
                    }
                    _ => Pat::Wild,
                }
            }
            _ => {
                if self.d.bool() {
                    Pat::Wild
                } else {
                    self.pat_var(t)
                }
            }
        }
    }

    fn scrutinee_ty(&mut self) -> Ty {
        let mut opts = vec![Ty::Bool, Ty::i32(), Ty::Tuple(vec![Ty::i32(), Ty::Bool])];
        if self.cfg.strings {
            opts.push(Ty::Str);
        }
        for (i, a) in self.p.adts.iter().enumerate() {
            if a.tparams == 0 {
                opts.push(Ty::Adt(i, vec![]));
            } else {
                opts.push(Ty::Adt(i, (0..a.tparams).map(|_| Ty::i32()).collect()));
            }
        }
        // a variable's type is a good scrutinee too
        for (v, _) in self.visible().into_iter().take(3) {
            let t = self.var_ty(v).clone();
            if !t.has_fn() && !t.has_param() && !matches!(t, Ty::Vec(_) | Ty::Ref(_) | Ty::Array(..)) {
                opts.push(t);
            }
        }
        opts[self.d.below(opts.len())].clone()
    }

    fn match_expr(&mut self, t: &Ty, fuel: i32) -> Expr {
        self.label("match");
        let st = self.scrutinee_ty();
        let mut s = self.expr(&st, fuel - 1);
        if let Expr::Var(v) = &s {
            if self.active_scrutinees.contains(v) {
                // `match z { K => match z { .. } }`: the Go type switch rebinds z (KF-32)
                if self.gates.gated("match:nested-same-scrutinee") {
                    s = self.const_leaf(&st);
                } else {
                    self.label("match:nested-same-scrutinee");
                }
            }
        }
        let pushed = if let (Expr::Var(v), Ty::Adt(a, _)) = (&s, &st) {
            if matches!(self.p.adts[*a].kind, AdtKind::Enum(_)) {
                self.active_scrutinees.push(*v);
                true
            } else {
                false
            }
        } else {
            false
        };
        let n = 1 + self.d.below(3);
        let mut arms = vec![];
        for _ in 0..n {
            let saved = self.scope.len();
            let p = self.pattern(&st, 2, true);
            let b = self.branch(t, fuel - 1);
            self.scope.truncate(saved);
            arms.push((p, b));
        }
        // exhaustiveness: close with a catch-all unless the gate for
        // non-exhaustive matches is open and chosen
        let open = self.cfg.fails && self.d.chance(20) && !self.gates.gated("match:nonexhaustive");
        if open {
            self.label("match:nonexhaustive");
        } else {
            let saved = self.scope.len();
            let p = if self.d.bool() {
                Pat::Wild
            } else {
                Pat::Var(self.new_var(st.clone(), false))
            };
            let b = self.branch(t, fuel - 1);
            self.scope.truncate(saved);
            arms.push((p, b));
        }
        if pushed {
            self.active_scrutinees.pop();
        }
        match &st {
            Ty::Adt(..) => self.label("match:adt"),
            Ty::Tuple(_) => self.label("match:tuple"),
            Ty::Str => self.label("match:string"),
            _ => self.label("match:prim"),
        }
        Expr::Match(Box::new(s), arms)
    }

    // --------------------------------------------------------------- blocks

    fn needs_annotation(&self, t: &Ty, rhs: &Expr) -> bool {
        fn wide(t: &Ty) -> bool {
            match t {
                Ty::Int(k) => *k != IK::I32,
                Ty::Tuple(ts) => ts.iter().any(wide),
                Ty::Array(t, _) | Ty::Vec(t) | Ty::Ref(t) => wide(t),
                Ty::Fn(ps, r) => ps.iter().any(wide) || wide(r),
                Ty::Adt(_, a) => !a.is_empty(),
                _ => false,
            }
        }
        wide(t) || matches!(t, Ty::Vec(_)) || matches!(rhs, Expr::Call(Callee::Fn(_, targs), _) if !targs.is_empty())
    }

    fn while_loop(&mut self, fuel: i32) -> Vec<Stmt> {
        // let i = ref(0); while ref_get(i) < N { body; ref_set(i, ref_get(i) + 1) }
        self.label("while");
        let i = self.fresh_named("i", Ty::Ref(Box::new(Ty::i32())));
        self.counters.insert(i);
        let n = self.d.below(4) as i128;
        let rg = Expr::Call(Callee::Builtin(Builtin::RefGet), vec![Expr::Var(i)]);
        let mut cond = Expr::Bin(BinOp::Lt, Box::new(rg.clone()), Box::new(Expr::Int(IK::I32, n, false)));
        if self.cfg.ticks && self.d.chance(100) {
            cond = self.tick(&Ty::Bool, cond);
            self.label("while:cond-effect");
            // `effect && flag` / `flag && effect` / `effect || flag`: the effectful operand is evaluated
            // (or not) before every iteration exactly as the operator says, whatever the flag is
            if self.d.chance(90) {
                let flags: Vec<Expr> = self.paths(&Ty::Bool).into_iter().filter(|e| matches!(e, Expr::Var(_))).collect();
                let flag = if !flags.is_empty() && self.d.bool() { flags[self.d.below(flags.len())].clone() } else { Expr::Bool(self.d.bool()) };
                self.label("while:cond-andor");
                cond = match self.d.below(3) {
                    0 => Expr::Bin(BinOp::And, Box::new(cond), Box::new(flag)),
                    1 => Expr::Bin(BinOp::And, Box::new(flag), Box::new(cond)),
                    // (`cond || true` would never end)
                    _ => Expr::Bin(BinOp::Or, Box::new(Expr::Bool(false)), Box::new(cond)),
                };
            }
        }
        let saved = self.scope.len();
        let mut body = vec![];
        let k = self.d.below(3);
        for _ in 0..k {
            let s = self.stmt(fuel - 1);
            body.extend(s);
        }
        // the counter is advanced last, or first with the body ending in a bare unit-typed
        // expression (an effect in the tail position of the loop body)
        let tail = if self.d.chance(70) {
            self.label("while:tail-expr");
            // a unit-returning method call (static, through a bound, on a trait object) when there is one
            let m = if self.cfg.traits && self.d.chance(200) { self.method_calls(&Ty::Unit, fuel - 1) } else { None };
            if m.is_some() {
                self.label("while:tail-method-call");
            }
            Some(Box::new(match m {
                Some(e) => e,
                None => self.expr(&Ty::Unit, fuel - 1),
            }))
        } else {
            None
        };
        self.scope.truncate(saved);
        let inc = Stmt::Expr(
            Expr::Call(
                Callee::Builtin(Builtin::RefSet),
                vec![
                    Expr::Var(i),
                    Expr::Bin(BinOp::Add, Box::new(rg), Box::new(Expr::Int(IK::I32, 1, false))),
                ],
            ),
            self.d.bool(),
        );
        if tail.is_some() {
            body.insert(0, inc);
        } else {
            body.push(inc);
        }
        vec![
            Stmt::Let(
                Pat::Var(i),
                None,
                Expr::Call(Callee::Builtin(Builtin::RefNew), vec![Expr::Int(IK::I32, 0, false)]),
            ),
            Stmt::Expr(Expr::While(Box::new(cond), Box::new(Expr::Block(body, tail))), self.d.bool()),
        ]
    }

    /// `let x = f(args);` for a generated function (type arguments chosen here)
    fn let_fn_call(&mut self, fuel: i32) -> Option<Vec<Stmt>> {
        // every generated function (also those that are only called from here:
        // closure-returning, phantom-result and polymorphically recursive ones)
        let cands: Vec<usize> = self.user_fns.iter().copied().filter(|f| self.fn_nameable(*f)).collect();
        if cands.is_empty() {
            return None;
        }
        let f = cands[self.d.below(cands.len())];
        self.let_call_of(f, fuel)
    }

    fn let_call_of(&mut self, f: usize, fuel: i32) -> Option<Vec<Stmt>> {
        let n = self.p.fns[f].tparams;
        let targs: Vec<Ty> = (0..n)
            .map(|k| self.targ_for(f, k as usize, if self.cfg.focus == Focus::Generics { 2 } else { 1 }))
            .collect();
        if !targs.is_empty() {
            self.label("generic-call");
            if targs.iter().any(|t| !matches!(t, Ty::Int(_) | Ty::Bool | Ty::Str | Ty::Unit)) {
                self.label("generic-call:composite");
            }
        } else {
            self.label("call");
        }
        let ps: Vec<Ty> = self.p.fns[f].params.iter().map(|(_, t)| t.subst(&targs)).collect();
        let ret = self.p.fns[f].ret.subst(&targs);
        if ret.has_param() {
            return None;
        }
        let was = self.force_dyn_var;
        if targs.iter().any(|t| matches!(t, Ty::Dyn(_))) {
            self.force_dyn_var = true;
        }
        let mut args = self.call_args(&ps, fuel);
        self.force_dyn_var = was;
        if self.polyrec_fns.contains(&f) {
            // the recursion depth
            let n = self.d.below(4) as i128;
            *args.last_mut().unwrap() = Expr::Int(IK::I32, n, false);
        }
        let v = self.new_var(ret.clone(), true);
        // a returned closure keeps its closure type only without an annotation (KF-05)
        let from_closure_fn = self.closure_ret_fns.contains(&f);
        if from_closure_fn {
            self.closure_vars.insert(v);
            self.label("closure:returned-called");
        }
        let ann = if from_closure_fn && !self.esc_ok { None } else { Some(ret) };
        Some(vec![Stmt::Let(Pat::Var(v), ann, Expr::Call(Callee::Fn(f, targs), args))])
    }

    /// `let y = g(args);` for a function value in scope
    fn let_val_call(&mut self, fuel: i32) -> Option<Vec<Stmt>> {
        let mut cands = vec![];
        for (v, _) in self.visible() {
            if let Ty::Fn(ps, r) = self.var_ty(v).clone() {
                // (a parameter of the enclosing generic function's type parameter is fine:
                // values of that type are in scope)
                let ok = |t: &Ty| !t.has_param() || (self.cur_tparams > 0 && matches!(t, Ty::Param(_)));
                if !r.has_param() && ps.iter().all(ok) {
                    cands.push((v, ps, *r));
                }
            }
        }
        if cands.is_empty() {
            return None;
        }
        let (v, ps, r) = cands[self.d.below(cands.len())].clone();
        self.label("closure:call");
        // a computed callee: its evaluation (with an effect) comes before the arguments'.
        // A closure literal must not be passed around while KF-05 is open.
        let fty = Ty::Fn(ps.clone(), Box::new(r.clone()));
        let callee = if self.cfg.ticks && (self.esc_ok || !self.closure_vars.contains(&v)) && self.d.chance(80) {
            self.label("closure:computed-callee");
            self.tick(&fty, Expr::Var(v))
        } else {
            Expr::Var(v)
        };
        let args = self.call_args(&ps, fuel);
        let ann = self.needs_annotation(&r, &Expr::Unit) || self.d.bool();
        let nv = self.new_var(r.clone(), ann);
        Some(vec![Stmt::Let(
            Pat::Var(nv),
            if ann { Some(r) } else { None },
            Expr::Call(Callee::Val(Box::new(callee)), args),
        )])
    }

    fn stmt(&mut self, fuel: i32) -> Vec<Stmt> {
        let call_w = match self.cfg.focus {
            Focus::Generics => 40,
            _ => 14,
        };
        let clo_w = match self.cfg.focus {
            Focus::Closures => 90,
            _ => 10,
        };
        match self.d.weighted(&[100, call_w, if self.cfg.closures { clo_w } else { 0 }]) {
            1 => {
                if let Some(s) = self.let_fn_call(fuel) {
                    return s;
                }
            }
            2 => {
                if let Some(s) = self.let_val_call(fuel) {
                    return s;
                }
            }
            _ => {}
        }
        let w = [
            40,                                     // let var
            10,                                     // destructuring let
            if self.cfg.ticks { 14 } else { 0 },    // effect statement
            if self.cfg.whiles && fuel > 1 { 8 } else { 0 }, // while
            8,                                      // ref_set
            if self.cfg.closures { if self.cfg.focus == Focus::Closures { 60 } else { 10 } } else { 0 }, // let closure
            if self.cfg.containers { 5 } else { 0 }, // vec push chain
            if self.cfg.traits && self.usable_traits > 0 { if self.cfg.focus == Focus::Traits { 30 } else { 8 } } else { 0 }, // let d: dyn Tr = ..
            if self.cfg.discards { 7 } else { 0 },  // a value that is computed and dropped
        ];
        match self.d.weighted(&w) {
            8 => {
                // `let _ = e;`, or `e;` for an if / match / call used as a statement: whatever
                // e does (print, fail) still has to happen
                let t = self.ty(1);
                let e = self.expr(&t, fuel);
                let bare = matches!(e, Expr::If(..) | Expr::Match(..) | Expr::Call(..)) && self.d.bool();
                self.label(if bare { "discard:bare-statement" } else { "discard:let" });
                vec![Stmt::Expr(e, bare)]
            }
            7 => {
                let trs = self.dyn_traits();
                if trs.is_empty() {
                    let e = self.specific(&Ty::Unit, fuel);
                    return vec![Stmt::Expr(e, self.d.bool())];
                }
                let tr = trs[self.d.below(trs.len())];
                let e = self.dyn_value(tr, fuel);
                let t = Ty::Dyn(tr);
                let v = self.new_var(t.clone(), true);
                self.label("dyn:let");
                vec![Stmt::Let(Pat::Var(v), Some(t), e)]
            }
            0 => {
                let t = self.ty(2);
                let e = self.expr(&t, fuel);
                let ann = self.needs_annotation(&t, &e) || self.d.chance(60);
                let v = self.new_var(t.clone(), ann);
                vec![Stmt::Let(Pat::Var(v), if ann { Some(t) } else { None }, e)]
            }
            1 => {
                // irrefutable destructuring of a tuple or struct
                let mut opts = vec![Ty::Tuple(vec![self.ty(1), self.ty(1)])];
                for (i, a) in self.p.adts.iter().enumerate() {
                    if matches!(a.kind, AdtKind::Struct(_)) {
                        opts.push(Ty::Adt(i, (0..a.tparams).map(|_| Ty::i32()).collect()));
                    }
                }
                let t = opts[self.d.below(opts.len())].clone();
                let e = self.expr(&t, fuel);
                let p = self.pattern(&t, 2, false);
                self.label("let:destructure");
                vec![Stmt::Let(p, None, e)]
            }
            2 => {
                let e = self.specific(&Ty::Unit, fuel);
                vec![Stmt::Expr(e, self.d.bool())]
            }
            3 => self.while_loop(fuel),
            4 => match self.ref_set() {
                Some(e) => vec![Stmt::Expr(e, self.d.bool())],
                None => {
                    let t = Ty::Ref(Box::new(self.ty(1)));
                    let e = self.expr(&t, fuel);
                    let v = self.new_var(t, false);
                    vec![Stmt::Let(Pat::Var(v), None, e)]
                }
            },
            5 => {
                let n = self.d.below(3);
                let mut ps: Vec<Ty> = (0..n).map(|_| self.ty(1)).collect();
                // inside a generic function a closure parameter may have the type parameter's type
                if self.cur_tparams > 0 && self.d.chance(110) {
                    let k = self.d.below(self.cur_tparams as usize) as u32;
                    ps.push(Ty::Param(k));
                    self.label("closure:param-of-type-parameter");
                }
                let r = self.ty(1);
                let c = self.closure(&ps, &r, fuel, true);
                let v = self.new_var(Ty::Fn(ps, Box::new(r)), true);
                if matches!(c, Expr::Closure(..)) {
                    self.closure_vars.insert(v);
                }
                vec![Stmt::Let(Pat::Var(v), None, c)]
            }
            _ => {
                // let v: Vec[T] = vec_new(); let v = vec_push(v, e); ...
                self.label("vec");
                let et = self.ty(1);
                let vt = Ty::Vec(Box::new(et.clone()));
                let name = LOCAL_NAMES[self.d.below(LOCAL_NAMES.len())].to_string();
                let mut out = vec![];
                let mut v = self.new_var_named(name.clone(), vt.clone(), true);
                out.push(Stmt::Let(
                    Pat::Var(v),
                    Some(vt.clone()),
                    Expr::Call(Callee::Builtin(Builtin::VecNew), vec![]),
                ));
                let n = self.d.below(4);
                for _ in 0..n {
                    let e = self.expr(&et, fuel - 1);
                    let v2 = self.new_var_named(name.clone(), vt.clone(), true);
                    out.push(Stmt::Let(
                        Pat::Var(v2),
                        None,
                        Expr::Call(Callee::Builtin(Builtin::VecPush), vec![Expr::Var(v), e]),
                    ));
                    v = v2;
                }
                out
            }
        }
    }

    pub fn block(&mut self, t: &Ty, fuel: i32) -> Expr {
        let saved = self.scope.len();
        let n = 1 + self.d.below(3);
        let mut stmts = vec![];
        for _ in 0..n {
            if self.budget <= 0 {
                break;
            }
            stmts.extend(self.stmt(fuel - 1));
        }
        let fin = self.expr(t, fuel - 1);
        self.scope.truncate(saved);
        Expr::Block(stmts, Some(Box::new(fin)))
    }

    // ------------------------------------------------------------ functions

    /// `fn e[T](..) -> Vec[T] { ..; vec_new() }` / `-> E[T] { ..; E::Nullary }`:
    /// the instantiation is fixed by the expected result type only
    fn gen_phantom_fn(&mut self, idx: usize) -> bool {
        let mut rets: Vec<(Ty, Expr)> = vec![];
        if self.cfg.containers {
            rets.push((Ty::Vec(Box::new(Ty::Param(0))), Expr::Call(Callee::Builtin(Builtin::VecNew), vec![])));
        }
        for (i, a) in self.p.adts.iter().enumerate() {
            if let AdtKind::Enum(vs) = &a.kind {
                if a.tparams == 1 {
                    if let Some(v) = vs.iter().position(|(_, ps)| ps.is_empty()) {
                        rets.push((Ty::Adt(i, vec![Ty::Param(0)]), Expr::Con(i, v as u32, vec![], true)));
                    }
                }
            }
        }
        if rets.is_empty() {
            return false;
        }
        let (ret, fin) = rets[self.d.below(rets.len())].clone();
        self.scope.clear();
        self.cur_tparams = 0;
        let n = self.d.below(3);
        let mut taken: Vec<String> = vec![];
        let mut params = vec![];
        // `fn pick[T, U](p: U, ..) -> Vec[T]`: one parameter is fixed by an argument, the
        // other by the expected result only
        let two = self.d.bool();
        if two {
            let t = Ty::Param(1);
            params.push((self.fresh_named("p", t.clone()), t));
            self.label("generic-fn:phantom-result-mixed");
        }
        for _ in 0..n {
            let t = self.ty(1);
            params.push((self.new_param(t.clone(), &mut taken), t));
        }
        let k = self.d.below(3);
        let mut stmts = vec![];
        for _ in 0..k {
            if self.budget <= 0 {
                break;
            }
            stmts.extend(self.stmt(2));
        }
        self.scope.clear();
        self.label("generic-fn");
        self.label("generic-fn:phantom-result");
        self.phantom_fns.insert(idx);
        self.p.fns[idx] = FnDef { owner: None, bounds: vec![],
            name: self.item_name(&HOSTILE_FNS, format!("f{}", idx)),
            tparams: if two { 2 } else { 1 },
            params,
            ret,
            body: Expr::Block(stmts, Some(Box::new(fin))),
        };
        true
    }

    /// `fn r[A, B](a: A, b: B, n: int32) -> int32 { if n <= 0 { base } else { 1 + r(b, a, n - 1) } }`
    fn gen_polyrec_fn(&mut self, idx: usize) {
        let tparams = 2 + self.d.below(2) as u32;
        self.scope.clear();
        self.cur_tparams = tparams;
        let mut params = vec![];
        for k in 0..tparams {
            let t = Ty::Param(k);
            params.push((self.fresh_named("p", t.clone()), t));
        }
        let n = self.fresh_named("n", Ty::i32());
        params.push((n, Ty::i32()));
        // rotation by one position (a swap for two parameters)
        let perm: Vec<u32> = (0..tparams).map(|k| (k + 1) % tparams).collect();
        let mut args: Vec<Expr> = perm.iter().map(|k| Expr::Var(params[*k as usize].0)).collect();
        args.push(Expr::Bin(BinOp::Sub, Box::new(Expr::Var(n)), Box::new(Expr::Int(IK::I32, 1, false))));
        let rec = Expr::Call(Callee::Fn(idx, perm.iter().map(|k| Ty::Param(*k)).collect()), args);
        let step = if self.cfg.ticks { self.tick(&Ty::i32(), rec) } else { rec };
        let base = self.expr(&Ty::i32(), 2);
        let body = Expr::If(
            Box::new(Expr::Bin(BinOp::Le, Box::new(Expr::Var(n)), Box::new(Expr::Int(IK::I32, 0, false)))),
            Box::new(Expr::Block(vec![], Some(Box::new(base)))),
            Box::new(Expr::Block(
                vec![],
                Some(Box::new(Expr::Bin(BinOp::Add, Box::new(Expr::Int(IK::I32, 1, false)), Box::new(step)))),
            )),
        );
        self.scope.clear();
        self.label("generic-fn");
        self.label("generic-fn:permuted-recursion");
        self.polyrec_fns.insert(idx);
        self.p.fns[idx] = FnDef { owner: None, bounds: vec![],
            name: self.item_name(&HOSTILE_FNS, format!("f{}", idx)),
            tparams,
            params,
            ret: Ty::i32(),
            body,
        };
        self.cur_tparams = 0;
    }

    fn gen_fn(&mut self, idx: usize) {
        if self.cfg.generics {
            let w = if self.cfg.focus == Focus::Generics { 45 } else { 12 };
            match self.d.weighted(&[256 - 2 * w, w, w]) {
                1 => {
                    if self.gen_phantom_fn(idx) {
                        return;
                    }
                }
                2 => {
                    self.gen_polyrec_fn(idx);
                    return;
                }
                _ => {}
            }
        }
        let generic = self.cfg.generics && self.d.chance(if self.cfg.focus == Focus::Generics { 200 } else { 90 });
        let tparams = if generic { 1 + self.d.below(2) as u32 } else { 0 };
        self.cur_tparams = tparams;
        self.scope.clear();
        let mut params = vec![];
        for k in 0..tparams {
            let t = Ty::Param(k);
            // never shadowed: a value of type T must stay reachable
            params.push((self.fresh_named("p", t.clone()), t));
        }
        // trait bounds on the type parameters
        let mut bounds: Vec<Vec<usize>> = vec![vec![]; tparams as usize];
        if self.cfg.traits && self.usable_traits > 0 {
            for k in 0..tparams as usize {
                if self.d.chance(if self.cfg.focus == Focus::Traits { 200 } else { 110 }) {
                    let t1 = self.d.below(self.usable_traits);
                    bounds[k].push(t1);
                    if self.usable_traits > 1 && self.d.chance(70) {
                        let t2 = (t1 + 1) % self.usable_traits;
                        if self.implementors(&[t1, t2]).iter().any(|t| !matches!(t, Ty::Dyn(_))) {
                            bounds[k].push(t2);
                            self.label("generic-fn:two-bounds");
                        }
                    }
                    self.label("generic-fn:bounded");
                }
            }
        }
        self.cur_bounds = bounds.clone();
        let dyn_trs = if self.cfg.traits { self.dyn_traits() } else { vec![] };
        let n = self.d.below(3);
        let mut taken: Vec<String> = vec![];
        for _ in 0..n {
            if !dyn_trs.is_empty() && self.d.chance(if self.cfg.focus == Focus::Traits { 80 } else { 30 }) {
                let t = Ty::Dyn(dyn_trs[self.d.below(dyn_trs.len())]);
                params.push((self.new_param(t.clone(), &mut taken), t));
                self.label("fn:dyn-param");
                continue;
            }
            let generic_adts: Vec<usize> = (0..self.p.adts.len()).filter(|a| self.p.adts[*a].tparams > 0).collect();
            let t = if tparams > 0 && !generic_adts.is_empty() && self.d.chance(50) {
                // a generic nominal type at the function's parameters in another order, repeated,
                // or mixed with concrete types: `p: Pair[U, T]`, `Pair[T, T]`, `Pair[U, int32]`
                let a = generic_adts[self.d.below(generic_adts.len())];
                let n = self.p.adts[a].tparams;
                let args: Vec<Ty> = (0..n)
                    .map(|_| if self.d.chance(60) { Ty::i32() } else { Ty::Param(self.d.below(tparams as usize) as u32) })
                    .collect();
                self.label("generic-fn:param-of-generic-adt");
                Ty::Adt(a, args)
            } else if tparams > 0 && self.d.chance(60) {
                // a type built from a parameter
                let k = self.d.below(tparams as usize) as u32;
                match self.d.below(3) {
                    0 => Ty::Tuple(vec![Ty::Param(k), Ty::i32()]),
                    1 if self.cfg.closures => Ty::Fn(vec![Ty::Param(k)], Box::new(Ty::Param(k))),
                    _ => Ty::Param(k),
                }
            } else {
                self.ty(2)
            };
            if t.has_param() {
                params.push((self.fresh_named("p", t.clone()), t));
            } else {
                params.push((self.new_param(t.clone(), &mut taken), t));
            }
        }
        let ret = if tparams > 0 && self.d.chance(170) {
            let k = self.d.below(tparams as usize) as u32;
            match self.d.below(3) {
                0 => Ty::Tuple(vec![Ty::Param(k), Ty::i32()]),
                _ => Ty::Param(k),
            }
        } else {
            self.ty(2)
        };
        if generic {
            self.label("generic-fn");
        }
        // a function whose result is a closure it creates (the one escaping flow
        // that works while KF-05 is open): the closure literal is the final expression
        let returns_closure = self.cfg.closures
            && !self.esc_ok
            && tparams == 0
            && self.d.chance(if self.cfg.focus == Focus::Closures { 100 } else { 30 });
        let (ret, body) = if returns_closure {
            let n = self.d.below(3);
            let ps: Vec<Ty> = (0..n).map(|_| self.ty(1)).collect();
            let r = self.ty(1);
            let saved = self.scope.len();
            let k = self.d.below(3);
            let mut stmts = vec![];
            // (KF-05) a closure-returning function that uses another one keeps
            // its declared func result type: do not call those from here
            let saved_callable = self.callable.clone();
            let saved_user = self.user_fns.clone();
            let crf = self.closure_ret_fns.clone();
            self.callable.retain(|f| !crf.contains(f));
            self.user_fns.retain(|f| !crf.contains(f));
            for _ in 0..k {
                // the closure must stay the direct result of the body: a destructuring
                // let would nest it inside a match arm (branch result, KF-05)
                let mark = self.scope.len();
                let ss = self.stmt(2);
                if ss.iter().any(|s| matches!(s, Stmt::Let(p, _, _) if !matches!(p, Pat::Var(_)))) {
                    self.scope.truncate(mark);
                    continue;
                }
                stmts.extend(ss);
            }
            let c = self.closure(&ps, &r, 3, true);
            self.callable = saved_callable;
            self.user_fns = saved_user;
            self.scope.truncate(saved);
            self.label("closure:returned");
            if matches!(c, Expr::Closure(..)) {
                self.closure_ret_fns.insert(idx);
            }
            (Ty::Fn(ps, Box::new(r)), Expr::Block(stmts, Some(Box::new(c))))
        } else {
            // what the bounds and trait-object parameters are for: calls through them
            let mut pre = vec![];
            for k in 0..tparams as usize {
                for tr in bounds[k].clone() {
                    if self.d.chance(200) {
                        let recv = self.param_var(&Ty::Param(k as u32));
                        pre.push(self.dispatch_stmt(recv, tr, true, 2));
                    }
                }
            }
            // containers of a type parameter built and taken apart inside the generic function:
            // `let a = [p, p]; let q = array_get(a, 1);` (also Vec / Ref / tuple), annotated or not;
            // `q` is one more value of the parameter's type for the rest of the body
            if tparams > 0 && self.d.chance(if self.cfg.focus == Focus::Generics { 110 } else { 60 }) {
                let k = self.d.below(tparams as usize) as u32;
                let tp = Ty::Param(k);
                let src = self.param_var(&tp);
                if matches!(src, Expr::Var(_)) {
                    let annot = self.d.bool();
                    let kind = self.d.below(4);
                    let (cty, make, take) = match kind {
                        0 => {
                            let n = 1 + self.d.below(3) as u32;
                            let i = self.d.below(n as usize) as i128;
                            (
                                Ty::Array(Box::new(tp.clone()), n),
                                Expr::ArrayLit((0..n).map(|_| src.clone()).collect()),
                                (Builtin::ArrayGet, Some(Expr::Int(IK::I32, i, false))),
                            )
                        }
                        1 => (
                            Ty::Vec(Box::new(tp.clone())),
                            Expr::Call(
                                Callee::Builtin(Builtin::VecPush),
                                vec![Expr::Call(Callee::Builtin(Builtin::VecNew), vec![]), src.clone()],
                            ),
                            (Builtin::VecGet, Some(Expr::Int(IK::I32, 0, false))),
                        ),
                        2 => (Ty::Ref(Box::new(tp.clone())), Expr::Call(Callee::Builtin(Builtin::RefNew), vec![src.clone()]), (Builtin::RefGet, None)),
                        _ => (
                            Ty::Tuple(vec![Ty::i32(), tp.clone()]),
                            Expr::Tuple(vec![Expr::Int(IK::I32, 7, false), src.clone()]),
                            (Builtin::RefGet, None),
                        ),
                    };
                    // (a Vec needs its annotation: `vec_new()` alone does not fix the element type for every reader)
                    let annot = annot || kind == 1;
                    let c = self.fresh_named("p", cty.clone());
                    pre.push(Stmt::Let(Pat::Var(c), if annot { Some(cty.clone()) } else { None }, make));
                    let q = self.fresh_named("p", tp.clone());
                    let get = if kind == 3 {
                        Expr::Proj(Box::new(Expr::Var(c)), 1)
                    } else {
                        let mut args = vec![Expr::Var(c)];
                        if let Some(i) = take.1 {
                            args.push(i);
                        }
                        Expr::Call(Callee::Builtin(take.0), args)
                    };
                    pre.push(Stmt::Let(Pat::Var(q), if self.d.bool() { Some(tp.clone()) } else { None }, get));
                    self.label("generic-fn:container-of-param");
                    self.label(["generic-fn:array-of-param", "generic-fn:vec-of-param", "generic-fn:ref-of-param", "generic-fn:tuple-of-param"][kind]);
                }
            }
            for (v, t) in params.clone() {
                if let Ty::Dyn(tr) = t {
                    // (an earlier statement of this prologue may have shadowed the parameter)
                    if self.visible().iter().any(|(x, _)| *x == v) && self.d.chance(200) {
                        pre.push(self.dispatch_stmt(Expr::Var(v), tr, false, 2));
                    }
                }
            }
            let body = match self.block(&ret, 3) {
                Expr::Block(stmts, fin) if !pre.is_empty() => {
                    pre.extend(stmts);
                    Expr::Block(pre, fin)
                }
                other if !pre.is_empty() => Expr::Block(pre, Some(Box::new(other))),
                other => other,
            };
            (ret, body)
        };
        self.scope.clear();
        self.p.fns[idx] = FnDef { owner: None, bounds,
            name: self.item_name(&HOSTILE_FNS, format!("f{}", idx)),
            tparams,
            params,
            ret,
            body,
        };
        self.cur_tparams = 0;
        self.cur_bounds.clear();
    }

    fn gen_main(&mut self, idx: usize) {
        self.scope.clear();
        let mut stmts = vec![];
        let n = 2 + self.d.below(6);
        // every bounded generic function is called once or twice (at implementing types chosen
        // independently), somewhere among the other statements
        let mut planned: Vec<usize> = vec![];
        for f in self.user_fns.clone() {
            if self.p.fns[f].bounds.iter().any(|b| !b.is_empty()) && self.d.chance(220) {
                planned.push(f);
                if self.d.bool() {
                    planned.push(f);
                }
            }
        }
        for step in 0..n + planned.len() {
            if self.budget <= 0 && planned.is_empty() {
                break;
            }
            let before = self.scope.len();
            let forced = if !planned.is_empty() && (step >= n || self.d.chance(100)) {
                let f = planned.remove(0);
                if self.fn_nameable(f) { self.let_call_of(f, 3) } else { None }
            } else {
                None
            };
            let ss = match forced {
                Some(ss) => ss,
                None if step >= n => continue,
                None => self.stmt(4),
            };
            stmts.extend(ss);
            // print every printable variable this statement introduced
            let new_vars: Vec<VarId> = self.scope[before..].iter().map(|v| v.id).collect();
            for v in new_vars {
                let t = self.var_ty(v).clone();
                let still_visible = self.visible().iter().any(|(x, _)| *x == v);
                if still_visible && is_printable_ty(&t) {
                    let s = self.show(&t, Expr::Var(v));
                    stmts.push(Stmt::Expr(Expr::Call(Callee::Builtin(Builtin::Println), vec![s]), false));
                }
            }
        }
        // a trait implemented for a trait-object type: make an object, call the impl's first method on it
        // directly, and pass it to every bounded function that can take it (T = dyn Tr0)
        for ii in 0..self.p.impls.len() {
            let im = self.p.impls[ii].clone();
            let (Some(t1), Ty::Dyn(t0)) = (im.trait_, im.for_ty.clone()) else { continue };
            if im.methods.is_empty() || !self.d.chance(200) {
                continue;
            }
            let before = self.scope.len();
            let obj = self.dyn_value(t0, 2);
            let dv = self.new_var(Ty::Dyn(t0), true);
            let mut block = vec![Stmt::Let(Pat::Var(dv), Some(Ty::Dyn(t0)), obj)];
            let f0 = im.methods[0];
            let def = self.p.fns[f0].clone();
            let extra: Vec<Ty> = def.params.iter().skip(1).map(|(_, t)| t.clone()).collect();
            let mut args = vec![Expr::Var(dv)];
            args.extend(self.call_args(&extra, 2));
            let rv = self.new_var(def.ret.clone(), true);
            block.push(Stmt::Let(Pat::Var(rv), Some(def.ret.clone()), Expr::Call(Callee::Method(f0, MForm::TraitUfcs), args)));
            self.label("method:static-on-dyn-type");
            for g in self.user_fns.clone() {
                let gd = &self.p.fns[g];
                if gd.bounds.iter().any(|b| b.contains(&t1)) && self.fn_nameable(g) && self.visible().iter().any(|(x, _)| *x == dv) {
                    self.prefer_dyn_targ = true;
                    if let Some(ss) = self.let_call_of(g, 2) {
                        block.extend(ss);
                    }
                    self.prefer_dyn_targ = false;
                }
            }
            stmts.extend(block);
            let new_vars: Vec<VarId> = self.scope[before..].iter().map(|v| v.id).collect();
            for v in new_vars {
                let t = self.var_ty(v).clone();
                let still_visible = self.visible().iter().any(|(x, _)| *x == v);
                if still_visible && is_printable_ty(&t) {
                    let sh = self.show(&t, Expr::Var(v));
                    stmts.push(Stmt::Expr(Expr::Call(Callee::Builtin(Builtin::Println), vec![sh]), false));
                }
            }
        }
        self.scope.clear();
        self.p.fns[idx] = FnDef { owner: None, bounds: vec![],
            name: "main".into(),
            tparams: 0,
            params: vec![],
            ret: Ty::Unit,
            body: Expr::Block(stmts, Some(Box::new(Expr::Unit))),
        };
    }

    pub fn program(mut self) -> GProg {
        self.gen_adts();
        self.gen_traits();
        let nf = self.d.below(4);
        for _ in 0..nf {
            let idx = self.p.fns.len();
            self.p.fns.push(FnDef { owner: None, bounds: vec![],
                name: String::new(),
                tparams: 0,
                params: vec![],
                ret: Ty::Unit,
                body: Expr::Unit,
            });
            self.gen_fn(idx);
            // a closure-returning function is only called from `let x = f(..);` (KF-05)
            let only_let_call = (!self.esc_ok && self.closure_ret_fns.contains(&idx))
                || self.phantom_fns.contains(&idx)
                || self.polyrec_fns.contains(&idx);
            if !only_let_call {
                self.callable.push(idx);
            }
            self.user_fns.push(idx);
        }
        let idx = self.p.fns.len();
        self.p.fns.push(FnDef { owner: None, bounds: vec![],
            name: "main".into(),
            tparams: 0,
            params: vec![],
            ret: Ty::Unit,
            body: Expr::Unit,
        });
        self.p.main = idx;
        self.gen_main(idx);
        self.p
    }
}

fn mentions_param(t: &Ty, k: u32) -> bool {
    match t {
        Ty::Param(i) => *i == k,
        Ty::Tuple(ts) => ts.iter().any(|t| mentions_param(t, k)),
        Ty::Array(t, _) | Ty::Vec(t) | Ty::Ref(t) => mentions_param(t, k),
        Ty::Fn(ps, r) => ps.iter().any(|t| mentions_param(t, k)) || mentions_param(r, k),
        Ty::Adt(_, a) => a.iter().any(|t| mentions_param(t, k)),
        _ => false,
    }
}

/// match a (possibly generic) pattern type against a concrete/current type
fn match_ty(pat: &Ty, t: &Ty, b: &mut Vec<Option<Ty>>) -> bool {
    match (pat, t) {
        (Ty::Param(i), _) => {
            let i = *i as usize;
            if i >= b.len() {
                return false;
            }
            match &b[i] {
                Some(x) => x == t,
                None => {
                    b[i] = Some(t.clone());
                    true
                }
            }
        }
        (Ty::Tuple(a), Ty::Tuple(c)) => a.len() == c.len() && a.iter().zip(c).all(|(x, y)| match_ty(x, y, b)),
        (Ty::Array(a, n), Ty::Array(c, m)) => n == m && match_ty(a, c, b),
        (Ty::Vec(a), Ty::Vec(c)) | (Ty::Ref(a), Ty::Ref(c)) => match_ty(a, c, b),
        (Ty::Fn(p1, r1), Ty::Fn(p2, r2)) => {
            p1.len() == p2.len() && p1.iter().zip(p2).all(|(x, y)| match_ty(x, y, b)) && match_ty(r1, r2, b)
        }
        (Ty::Adt(i, a), Ty::Adt(j, c)) => i == j && a.len() == c.len() && a.iter().zip(c).all(|(x, y)| match_ty(x, y, b)),
        (x, y) => x == y,
    }
}

fn is_literal(e: &Expr) -> bool {
    matches!(e, Expr::Int(..))
}

fn is_zero_literal(e: &Expr) -> bool {
    matches!(e, Expr::Int(_, 0, _))
}

fn contains_call(e: &Expr) -> bool {
    match e {
        Expr::Call(..) => true,
        Expr::Un(_, a) | Expr::Proj(a, _) | Expr::Field(a, _, _) => contains_call(a),
        Expr::Bin(_, a, b) => contains_call(a) || contains_call(b),
        Expr::If(a, b, c) => contains_call(a) || contains_call(b) || contains_call(c),
        Expr::Match(..) | Expr::Block(..) | Expr::While(..) => true,
        Expr::Tuple(xs) | Expr::ArrayLit(xs) => xs.iter().any(contains_call),
        _ => false,
    }
}

fn uses_any(e: &Expr, vars: &HashSet<VarId>) -> bool {
    let mut found = false;
    walk(e, &mut |x| {
        if let Expr::Var(v) = x {
            if vars.contains(v) {
                found = true;
            }
        }
    });
    found
}

pub fn walk(e: &Expr, f: &mut dyn FnMut(&Expr)) {
    f(e);
    match e {
        Expr::Un(_, a) | Expr::Proj(a, _) | Expr::Field(a, _, _) | Expr::Go(a) | Expr::Coerce(_, a) => walk(a, f),
        Expr::Bin(_, a, b) | Expr::While(a, b) => {
            walk(a, f);
            walk(b, f)
        }
        Expr::Tuple(xs) | Expr::ArrayLit(xs) | Expr::Con(_, _, xs, _) => xs.iter().for_each(|x| walk(x, f)),
        Expr::StructLit(_, fs) => fs.iter().for_each(|(_, x)| walk(x, f)),
        Expr::Call(c, args) => {
            if let Callee::Val(v) = c {
                walk(v, f);
            }
            args.iter().for_each(|x| walk(x, f));
        }
        Expr::Closure(_, b) => walk(b, f),
        Expr::If(a, b, c) => {
            walk(a, f);
            walk(b, f);
            walk(c, f)
        }
        Expr::Match(s, arms) => {
            walk(s, f);
            arms.iter().for_each(|(_, b)| walk(b, f));
        }
        Expr::Block(stmts, fin) => {
            for s in stmts {
                match s {
                    Stmt::Let(_, _, e) | Stmt::Expr(e, _) => walk(e, f),
                    Stmt::Raw(_) => {}
                }
            }
            if let Some(x) = fin {
                walk(x, f);
            }
        }
        _ => {}
    }
}

pub fn gen_program(d: &mut Dec, cfg: GenCfg, gates: &mut dyn Gates) -> GProg {
    Gen::new(d, cfg, gates).program()
}

pub fn label_set(p: &GProg) -> BTreeSet<String> {
    p.labels.clone()
}
