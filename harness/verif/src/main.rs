use std::path::PathBuf;
use verif::driver::{self, Outcome, Tier, WorkerArgs};
use verif::props;

fn usage() -> ! {
    eprintln!("usage: verif check <ID> [--tier quick|thorough] | verif replay <ID> <file> | verif list");
    std::process::exit(2)
}

fn main() {
    verif::sandbox::run_main(real_main)
}

fn real_main() -> i32 {
    let args: Vec<String> = std::env::args().collect();
    if args.len() < 2 {
        usage();
    }
    match args[1].as_str() {
        "list" => {
            for c in props::registry() {
                println!("{}", c.id());
            }
        }
        "check" => {
            let id = args.get(2).unwrap_or_else(|| usage());
            let Some(check) = props::find(id) else {
                eprintln!("unknown property {id}");
                std::process::exit(2)
            };
            let mut tier = std::env::var("VERIF_TIER").map(|s| Tier::parse(&s)).unwrap_or(Tier::Quick);
            let mut i = 3;
            while i < args.len() {
                match args[i].as_str() {
                    "--tier" => {
                        i += 1;
                        tier = Tier::parse(args.get(i).map(|s| s.as_str()).unwrap_or("quick"));
                    }
                    "quick" | "thorough" => tier = Tier::parse(&args[i]),
                    _ => {}
                }
                i += 1;
            }
            let seed: u64 = std::env::var("VERIF_SEED")
                .ok()
                .and_then(|s| s.trim().parse::<i64>().ok())
                .map(|v| v as u64)
                .unwrap_or(20260924);
            std::process::exit(driver::parent_main(check, tier, seed));
        }
        "worker" => {
            // worker ID tier seed wid n start_phase start_index dir
            if args.len() < 10 {
                usage();
            }
            let Some(check) = props::find(&args[2]) else { usage() };
            let a = WorkerArgs {
                tier: Tier::parse(&args[3]),
                seed: args[4].parse().unwrap_or(0),
                wid: args[5].parse().unwrap_or(0),
                n: args[6].parse().unwrap_or(1),
                start_phase: args[7].parse().unwrap_or(0),
                start_index: args[8].parse().unwrap_or(0),
                dir: PathBuf::from(&args[9]),
            };
            driver::worker_main(check, a);
        }
        "replay" => {
            let id = args.get(2).unwrap_or_else(|| usage());
            let file = args.get(3).unwrap_or_else(|| usage());
            let Some(check) = props::find(id) else {
                eprintln!("unknown property {id}");
                std::process::exit(2)
            };
            let json_mode = args.iter().any(|a| a == "--json");
            if std::env::var("VERIF_LIMITS").is_ok() {
                driver::set_limits();
            }
            match driver::replay_file(check, &PathBuf::from(file), json_mode) {
                Ok(out) => {
                    let (o, sig) = match &out.outcome {
                        Outcome::Pass => ("pass", None),
                        Outcome::Discard(_) => ("discard", None),
                        Outcome::Fail { sig, .. } => ("fail", Some(sig.clone())),
                    };
                    if json_mode {
                        println!("{}", serde_json::json!({"replay":true,"outcome":o,"sig":sig}));
                        std::process::exit(0);
                    }
                    if o == "fail" {
                        println!("VIOLATION property={} replay={}", check.id(), file);
                        std::process::exit(1);
                    }
                }
                Err(e) => {
                    eprintln!("{e}");
                    std::process::exit(2);
                }
            }
        }
        "corpus-go" => {
            // debugging aid: write the Go text of every corpus program to <dir>
            let out = PathBuf::from(args.get(2).unwrap_or_else(|| usage()));
            let _ = std::fs::create_dir_all(&out);
            for c in verif::corpus::pipeline_cases() {
                let r = verif::goml::compile_at(c.dir.join("main.gom"), &c.source);
                let text = match r {
                    verif::goml::CompileRes::Ok(_, t) => t,
                    verif::goml::CompileRes::Err(e) => format!("ERR {:?}", verif::goml::diag_messages(e.diagnostics())),
                    verif::goml::CompileRes::Panic(p) => format!("PANIC {}", p.message),
                };
                let _ = std::fs::write(out.join(format!("{}.go", c.name)), text);
            }
            for c in verif::corpus::project_cases() {
                let src = std::fs::read_to_string(c.dir.join("main.gom")).unwrap_or_default();
                let r = verif::goml::compile_at(c.dir.join("main.gom"), &src);
                let text = match r {
                    verif::goml::CompileRes::Ok(_, t) => t,
                    verif::goml::CompileRes::Err(e) => format!("ERR {:?}", verif::goml::diag_messages(e.diagnostics())),
                    verif::goml::CompileRes::Panic(p) => format!("PANIC {}", p.message),
                };
                let _ = std::fs::write(out.join(format!("{}.go", c.name)), text);
            }
        }
        "gen-sample" => {
            // debugging aid: verif gen-sample <n> [seed] [--show] [--nodes N] : generate, compile, interpret
            let n: u64 = args.get(2).and_then(|s| s.parse().ok()).unwrap_or(20);
            let seed: u64 = args.get(3).and_then(|s| s.parse().ok()).unwrap_or(1);
            let show = args.iter().any(|a| a == "--show");
            let nodes: u32 = args.iter().position(|a| a == "--nodes").and_then(|i| args.get(i + 1)).and_then(|s| s.parse().ok()).unwrap_or(60);
            let mut ctx = verif::driver::Ctx::new("sample", Tier::Quick, seed);
            if !args.iter().any(|a| a == "--open-gates") {
                ctx.closed_gates = verif::driver::all_closed_gates();
            }
            let mut stats: std::collections::BTreeMap<String, u64> = Default::default();
            for i in 0..n {
                let mut bytes = vec![0u8; 400];
                let mut x = verif::util::mix(seed, i);
                for b in bytes.iter_mut() {
                    x = verif::util::splitmix(x);
                    *b = (x >> 32) as u8;
                }
                let mut d = verif::util::Dec::new(&bytes);
                let mut gcfg = verif::gen::build::GenCfg::full(nodes);
                if args.iter().any(|a| a == "--hostile") {
                    gcfg.hostile_names = true;
                }
                if args.iter().any(|a| a == "--traits") {
                    gcfg.traits = true;
                    gcfg.focus = verif::gen::build::Focus::Traits;
                }
                let p = verif::gen::build::gen_program(&mut d, gcfg, &mut ctx);
                let multi = args.iter().any(|a| a == "--multi");
                let (text, r) = if multi {
                    let mut ld = verif::util::Dec::new(&bytes[380..]);
                    let layout = verif::gen::layout::choose_layout(&p, &mut ld);
                    let files = verif::gen::render::render_project(&p, &layout);
                    let text: String = files.iter().map(|(p, t)| format!("// ---- {p}\n{t}")).collect();
                    (text, verif::goml::compile_project(&mut ctx, &files))
                } else {
                    let text = verif::gen::render::render(&p);
                    let r = verif::goml::compile_single(&ctx, &text);
                    (text, r)
                };
                let rs = verif::refsem::run(&p, 200_000);
                let beh = match &r {
                    verif::goml::CompileRes::Ok(_, go) => match verif::behave::compare(&p, go, "C01") {
                        verif::behave::Verdict::Agree => "agree".to_string(),
                        verif::behave::Verdict::Skip(w) => format!("skip({w})"),
                        verif::behave::Verdict::Fail(sig, detail) => {
                            if args.iter().any(|a| a == "--fails") {
                                println!("=== case {i}: {sig}\n{text}\n{detail}");
                                if args.iter().any(|a| a == "--go") { println!("{go}"); }
                            }
                            format!("FAIL {sig}")
                        }
                    },
                    _ => "-".to_string(),
                };
                let key = format!("{} / ref:{} / {}", r.stage(), match &rs.end { Ok(e) => format!("{:?}", e), Err(m) => format!("discard({})", m) }, beh);
                *stats.entry(key).or_insert(0) += 1;
                let bad = !matches!(r, verif::goml::CompileRes::Ok(..));
                if show || bad {
                    println!("=== case {i}: stage={} labels={:?}", r.stage(), p.labels);
                    if bad || show { println!("{text}"); }
                    match &r {
                        verif::goml::CompileRes::Err(e) => for m in verif::goml::diag_messages(e.diagnostics()) { println!("  {m}"); },
                        verif::goml::CompileRes::Panic(pn) => println!("  PANIC {}:{} {}", pn.file, pn.line, pn.message),
                        _ => {}
                    }
                    if show { println!("--- refsem: {:?}\n{}", rs.end, String::from_utf8_lossy(&rs.stdout)); }
                }
            }
            for (k, v) in stats { println!("{v:>6}  {k}"); }
        }
        "irck-corpus" => {
            // debugging aid: IR consistency check of every corpus program (target: 0 errors)
            let n = verif::irck::mutate::run_corpus();
            return if n == 0 { 0 } else { 1 };
        }
        "irck-mutate" => {
            // debugging aid: sensitivity of the IR checkers to injected corruptions
            verif::irck::mutate::run_mutate();
        }
        "irck-check" => {
            // debugging aid: verif irck-check <file.gom | dir>
            let p = PathBuf::from(args.get(2).unwrap_or_else(|| usage()));
            let path = if p.is_dir() { p.join("main.gom") } else { p };
            let src = std::fs::read_to_string(&path).unwrap_or_default();
            match verif::goml::compile_at(path.clone(), &src) {
                verif::goml::CompileRes::Ok(c, _) => {
                    let t = std::time::Instant::now();
                    let (errs, stats) = verif::irck::check_all(&c);
                    eprintln!("{} errors, {:?}, {:?}", errs.len(), stats, t.elapsed());
                    for e in errs {
                        println!("{e}");
                    }
                }
                verif::goml::CompileRes::Err(e) => {
                    for m in verif::goml::diag_messages(e.diagnostics()) {
                        eprintln!("{m}");
                    }
                }
                verif::goml::CompileRes::Panic(p) => eprintln!("PANIC {}:{} {}", p.file, p.line, p.message),
            }
        }
        "irck-fuzz" => {
            // debugging aid: token-level variants of corpus programs through the IR checkers
            verif::irck::mutate::run_fuzz();
        }
        "irck-dump" => {
            // debugging aid: verif irck-dump <file.gom | dir> [core|mono|lift|anf] [--debug]
            let p = PathBuf::from(args.get(2).unwrap_or_else(|| usage()));
            let path = if p.is_dir() { p.join("main.gom") } else { p };
            let src = std::fs::read_to_string(&path).unwrap_or_default();
            let stage = args.get(3).map(|s| s.as_str()).unwrap_or("all");
            let dbg = args.iter().any(|a| a == "--debug");
            match verif::goml::compile_at(path.clone(), &src) {
                verif::goml::CompileRes::Ok(c, _) => {
                    if stage == "core" || stage == "all" {
                        println!("==== core\n{}", if dbg { format!("{:#?}", c.core) } else { c.core.to_pretty(&c.genv, 120) });
                    }
                    if stage == "mono" || stage == "all" {
                        println!("==== mono\n{}", if dbg { format!("{:#?}", c.mono) } else { c.mono.to_pretty(&c.monoenv, 120) });
                    }
                    if stage == "lift" || stage == "all" {
                        println!("==== lift\n{}", if dbg { format!("{:#?}", c.lambda) } else { c.lambda.to_pretty(&c.liftenv, 120) });
                    }
                    if stage == "anf" || stage == "all" {
                        println!("==== anf\n{}", if dbg { format!("{:#?}", c.anf) } else { c.anf.to_pretty(&c.anfenv, 120) });
                    }
                }
                verif::goml::CompileRes::Err(e) => {
                    for m in verif::goml::diag_messages(e.diagnostics()) {
                        eprintln!("{m}");
                    }
                }
                verif::goml::CompileRes::Panic(p) => eprintln!("PANIC {}:{} {}", p.file, p.line, p.message),
            }
        }
        "tast" => {
            // debugging aid: verif tast <file.gom>
            let path = PathBuf::from(args.get(2).unwrap_or_else(|| usage()));
            let src = std::fs::read_to_string(&path).unwrap_or_default();
            match compiler::pipeline::pipeline::typecheck_with_packages(&path, &src) {
                Ok((tast, genv, diags)) => {
                    println!("{}", tast.to_pretty(&genv, 120));
                    for m in verif::goml::diag_messages(&diags) { eprintln!("{m}"); }
                }
                Err(e) => for m in verif::goml::diag_messages(e.diagnostics()) { eprintln!("{m}"); },
            }
        }
        "compile" => {
            // debugging aid: verif compile <file.gom | project dir> [--go]
            let p = PathBuf::from(args.get(2).unwrap_or_else(|| usage()));
            let path = if p.is_dir() { p.join("main.gom") } else { p };
            let src = std::fs::read_to_string(&path).unwrap_or_default();
            let t = std::time::Instant::now();
            let r = verif::goml::compile_at(path.clone(), &src);
            eprintln!("stage={} in {:?}", r.stage(), t.elapsed());
            match r {
                verif::goml::CompileRes::Ok(_, text) => {
                    if args.iter().any(|a| a == "--go") {
                        println!("{text}");
                    }
                }
                verif::goml::CompileRes::Err(e) => {
                    for m in verif::goml::diag_messages(e.diagnostics()) {
                        eprintln!("{m}");
                    }
                }
                verif::goml::CompileRes::Panic(p) => eprintln!("PANIC {}:{} {}\nsig {}", p.file, p.line, p.message, p.signature()),
            }
        }
        "json-float-probe" => {
            // debugging aid: how many f64 values change in a serde_json text round trip
            let n: u64 = args.get(2).and_then(|s| s.parse().ok()).unwrap_or(1_000_000);
            let mut x = 0x1234_5678_9abc_def0u64;
            let mut bad = 0u64;
            let mut first: Option<(f64, f64, String)> = None;
            for _ in 0..n {
                x = verif::util::mix(x, 0x9e37_79b9);
                // decimal literals as a programmer writes them: d.ddd...
                let digits = 1 + (x % 17) as usize;
                let mut s = format!("{}.", (x >> 8) % 1000);
                let mut y = x;
                for _ in 0..digits {
                    y = verif::util::mix(y, 7);
                    s.push((b'0' + (y % 10) as u8) as char);
                }
                let v: f64 = s.parse().unwrap();
                let t = serde_json::to_string(&v).unwrap();
                let w: f64 = serde_json::from_str(&t).unwrap();
                if w.to_bits() != v.to_bits() {
                    bad += 1;
                    if first.is_none() {
                        first = Some((v, w, s.clone()));
                    }
                }
            }
            println!("{bad} of {n} values change; first: {:?}", first);
        }
        _ => usage(),
    }
    0
}
