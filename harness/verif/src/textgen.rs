//! Text-level generators: token soups, Unicode soups, corpus mutations.

use crate::util::Dec;

pub const TOKENS: &[&str] = &[
    " ", "\n", "x", "1", "(", ")", "{", "}", ";", ",", "=", "let", "fn", "main", "y", "foo", "Bar",
    "[", "]", "::", ":", "->", "=>", "+", "-", "*", "/", ".", "&&", "||", "|", "!", "<", ">", ">=",
    "<=", "==", "!=", "#", "extern", "package", "import", "trait", "impl", "for", "enum", "struct",
    "type", "match", "if", "else", "in", "return", "go", "while", "dyn", "true", "false", "_", "unit",
    "bool", "int8", "int16", "int32", "int64", "uint8", "uint16", "uint32", "uint64", "float32",
    "float64", "string", "array", "0", "42", "255u8", "1i8", "7i16", "9i32", "3i64", "2u16", "4u32",
    "5u64", "1.5", "2.0f32", "3.25f64", "\"s\"", "\"a\\nb\"", "\"\\u00e9\"", "\"", "\\\\ line\n",
    "\\\\ a\n  \\\\ b\n", "// c\n", "//", "\t", "\r\n", "é", "😀", "\\", "'", "$", "@", "\u{0}",
    "Self", "self", "derive", "ToString", "Vec", "Ref", "a_b", "x1", "0.1.2", "1e5", "..", "?",
    "\"unterminated", "\u{a0}", "\u{200b}", "\u{feff}",
];

pub fn token_soup(d: &mut Dec) -> String {
    let n = d.below(48);
    let mut s = String::new();
    for _ in 0..n {
        s.push_str(d.pick(TOKENS));
        // separators with some probability so that identifiers do not always glue
        match d.below(6) {
            0 => s.push(' '),
            1 => s.push('\n'),
            _ => {}
        }
    }
    s
}

pub fn unicode_soup(d: &mut Dec) -> String {
    let n = d.below(40);
    let mut s = String::new();
    for _ in 0..n {
        match d.below(8) {
            0 => s.push((0x20 + d.below(0x5f) as u8) as char),
            1 => s.push(d.byte() as char), // Latin-1 range incl. controls
            2 => {
                let c = 0x100 + d.below(0x2000) as u32;
                s.push(char::from_u32(c).unwrap_or('?'));
            }
            3 => {
                let c = 0x1F300 + d.below(0x400) as u32;
                s.push(char::from_u32(c).unwrap_or('?'));
            }
            4 => s.push_str(d.pick(&["\n", "\r\n", "\r", "\t", "\u{2028}", "\u{85}", "\u{b}", "\u{c}"])),
            5 => s.push_str(d.pick(&["\"", "\\", "\\\\", "//", "/", "\"\\u", "\\n"])),
            _ => s.push_str(d.pick(TOKENS)),
        }
    }
    s
}

fn floor_boundary(s: &str, mut i: usize) -> usize {
    if i > s.len() {
        i = s.len();
    }
    while i > 0 && !s.is_char_boundary(i) {
        i -= 1;
    }
    i
}

/// splice / truncate / duplicate / delete / insert mutations of a corpus text
pub fn mutate_corpus(d: &mut Dec, corpus: &[String]) -> String {
    let base = &corpus[d.below(corpus.len())];
    // work on a window so cases stay small
    let wstart = floor_boundary(base, d.below(base.len().max(1)));
    let wlen = 20 + d.below(600);
    let wend = floor_boundary(base, wstart + wlen);
    let mut s = if d.chance(96) {
        base[wstart..wend].to_string()
    } else {
        base.clone()
    };
    let nm = 1 + d.below(4);
    for _ in 0..nm {
        if s.is_empty() {
            break;
        }
        let a = floor_boundary(&s, d.below(s.len() + 1));
        let b = floor_boundary(&s, a + d.below(24));
        match d.below(7) {
            0 => s.truncate(a),
            1 => {
                s.replace_range(a..b, "");
            }
            2 => {
                let piece = s[a..b].to_string();
                s.insert_str(a, &piece);
            }
            3 => s.insert_str(a, d.pick(TOKENS)),
            4 => {
                let other = &corpus[d.below(corpus.len())];
                let oa = floor_boundary(other, d.below(other.len().max(1)));
                let ob = floor_boundary(other, oa + d.below(80));
                s.insert_str(a, &other[oa..ob]);
            }
            5 => {
                let t = d.pick(TOKENS);
                s.replace_range(a..b, t);
            }
            _ => {
                s = s[a..].to_string();
            }
        }
    }
    s
}


// ---------------------------------------------------------------- unwinding
//
// N unclosed (or half-closed) nestings followed by the start of another item:
// the parser unwinds N levels of error recovery without consuming input and then
// has to recognise the item. Enumerated over N because defects of this kind
// (lookahead budgets, recovery sets) sit at one exact depth.

const UNWIND_PREFIX: &[&str] = &[
    "fn n",
    "fn main() { let x = ",
    "fn g(v: ",
    "fn main() { match v { ",
    "extern \"go\" \"time\" unix(secs: ",
    "struct S { a: ",
    "impl S { fn m(self: S) -> int32 { ",
];
const UNWIND_OPEN: &[&str] = &[
    "(", "[", "{ ", "f(", "(1, ", "[1, ", "S { a: ", "Vec[", "if true { ", "match x { _ => ", "|| ", "-", "x.f(", "(\"",
];
const UNWIND_FOLLOW: &[&str] = &[
    "\nextern \"go\" \"time\" now() -> int64\n",
    "\nextern type T\n",
    "\nfn g() { () }\n",
    "\nstruct P { a: int32 }\n",
    "\nenum E { A }\n",
    "\ntrait T { fn m(Self) -> int32; }\n",
    "\nimpl P { fn m(self: P) -> int32 { 1 } }\n",
    "\n#[derive(ToString)]\nstruct Q { a: int32 }\n",
    "\npackage X\n",
    "\nimport Y\n",
    " }\n",
    ")",
    "",
];
pub const UNWIND_MAX_DEPTH: u64 = 300;

pub fn unwind_count() -> u64 {
    UNWIND_MAX_DEPTH * (UNWIND_PREFIX.len() * UNWIND_OPEN.len() * UNWIND_FOLLOW.len()) as u64
}

pub fn unwind_text(index: u64) -> String {
    let mut i = index % unwind_count();
    let n = 1 + i % UNWIND_MAX_DEPTH;
    i /= UNWIND_MAX_DEPTH;
    let o = UNWIND_OPEN[(i % UNWIND_OPEN.len() as u64) as usize];
    i /= UNWIND_OPEN.len() as u64;
    let p = UNWIND_PREFIX[(i % UNWIND_PREFIX.len() as u64) as usize];
    i /= UNWIND_PREFIX.len() as u64;
    let f = UNWIND_FOLLOW[(i % UNWIND_FOLLOW.len() as u64) as usize];
    let mut t = String::with_capacity(p.len() + o.len() * n as usize + f.len() + 8);
    t.push_str(p);
    for _ in 0..n {
        t.push_str(o);
    }
    t.push_str(f);
    t
}


// ------------------------------------------------------------------ repeats
//
// One fragment repeated N times (N = 1..600) inside a construct: counters,
// run-length encodings and budgets that depend on how many tokens, elements or
// siblings there are sit at one exact N (255/256, 128, ...).

const REPEAT_FORMS: &[(&str, &str, &str)] = &[
    ("#[tags(", "t, ", ")]\nfn main() { () }\n"),
    ("#[", "x ", "\nfn main() { () }\n"),
    ("fn main() { let a = [", "1, ", "]; () }\n"),
    ("fn f(a: int32) -> int32 { a }\nfn main() { let _ = f(", "1, ", "); () }\n"),
    ("fn f(", "p: int32, ", ") { () }\n"),
    ("struct S { ", "a: int32, ", "}\n"),
    ("enum E { ", "A, ", "}\n"),
    ("fn main() { let x = 1; let _ = match x { ", "1 => 2, ", "_ => 3 }; () }\n"),
    ("fn main() { ", "let a = 1; ", "() }\n"),
    ("fn main() { let s = ", "\"a\" + ", "\"b\"; () }\n"),
    ("fn main() { let t = (", "1, ", "); () }\n"),
    ("trait T { ", "fn m(Self) -> int32; ", "}\n"),
    ("", "import A\n", "fn main() { () }\n"),
    ("fn main() { go ", "x y ", "; () }\n"),
    ("fn main() { let a = 1 ", "+ 1 ", "; () }\n"),
    ("fn main() { let x = 1; x", ".f", "; () }\n"),
    ("fn main() { ", "// c\n", "() }\n"),
    ("fn f[", "T, ", "]() { () }\n"),
    ("fn main() { let s = \"", "ab", "\"; () }\n"),
    ("fn main() { let _ = ", "!", "true; () }\n"),
    ("#[a]\n", "#[b]\n", "fn main() { () }\n"),
];
pub const REPEAT_MAX: u64 = 600;

pub fn repeat_count() -> u64 {
    REPEAT_MAX * REPEAT_FORMS.len() as u64
}

pub fn repeat_text(index: u64) -> String {
    let i = index % repeat_count();
    let n = 1 + i % REPEAT_MAX;
    let (pre, frag, post) = REPEAT_FORMS[(i / REPEAT_MAX) as usize];
    let mut t = String::with_capacity(pre.len() + frag.len() * n as usize + post.len());
    t.push_str(pre);
    for _ in 0..n {
        t.push_str(frag);
    }
    t.push_str(post);
    t
}


// ---------------------------------------------------------------- multi-line strings
//
// Every multi-line string of 1..3 `\\` lines in which each line independently ends in LF or CR LF
// and has one of 6 last characters (none, ASCII, blank, 2-, 3-, 4-byte), in 4 contexts (value of a
// let followed by another line; at the end of the text with / without a final newline; followed by
// an indented blank tail): the lexer's treatment of the line ends must not depend on their mixture.

const ML_LAST: [&str; 6] = ["", "a", " ", "é", "✓", "𝄞"];
const ML_CONTEXTS: u64 = 4;

pub fn mlstring_count() -> u64 {
    // lines = 1, 2, 3: (2 * 6)^lines combinations each
    (12 + 144 + 1728) * ML_CONTEXTS
}

pub fn mlstring_text(index: u64) -> String {
    let ctx = index % ML_CONTEXTS;
    let mut k = index / ML_CONTEXTS;
    let lines = if k < 12 {
        1
    } else if k < 12 + 144 {
        k -= 12;
        2
    } else {
        k -= 12 + 144;
        3
    };
    let mut body = String::new();
    let mut ends = vec![];
    for i in 0..lines {
        let c = (k % 12) as usize;
        k /= 12;
        let nl = if c % 2 == 0 { "\n" } else { "\r\n" };
        ends.push(nl);
        body.push_str(&format!("        \\\\line{i}{}", ML_LAST[c / 2]));
        if i + 1 < lines {
            body.push_str(nl);
        }
    }
    let last_nl = ends[lines - 1];
    match ctx {
        0 => format!("fn main() {{\n    let s =\n{body}{last_nl}    ;\n    ()\n}}\n"),
        1 => format!("fn main() {{\n    let s =\n{body}{last_nl}"),
        2 => format!("fn main() {{\n    let s =\n{body}"),
        _ => format!("fn main() {{\n    let s =\n{body}{last_nl}    \t "),
    }
}
