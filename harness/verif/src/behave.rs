//! Shared behavioural oracle: reference meaning of the generated program
//! (refsem) against the execution of the emitted Go text (miniGo), and the
//! calibration of miniGo against outputs recorded from real Go.

use crate::corpus;
use crate::gen::model::GProg;
use crate::refsem::{self, End, FailKind};
use serde_json::{json, Value};

pub enum Verdict {
    Agree,
    /// outside the trusted base / unspecified meaning: not judged (reason)
    Skip(String),
    /// (signature, detail)
    Fail(String, String),
}

pub const MAX_STEPS: u64 = 400_000;
pub const GO_MAX_STEPS: u64 = 20_000_000;

pub fn go_opts() -> minigo::RunOpts {
    minigo::RunOpts {
        max_steps: GO_MAX_STEPS,
        sched: vec![],
        max_output: 4 << 20,
    }
}

/// the Go type checker's verdict on emitted text
pub enum GoCheck {
    Ok(minigo::Program),
    Unsupported(String),
    Rejected(Vec<minigo::GoError>),
}

pub fn go_check(text: &str) -> GoCheck {
    match minigo::compile(text) {
        Ok(p) => GoCheck::Ok(p),
        Err(errs) => {
            if let Some(u) = errs.iter().find(|e| e.kind == minigo::ErrKind::Unsupported) {
                GoCheck::Unsupported(u.rule.clone())
            } else {
                GoCheck::Rejected(errs)
            }
        }
    }
}

pub fn describe_go_errors(errs: &[minigo::GoError], text: &str) -> String {
    let lines: Vec<&str> = text.lines().collect();
    let mut out = String::new();
    for e in errs.iter().take(4) {
        out.push_str(&format!("go: {}\n", e));
        if e.line >= 1 {
            if let Some(l) = lines.get(e.line as usize - 1) {
                out.push_str(&format!("    {}\n", l.trim_end()));
            }
        }
    }
    out
}

fn show_out(b: &[u8]) -> String {
    crate::util::truncate_str(&String::from_utf8_lossy(b), 600)
}

/// what the source program means (from refsem), in replayable form
#[derive(Clone, Debug)]
pub struct Expected {
    pub stdout: Vec<u8>,
    /// Ok(end) or the reason the run has no defined meaning
    pub end: Result<End, String>,
}

pub fn end_to_string(e: &End) -> String {
    match e {
        End::Normal => "Normal".into(),
        End::Failed(FailKind::DivZero) => "Failed(DivZero)".into(),
        End::Failed(FailKind::Index) => "Failed(Index)".into(),
        End::Failed(FailKind::Missing) => "Failed(Missing)".into(),
    }
}

fn end_from_string(s: &str) -> Option<End> {
    Some(match s {
        "Normal" => End::Normal,
        "Failed(DivZero)" => End::Failed(FailKind::DivZero),
        "Failed(Index)" => End::Failed(FailKind::Index),
        "Failed(Missing)" => End::Failed(FailKind::Missing),
        _ => return None,
    })
}

impl Expected {
    pub fn of(p: &GProg) -> Expected {
        let r = refsem::run(p, MAX_STEPS);
        Expected {
            stdout: r.stdout,
            end: r.end,
        }
    }
    pub fn to_json(&self) -> Value {
        match &self.end {
            Ok(e) => json!({"stdout": String::from_utf8_lossy(&self.stdout), "end": end_to_string(e)}),
            Err(why) => json!({"skip": why}),
        }
    }
    pub fn from_json(v: &Value) -> Expected {
        if let Some(why) = v["skip"].as_str() {
            return Expected {
                stdout: vec![],
                end: Err(why.to_string()),
            };
        }
        Expected {
            stdout: v["stdout"].as_str().unwrap_or("").as_bytes().to_vec(),
            end: v["end"].as_str().and_then(end_from_string).ok_or_else(|| "no expected end".to_string()),
        }
    }
}

/// Compare what the source means with what the emitted Go does.
pub fn compare(p: &GProg, go_text: &str, prop: &str) -> Verdict {
    compare_expected(&Expected::of(p), go_text, prop)
}

pub fn compare_expected(r: &Expected, go_text: &str, prop: &str) -> Verdict {
    let expected_end = match &r.end {
        Ok(e) => e.clone(),
        Err(why) => return Verdict::Skip(format!("refsem:{}", why.split(':').next().unwrap_or(why))),
    };
    let prog = match go_check(go_text) {
        GoCheck::Ok(p) => p,
        GoCheck::Unsupported(u) => return Verdict::Skip(format!("minigo:{u}")),
        GoCheck::Rejected(errs) => {
            // C02's domain; other checks do not judge programs whose Go does not build
            return if prop == "C02" {
                Verdict::Fail(
                    format!("{prop}|go-rejected|{}", errs[0].rule),
                    describe_go_errors(&errs, go_text),
                )
            } else {
                Verdict::Skip(format!("go-rejected:{}", errs[0].rule))
            };
        }
    };
    let g = minigo::run(&prog, &go_opts());
    use minigo::{End as GEnd, PanicKind};
    let actual_end = match &g.end {
        GEnd::Exit0 => End::Normal,
        GEnd::Panic(PanicKind::DivideByZero, _) => End::Failed(FailKind::DivZero),
        GEnd::Panic(PanicKind::IndexOutOfRange, _) => End::Failed(FailKind::Index),
        GEnd::Panic(PanicKind::Explicit, _) => End::Failed(FailKind::Missing),
        GEnd::Panic(k, m) => {
            return Verdict::Fail(
                format!("{prop}|go-panic|{:?}", k),
                format!(
                    "the Go program panics ({:?}: {m}); the source means {:?}\nexpected stdout:\n{}\nactual stdout:\n{}",
                    k,
                    expected_end,
                    show_out(&r.stdout),
                    show_out(&g.stdout)
                ),
            )
        }
        GEnd::StepLimit | GEnd::OutputLimit => return Verdict::Skip("minigo:step-limit".into()),
        GEnd::Unsupported(u) => return Verdict::Skip(format!("minigo-run:{}", u.split(' ').next().unwrap_or(""))),
    };
    if actual_end != expected_end {
        return Verdict::Fail(
            format!("{prop}|end|{}->{}", end_to_string(&expected_end), end_to_string(&actual_end)),
            format!(
                "the source ends {:?}, the Go program ends {:?} ({:?})\nexpected stdout:\n{}\nactual stdout:\n{}",
                expected_end,
                actual_end,
                g.end,
                show_out(&r.stdout),
                show_out(&g.stdout)
            ),
        );
    }
    if g.stdout != r.stdout {
        let common = g.stdout.iter().zip(r.stdout.iter()).take_while(|(a, b)| a == b).count();
        return Verdict::Fail(
            format!("{prop}|stdout"),
            format!(
                "outputs differ at byte {common} (both end {:?})\nexpected stdout:\n{}\nactual stdout:\n{}",
                expected_end,
                show_out(&r.stdout),
                show_out(&g.stdout)
            ),
        );
    }
    Verdict::Agree
}

/// miniGo must accept the Go recorded from real `go build`-accepted runs and
/// reproduce the recorded outputs. Err = the judge cannot be trusted.
pub fn calibrate() -> Result<Value, String> {
    let mut accepted = 0u64;
    let mut reproduced = 0u64;
    let mut unsupported = vec![];
    let mut special = vec![];
    for c in corpus::pipeline_cases() {
        let (Some(go), Some(out)) = (&c.go, &c.out) else { continue };
        match go_check(go) {
            GoCheck::Unsupported(u) => unsupported.push(format!("{}:{}", c.name, u)),
            GoCheck::Rejected(errs) => {
                // one recording is a real `go build` error message
                if out.contains("cannot use") && out.contains("main.go:") {
                    special.push(format!("{}: recorded go build error reproduced ({})", c.name, errs[0].rule));
                    continue;
                }
                return Err(format!(
                    "miniGo rejects recorded Go of {}: {}",
                    c.name,
                    describe_go_errors(&errs, go)
                ));
            }
            GoCheck::Ok(p) => {
                accepted += 1;
                let mut opts = go_opts();
                if c.name.contains("go_statement") {
                    opts.sched = vec![1];
                }
                let r = minigo::run(&p, &opts);
                match &r.end {
                    minigo::End::Exit0 => {
                        if r.stdout != out.as_bytes() {
                            return Err(format!("miniGo output differs from the recording for {}", c.name));
                        }
                        reproduced += 1;
                    }
                    minigo::End::Panic(..) => {
                        if !out.as_bytes().starts_with(&r.stdout) || !out.contains("panic") {
                            return Err(format!("miniGo panics on {} but the recording does not", c.name));
                        }
                        reproduced += 1;
                        special.push(format!("{}: recorded panic reproduced", c.name));
                    }
                    other => return Err(format!("miniGo run of {} ended {:?}", c.name, other)),
                }
            }
        }
    }
    if accepted < 60 {
        return Err(format!("only {accepted} recorded Go files were accepted"));
    }
    Ok(json!({"recorded_go_accepted": accepted, "recorded_outputs_reproduced": reproduced,
              "unsupported": unsupported, "special": special}))
}
