//! Unit tests for the checker: small hand-written Go snippets, accepted and rejected per rule.

use minigo::{compile, ErrKind};

/// wraps top-level declarations and a main body into a complete program that uses fmt
fn prog(decls: &str, body: &str) -> String {
    format!(
        "package main\n\nimport (\n    \"fmt\"\n)\n\n{}\n\nfunc main() {{\n{}\n    fmt.Println(\"done\")\n}}\n",
        decls, body
    )
}

#[track_caller]
fn accept_src(src: &str) {
    if let Err(errs) = compile(src) {
        panic!("expected accept, got {:?}\n--- source ---\n{}", errs.iter().map(|e| e.to_string()).collect::<Vec<_>>(), src);
    }
}

#[track_caller]
fn accept(decls: &str, body: &str) {
    accept_src(&prog(decls, body));
}

#[track_caller]
fn reject_src(src: &str, rule: &str) {
    match compile(src) {
        Ok(_) => panic!("expected rejection [{}], but accepted\n--- source ---\n{}", rule, src),
        Err(errs) => {
            assert!(
                errs.iter().all(|e| e.kind != ErrKind::Unsupported),
                "expected rule {}, got unsupported {:?}\n{}",
                rule,
                errs[0].to_string(),
                src
            );
            assert!(
                errs.iter().any(|e| e.rule == rule),
                "expected rule {}, got {:?}\n--- source ---\n{}",
                rule,
                errs.iter().map(|e| e.to_string()).collect::<Vec<_>>(),
                src
            );
        }
    }
}

#[track_caller]
fn reject(decls: &str, body: &str, rule: &str) {
    reject_src(&prog(decls, body), rule);
}

#[track_caller]
fn unsupported_src(src: &str) {
    match compile(src) {
        Ok(_) => panic!("expected unsupported, but accepted\n{}", src),
        Err(errs) => {
            assert_eq!(errs.len(), 1, "unsupported must be reported alone: {:?}", errs.iter().map(|e| e.to_string()).collect::<Vec<_>>());
            assert_eq!(errs[0].kind, ErrKind::Unsupported, "got {}", errs[0]);
            assert!(errs[0].rule.starts_with("unsupported:"));
        }
    }
}

#[track_caller]
fn unsupported(decls: &str, body: &str) {
    unsupported_src(&prog(decls, body));
}

// ---------------------------------------------------------------- syntax / lexing

#[test]
fn syntax_accept() {
    accept("", "var x int32 = -5\n    var y int32 = x - -5\n    _ = y");
    accept("", "var x int32 = 1; var y int32 = 2; _ = x + y");
    accept("type T struct {}", "switch (T{}) {\n    }");
    accept("type T struct { a int32 }", "if (T{a: 1}) == (T{a: 1}) {\n    }");
    accept("", "var x int32 = (1 + 2) * 3\n    _ = x");
    accept("type P struct { f int32 }", "var p *P = &P{f: 1}\n    var y int32 = -p.f\n    _ = y");
    accept("", "/* block\n comment */ var x int32 = 1 // trailing\n    _ = x");
    accept("", "var s string = `raw\\n`\n    _ = s");
    accept("", "var a [3]int32 = [3]int32{1, 2, 3}\n    _ = a");
    accept("", "var x int32 = 0x10 + 0o7 + 0b1 + 017\n    _ = x");
    accept("", "var r int32 = 'a' + '\\n' + '\\x41' + '\\u00e9'\n    _ = r");
    accept("func f(a, b int32, c string) int32 { return a + b }", "_ = f(1, 2, \"x\")");
    accept("func f(int32, string) {}", "f(1, \"x\")");
    accept("", "var f func(int32) int32\n    _ = f");
    accept("", "for i := 0; i < 3; i = i + 1 {\n    }");
    accept("", "if x := 3; x > 2 {\n    } else if x > 1 {\n    } else {\n    }");
}

#[test]
fn syntax_reject() {
    reject("", "var x int32 = --5\n    _ = x", "syntax");
    reject("", "var a int32 = 1\n    var b int32 = 2\n    var x int32 = a--b\n    _ = x", "syntax");
    reject("type T struct {}", "switch T{} {\n    }", "syntax");
    reject("type T struct {}", "if T{} == T{} {\n    }", "syntax");
    reject("type T struct {}", "for T{} == T{} {\n    }", "syntax");
    reject("", "var x int32 = {\n        1\n    }\n    _ = x", "syntax");
    reject("", "var x int32 = \n    _ = x", "syntax");
    reject("", "var x int32 = 1 +\n    _ = x", "syntax"); // parses as `1 + _` followed by a stray `=`
    reject("", "x := [3]int32{1, 2, 3\n    }\n    _ = x", "syntax");
    reject("", "var s string = \"abc\n    _ = s", "syntax");
    reject("", "var x int32 = 08\n    _ = x", "syntax");
    reject("", "var x int32 = 1 $ 2\n    _ = x", "syntax");
    reject("", "if true\n    {\n    }", "syntax");
    reject("", "if true {\n    }\n    else {\n    }", "syntax");
    reject("", "var x int32 = 1 var y int32 = 2\n    _ = x", "syntax");
    reject("", "(T){}", "syntax");
    reject_src("package main\nfunc main() {}\nimport \"fmt\"\n", "syntax");
    reject_src("package main\nfunc main() {\n", "syntax");
    reject_src("package main\nx := 1\nfunc main() {}\n", "syntax");
    reject("", "var x int32 = y.(type)\n    _ = x", "syntax");
    reject("func f(a int32, string) {}", "", "syntax");
    reject("", "go 1", "syntax");
    reject("", "'ab'", "syntax");
    // keywords used as identifiers are syntax errors, not "unsupported"
    reject("", "var x int32 = map\n    _ = x", "syntax");
    reject("", "var x int32 = chan + 1\n    _ = x", "syntax");
    reject("", "defer = 1", "syntax");
    reject("", "go = 1", "syntax");
    reject("", "var x int32\n    x = range", "syntax");
    reject("", "var type int32 = 1", "syntax");
    reject("", "type = 1", "syntax");
    reject("", "select = 1", "syntax");
    reject("", "var x int32 = func\n    _ = x", "syntax");
    reject("", "var x int32 = struct\n    _ = x", "syntax");
}

#[test]
fn precedence() {
    // -x.f parses as -(x.f); *p.f as *(p.f)
    accept("type S struct { f int32 }", "var s S = S{f: 2}\n    var y int32 = -s.f\n    _ = y");
    accept(
        "type S struct { f *int32v }\ntype int32v struct { v int32 }",
        "var s S = S{f: &int32v{v: 1}}\n    var y int32v = *s.f\n    _ = y",
    );
    // 1 + 2 * 3 == 7 is constant true; && binds tighter than ||
    accept("", "var b bool = 1 + 2 * 3 == 7 && true || false\n    _ = b");
    // comparison is not associative in a meaningful way: (1 < 2) < 3 is bool < int
    reject("", "var b bool = 1 < 2 < 3\n    _ = b", "op-mismatch");
}

// ---------------------------------------------------------------- names and scopes

#[test]
fn names_accept() {
    accept("func f() int32 { return 1 }", "var x int32 = f()\n    _ = x");
    accept("", "var x int32 = 1\n    if true {\n        var x string = \"s\"\n        _ = x\n    }\n    _ = x");
    accept("func t3() int32 { return 3 }", "var t3 int32 = t3()\n    _ = t3");
    accept("func len(x int32) int32 { return x }", "var y int32 = len(5)\n    _ = y");
    accept("", "var string int32 = 1\n    _ = string");
    accept("func f(_ int32, _ int32) {}", "f(1, 2)");
    accept("func later() int32 { return early() }\nfunc early() int32 { return 1 }", "_ = later()");
    accept("type A struct { b *B }\ntype B struct { a *A }", "var a A\n    _ = a");
    accept("type T struct { x int32 }\nfunc (t T) m() int32 { return t.x }\nfunc (t T) n() int32 { return t.m() }", "var t T\n    _ = t.n()");
    accept("", "var x int32\n    switch x {\n    case 1:\n        var y int32 = 1\n        _ = y\n    case 2:\n        var y int32 = 2\n        _ = y\n    }");
}

#[test]
fn names_reject() {
    reject("", "var y int32 = x\n    _ = y", "undeclared");
    reject("", "_ = x\n    var x int32 = 1", "undeclared");
    reject("", "var x int32 = 1\n    var x int32 = 2\n    _ = x", "redeclared");
    reject("func f() {}\nfunc f() {}", "", "redeclared");
    reject("type T struct {}\nfunc T() {}", "", "redeclared");
    reject("func f(a int32, a int32) {}", "", "redeclared");
    reject("func f(a int32) {\n    var a int32 = 1\n    _ = a\n}", "", "redeclared");
    reject("func t3() int32 { return 3 }", "var t3 int32 = t3()\n    var u int32 = t3()\n    _ = u", "not-callable");
    reject("", "var len int32 = 1\n    var s string = \"a\"\n    _ = len(s)", "not-callable");
    reject("type T struct { x int32 }\nfunc (t T) x() {}", "", "redeclared");
    reject("type T struct {}\nfunc (t T) m() {}\nfunc (t T) m() {}", "", "redeclared");
    reject("type T struct { a int32; a string }", "", "redeclared");
    reject("", "var x int32 = _\n    _ = x", "blank-value");
    reject("func fmt() {}", "", "redeclared");
    reject("", "x := 1\n    x := 2\n    _ = x", "no-new-vars");
    reject("", "var int32 string = \"a\"\n    var y int32 = 1\n    _ = y\n    _ = int32", "not-a-type");
    reject_src("package main\nfunc notmain() {}\n", "missing-main");
    reject_src("package main\nfunc main(x int32) {}\n", "bad-main");
    reject("type T struct { t T }", "", "invalid-recursive-type");
    reject("type A = B\ntype B = A", "", "invalid-recursive-type");
    reject("func (x int32) m() {}", "", "bad-receiver");
}

// ---------------------------------------------------------------- unused

#[test]
fn unused_accept() {
    accept("", "var x int32 = 1\n    _ = x");
    accept("", "var x int32 = 1\n    var y int32 = x\n    _ = y");
    accept("func f(unused int32) {}", "f(1)");
    accept("type S struct { f int32 }", "var s S\n    s.f = 1");
    accept("type I interface { m() }\ntype T struct {}\nfunc (_ T) m() {}", "var i I = T{}\n    switch v := i.(type) {\n    case T:\n        _ = v\n    default:\n    }");
    accept("type P struct { v int32 }", "var p *P = &P{v: 1}\n    p.v = 2");
    accept("", "var a [2]int32\n    a[0] = 1");
}

#[test]
fn unused_reject() {
    reject("", "var x int32 = 1", "unused-var");
    reject("", "x := 1", "unused-var");
    reject("", "var x int32\n    x = 2", "unused-var");
    reject("", "if true {\n        var y int32 = 1\n    }", "unused-var");
    reject("type I interface { m() }\ntype T struct {}\nfunc (_ T) m() {}", "var i I = T{}\n    switch v := i.(type) {\n    case T:\n    }", "unused-var");
    reject_src("package main\nimport \"fmt\"\nfunc main() {}\n", "unused-import");
    reject_src("package main\nimport (\n \"fmt\"\n \"os\"\n)\nfunc main() { fmt.Println(1) }\n", "unused-import");
    reject_src("package main\nimport \"strings\"\nfunc main() {}\n", "unused-import");
}

// ---------------------------------------------------------------- assignability

#[test]
fn assign_accept() {
    accept("", "var x int32 = 5\n    var y int64 = 5\n    var f float64 = 5\n    var g float32 = 1.5\n    _ = x\n    _ = y\n    _ = f\n    _ = g");
    accept("type P struct {}", "var p *P = nil\n    var s []int32 = nil\n    var f func() = nil\n    var a any = nil\n    _ = p\n    _ = s\n    _ = f\n    _ = a");
    accept("type I interface { m() }\ntype T struct {}\nfunc (_ T) m() {}", "var i I = T{}\n    var a any = i\n    _ = a");
    accept("type A = int32", "var a A = 1\n    var b int32 = a\n    _ = b");
    accept("type U struct {}", "var u struct{} = U{}\n    var v U = struct{}{}\n    _ = u\n    _ = v");
    accept("", "var a any = 1\n    var b any = \"s\"\n    var c any = 1.5\n    _ = a\n    _ = b\n    _ = c");
    accept("type I interface { m() }\ntype J interface { m(); n() }", "var j J\n    var i I = j\n    _ = i");
    accept("", "var b byte = 1\n    var u uint8 = b\n    var r rune = 2\n    var i int32 = r\n    _ = u\n    _ = i");
}

#[test]
fn assign_reject() {
    reject("", "var x int32 = \"s\"\n    _ = x", "assign-mismatch");
    reject("", "var x int32 = 1\n    var y int64 = x\n    _ = y", "assign-mismatch");
    reject("", "var s string = 1\n    _ = s", "assign-mismatch");
    reject("", "var x int32 = nil\n    _ = x", "assign-mismatch");
    reject("type A struct {}\ntype B struct {}", "var a A = B{}\n    _ = a", "assign-mismatch");
    reject("type I interface { m() }\ntype T struct {}", "var i I = T{}\n    _ = i", "missing-method");
    reject("type I interface { m() int32 }\ntype T struct {}\nfunc (_ T) m() {}", "var i I = T{}\n    _ = i", "missing-method");
    reject("type I interface { m() }", "var i I = 5\n    _ = i", "missing-method");
    reject("", "var x int32\n    x = true\n    _ = x", "assign-mismatch");
    reject("", "var x = nil\n    _ = x", "untyped-nil");
    reject("func f() {}", "var x int32 = f()\n    _ = x", "no-value");
    reject("", "var b bool = 1\n    _ = b", "assign-mismatch");
}

// ---------------------------------------------------------------- struct / array literals

#[test]
fn literal_accept() {
    accept("type P struct { x int32; y string }", "var p P = P{x: 1, y: \"a\"}\n    var q P = P{y: \"b\"}\n    var r P = P{}\n    var s P = P{1, \"c\"}\n    _ = p\n    _ = q\n    _ = r\n    _ = s");
    accept("", "var a [3]int32 = [3]int32{1, 2}\n    var b [0]int32 = [0]int32{}\n    var s []string = []string{\"a\", \"b\"}\n    _ = a\n    _ = b\n    _ = s");
    accept("type P struct { x int32 }", "var p *P = &P{\n        x: 1,\n    }\n    _ = p");
    accept("", "var u struct{} = struct{}{}\n    _ = u");
    accept("type P struct { a any }", "var p P = P{a: 1}\n    _ = p");
}

#[test]
fn literal_reject() {
    reject("type P struct { x int32 }", "var p P = P{z: 1}\n    _ = p", "unknown-field");
    reject("type P struct { x int32 }", "var p P = P{x: 1, x: 2}\n    _ = p", "dup-field");
    reject("type P struct { x int32 }", "var p P = P{x: \"s\"}\n    _ = p", "assign-mismatch");
    reject("type P struct { x int32; y int32 }", "var p P = P{1}\n    _ = p", "bad-literal");
    reject("type P struct { x int32; y int32 }", "var p P = P{1, 2, 3}\n    _ = p", "bad-literal");
    reject("type P struct { x int32; y int32 }", "var p P = P{x: 1, 2}\n    _ = p", "bad-literal");
    reject("", "var a [2]int32 = [2]int32{1, 2, 3}\n    _ = a", "const-index");
    reject("", "var a [2]int32 = [2]int32{1, \"s\"}\n    _ = a", "assign-mismatch");
    reject("", "var x int32 = int32{}\n    _ = x", "bad-literal");
    reject("", "var y int32 = 1\n    var x int32 = y{}\n    _ = x", "not-a-type");
}

// ---------------------------------------------------------------- calls

#[test]
fn call_accept() {
    accept("func f(a int32, b string) int32 { return a }", "var x int32 = f(1, \"s\")\n    _ = x");
    accept("func f() {}", "f()\n    (f())");
    accept("func f(g func(int32) int32) int32 { return g(1) }\nfunc h(x int32) int32 { return x }", "_ = f(h)");
    accept("type V struct { f func(any) string }\nfunc w(a any) string { return \"\" }", "var v *V = &V{f: w}\n    _ = v.f(1)");
    accept("func f(a any) {}", "f(1)\n    f(\"s\")\n    f(nil)");
    accept("", "var s []int32 = nil\n    s = append(s, 1, 2)\n    var n int32 = int32(len(s))\n    _ = n");
    accept("", "panic(\"x\")");
    accept("", "println(\"a\", 1, true, 1.5)");
    accept("", "var s string = fmt.Sprintf(\"%d %s\", 1, \"x\")\n    _ = s");
}

#[test]
fn call_reject() {
    reject("func f(a int32) {}", "f()", "arg-count");
    reject("func f(a int32) {}", "f(1, 2)", "arg-count");
    reject("func f(a int32) {}", "f(\"s\")", "arg-mismatch");
    reject("func f(a int32) {}", "var x int64 = 1\n    f(x)", "arg-mismatch");
    reject("", "var x int32 = 1\n    x()", "not-callable");
    reject("", "var s string = \"a\"\n    _ = s(1)", "not-callable");
    reject("", "_ = len(1)", "arg-mismatch");
    reject("", "_ = len()", "arg-count");
    reject("", "var s []int32\n    s = append(s, \"x\")", "arg-mismatch");
    reject("", "var x int32 = 1\n    _ = append(x, 1)", "arg-mismatch");
    reject("", "_ = append(nil, 1)", "arg-mismatch");
    reject("", "panic()", "arg-count");
    reject("", "_ = fmt.Sprintf(1)", "arg-mismatch");
    reject("", "_ = fmt.Sprintf()", "arg-count");
    reject("", "_ = fmt.sprintf(\"x\")", "undeclared");
    reject("", "_ = int32(1, 2)", "arg-count");
}

// ---------------------------------------------------------------- returns

#[test]
fn return_accept() {
    accept("func f() int32 { return 1 }", "_ = f()");
    accept("func f(b bool) int32 {\n    if b {\n        return 1\n    } else {\n        return 2\n    }\n}", "_ = f(true)");
    accept("func f() int32 {\n    for {\n    }\n}", "_ = f");
    accept("func f() int32 {\n    panic(\"x\")\n}", "_ = f");
    accept("func f(x int32) int32 {\n    switch x {\n    case 1:\n        return 1\n    default:\n        return 2\n    }\n}", "_ = f(1)");
    accept("func f() {\n    return\n}", "f()");
    accept("type I interface { m() }\ntype T struct {}\nfunc (_ T) m() {}\nfunc f() I { return T{} }", "_ = f()");
    accept("func f() int32 {\n    {\n        return 1\n    }\n}", "_ = f()");
    accept("func f(x any) int32 {\n    switch x.(type) {\n    case int32:\n        return 1\n    default:\n        panic(\"\")\n    }\n}", "_ = f(1)");
}

#[test]
fn return_reject() {
    reject("func f() int32 { return \"s\" }", "", "return-mismatch");
    reject("func f() int32 { return }", "", "return-mismatch");
    reject("func f() { return 1 }", "", "return-mismatch");
    reject("func f() int32 { return 1, 2 }", "", "return-mismatch");
    reject("func f() int32 {\n}", "", "missing-return");
    reject("func f(b bool) int32 {\n    if b {\n        return 1\n    }\n}", "", "missing-return");
    reject("func f() int32 {\n    for {\n        break\n    }\n}", "", "missing-return");
    reject("func f(x int32) int32 {\n    switch x {\n    case 1:\n        return 1\n    }\n}", "", "missing-return");
    reject("func f(x int32) int32 {\n    switch x {\n    case 1:\n        break\n    default:\n        return 2\n    }\n}", "", "missing-return");
    reject("func f(b bool) int32 {\n    for b {\n        return 1\n    }\n}", "", "missing-return");
    reject("func panic(s string) {}\nfunc f() int32 {\n    panic(\"x\")\n}", "", "missing-return");
    reject("func f() int32", "", "missing-body");
}

// ---------------------------------------------------------------- addressability

#[test]
fn address_accept() {
    accept("type P struct { x int32 }", "var p *P = &P{x: 1}\n    p.x = 2\n    *p = P{x: 3}");
    accept("type P struct { x int32 }", "var v P\n    v.x = 1\n    _ = v");
    accept("", "var a [3]int32\n    a[1] = 2\n    var s []int32 = []int32{1}\n    s[0] = 3\n    _ = a");
    accept("type P struct { a [2]int32 }", "var p P\n    p.a[1] = 5\n    _ = p");
    accept("type P struct { x int32 }\nfunc f() *P { return &P{} }", "f().x = 1");
    accept("type P struct { x int32 }\nfunc f() []P { return []P{P{}} }", "f()[0].x = 1");
}

#[test]
fn address_reject() {
    reject("type P struct { x int32 }\nfunc f() P { return P{} }", "f().x = 1", "not-addressable");
    reject("func f() [2]int32 { return [2]int32{} }", "f()[0] = 1", "not-addressable");
    reject("", "var s string = \"abc\"\n    s[0] = 1", "not-addressable");
    reject("func f() {}", "f = nil", "not-addressable");
    reject("", "1 = 2", "not-addressable");
    reject("", "y = 2", "undeclared");
    reject("func f() int32 { return 1 }", "var p *int32v = &f()\n    _ = p", "undeclared");
    reject("func f() int32 { return 1 }\ntype Q struct {}", "_ = &f()", "not-addressable");
    reject("", "_ = &1", "not-addressable");
    reject("", "var x int32 = 1\n    _ = *x", "op-mismatch");
    reject("", "_ = *nil", "op-mismatch");
}

// ---------------------------------------------------------------- operators

#[test]
fn operator_accept() {
    accept("", "var a int32 = 1\n    var b int32 = a + a - a * a / a % a\n    _ = b");
    accept("", "var f float64 = 1.5\n    var g float64 = f + f - f * f / f\n    _ = g");
    accept("", "var s string = \"a\"\n    var t string = s + \"b\"\n    var b bool = s < t\n    _ = b");
    accept("", "var a int32 = 1\n    var b bool = a < 2 && a >= 0 || !(a == 1)\n    _ = b");
    accept("type P struct { x int32 }", "var p P\n    var q P\n    var b bool = p == q\n    _ = b");
    accept("type P struct {}", "var p *P\n    var b bool = p == nil || nil != p\n    _ = b");
    accept("", "var s []int32\n    var f func()\n    var b bool = s == nil && f == nil\n    _ = b");
    accept("", "var a any = 1\n    var c any = \"x\"\n    var b bool = a == c || a == 1\n    _ = b");
    accept("", "var a [2]int32\n    var c [2]int32\n    var b bool = a == c\n    _ = b");
    accept("", "var f float64 = 1\n    var g float64 = f / 0\n    _ = g");
    accept("", "var x int32 = -(-5)\n    var y int32 = +x\n    _ = y");
    accept("type I interface { m() }\ntype T struct {}\nfunc (_ T) m() {}", "var i I = T{}\n    var b bool = i == T{}\n    _ = b");
}

#[test]
fn operator_reject() {
    reject("", "var a int32 = 1\n    var b int64 = 2\n    _ = a + b", "op-mismatch");
    reject("", "var a int32 = 1\n    _ = a + \"s\"", "op-mismatch");
    reject("", "var s string = \"a\"\n    _ = s - s", "op-mismatch");
    reject("", "var f float64 = 1\n    _ = f % f", "op-mismatch");
    reject("", "var b bool = true\n    _ = b + b", "op-mismatch");
    reject("", "var b bool = true\n    _ = b < b", "op-mismatch");
    reject("", "var a int32 = 1\n    _ = a && a", "op-mismatch");
    reject("", "var a int32 = 1\n    _ = !a", "op-mismatch");
    reject("", "var s string = \"a\"\n    _ = -s", "op-mismatch");
    reject("", "var s []int32\n    var t []int32\n    _ = s == t", "not-comparable");
    reject("", "var f func()\n    var g func()\n    _ = f == g", "not-comparable");
    reject("type P struct { s []int32 }", "var p P\n    var q P\n    _ = p == q", "not-comparable");
    reject("", "var a [2][]int32\n    var c [2][]int32\n    _ = a == c", "not-comparable");
    reject("type A struct {}\ntype B struct {}", "var a A\n    var b B\n    _ = a == b", "op-mismatch");
    reject("", "_ = nil == nil", "op-mismatch");
    reject("", "var x int32 = 1\n    _ = x == nil", "op-mismatch");
    reject("", "var a any\n    var c any\n    _ = a < c", "op-mismatch");
    reject("", "var a int32 = 1\n    _ = a == 1.5", "const-overflow");
    reject("type P struct {}", "var p *P\n    _ = p + p", "op-mismatch");
}

// ---------------------------------------------------------------- constants

#[test]
fn const_accept() {
    accept("", "var a int8 = 127\n    var b int8 = -128\n    var c uint8 = 255\n    var d uint64 = 18446744073709551615\n    var e int64 = -9223372036854775808\n    _ = a\n    _ = b\n    _ = c\n    _ = d\n    _ = e");
    accept("", "var a int32 = 1.0\n    var b float32 = 16777216\n    var c int8 = 100 + 27\n    var d int32 = 7 / 2\n    _ = a\n    _ = b\n    _ = c\n    _ = d");
    accept("", "var a int8 = int8(100) + int8(27)\n    var f float64 = float64(3)\n    var s string = string(65)\n    _ = a\n    _ = f\n    _ = s");
    accept("", "var a [3]int32\n    _ = a[2]\n    _ = a[1.0]\n    _ = \"abc\"[2]");
    accept("", "var x int32 = 5\n    var y int32 = x / 2 % 3\n    _ = y");
    accept("", "var u uint8 = 'a'\n    var r rune = 'x' + 1\n    _ = u\n    _ = r");
    accept("", "var s string = \"a\" + \"b\"\n    var b bool = \"a\" < \"b\"\n    var c bool = 1 < 2\n    _ = s\n    _ = b\n    _ = c");
    accept("", "var i int32 = 3\n    var s string = string(i)\n    var n int = len(\"abc\")\n    _ = s\n    _ = n");
}

#[test]
fn const_reject() {
    reject("", "var a int8 = 200\n    _ = a", "const-overflow");
    reject("", "var a uint8 = -1\n    _ = a", "const-overflow");
    reject("", "var a int32 = 1.5\n    _ = a", "const-overflow");
    reject("", "var a int8 = 100 + 100\n    _ = a", "const-overflow");
    reject("", "var a int8 = int8(100) + int8(100)\n    _ = a", "const-overflow");
    reject("", "var a int8 = int8(200)\n    _ = a", "const-overflow");
    reject("", "var a int32 = int32(1.5)\n    _ = a", "const-overflow");
    reject("", "var a int32 = 2147483648\n    _ = a", "const-overflow");
    reject("", "var a float32 = 1e39\n    _ = a", "const-overflow");
    reject("", "var x int32 = 1\n    _ = x / 0", "const-div-zero");
    reject("", "var x int32 = 1\n    _ = x % 0", "const-div-zero");
    reject("", "var x int32 = 1 / 0\n    _ = x", "const-div-zero");
    reject("", "var x float64 = 1.0 / 0.0\n    _ = x", "const-div-zero");
    reject("", "var a [3]int32\n    _ = a[5]", "const-index");
    reject("", "var a [3]int32\n    _ = a[-1]", "const-index");
    reject("", "var s []int32\n    _ = s[-1]", "const-index");
    reject("", "_ = \"abc\"[3]", "const-index");
    reject("", "var a [3]int32\n    _ = a[1.5]", "bad-index");
    reject("", "var a [3]int32\n    var f float64 = 1\n    _ = a[f]", "bad-index");
    reject("", "var a [3]int32\n    a[3] = 1", "const-index");
    reject("", "var x int8 = 1\n    var y int8 = x + 200\n    _ = y", "const-overflow");
    reject("", "_ = int32(\"a\")", "bad-conversion");
    reject("", "var b bool = true\n    _ = int32(b)", "bad-conversion");
    reject("", "var a [-1]int32\n    _ = a", "bad-array-length");
}

// ---------------------------------------------------------------- switch

#[test]
fn switch_accept() {
    accept("", "var x int32 = 1\n    switch x {\n    case 1:\n    case 2, 3:\n    default:\n    }");
    accept("", "var s string = \"a\"\n    switch s {\n    case \"a\":\n    case \"b\":\n    }");
    accept("", "var b bool = true\n    switch b {\n    case true:\n    case false:\n    }");
    accept("", "var f float64 = 1\n    switch f {\n    case 1.5:\n    case 2:\n    }");
    accept("", "var x int32 = 1\n    switch {\n    case x > 1:\n    case x < 0:\n    }");
    accept("type I interface { m() }\ntype A struct {}\nfunc (_ A) m() {}\ntype B struct {}\nfunc (_ B) m() {}", "var i I = A{}\n    switch i := i.(type) {\n    case A:\n        _ = i\n    case B:\n        _ = i\n    }");
    accept("", "var a any = 1\n    switch a.(type) {\n    case int32, string:\n    case nil:\n    default:\n    }");
    accept("", "for {\n        switch 1 {\n        case 1:\n            break\n        }\n        break\n    }");
    accept("", "var a any = 1\n    var x int32 = a.(int32)\n    _ = x");
    accept("type I interface { m() }", "var a any\n    var i I = a.(I)\n    _ = i");
}

#[test]
fn switch_reject() {
    reject("", "var x int32 = 1\n    switch x {\n    case 1:\n    case 1:\n    }", "dup-case");
    reject("", "var s string = \"a\"\n    switch s {\n    case \"a\", \"a\":\n    }", "dup-case");
    reject("", "var f float64 = 1\n    switch f {\n    case 1.5:\n    case 1.5:\n    }", "dup-case");
    reject("", "var x int32 = 1\n    switch x {\n    default:\n    default:\n    }", "dup-case");
    reject("", "var x int32 = 1\n    switch x {\n    case \"a\":\n    }", "op-mismatch");
    reject("", "var x int8 = 1\n    switch x {\n    case 300:\n    }", "const-overflow");
    reject("", "var a any = 1\n    switch a.(type) {\n    case int32:\n    case int32:\n    }", "dup-case");
    reject("type I interface { m() }\ntype A struct {}", "var i I\n    switch i.(type) {\n    case A:\n    }", "impossible-case");
    reject("type I interface { m() }", "var i I\n    switch i.(type) {\n    case int32:\n    }", "impossible-case");
    reject("", "var x int32 = 1\n    switch x.(type) {\n    }", "bad-assertion");
    reject("", "var x int32 = 1\n    _ = x.(int32)", "bad-assertion");
    reject("type I interface { m() }\ntype A struct {}", "var i I\n    _ = i.(A)", "bad-assertion");
    reject("", "break", "bad-break");
    reject("", "if true {\n        break\n    }", "bad-break");
    reject("", "continue", "bad-break");
    reject("", "switch 1 {\n    case 1:\n        continue\n    }", "bad-break");
    reject("", "var a any = 1\n    switch a.(type) {\n    case nil:\n    case nil:\n    }", "dup-case");
}

// ---------------------------------------------------------------- expression statements

#[test]
fn stmt_accept() {
    accept("func f() int32 { return 1 }", "f()");
    accept("func f() {}", "go f()");
    accept("type T struct {}\nfunc (t T) m() {}", "var t T\n    t.m()\n    go t.m()");
    accept("", "fmt.Print(\"a\")\n    _ = fmt.Sprintf(\"x\")\n    fmt.Sprintf(\"x\")");
}

#[test]
fn stmt_reject() {
    reject("", "var x int32 = 1\n    x + 1", "unused-value");
    reject("", "var x int32 = 1\n    x", "unused-value");
    reject("", "var s string = \"a\"\n    len(s)", "unused-value");
    reject("", "var s []int32\n    append(s, 1)", "unused-value");
    reject("", "var x int64 = 1\n    int32(x)", "unused-value");
    reject("", "1", "unused-value");
    reject("", "var x int32 = 1\n    go int32(x)", "bad-go");
    reject("", "var s string = \"a\"\n    go len(s)", "unused-value");
    reject("", "if 1 {\n    }", "non-bool-cond");
    reject("", "for \"s\" {\n    }", "non-bool-cond");
}

// ---------------------------------------------------------------- unsupported (fail closed)

#[test]
fn unsupported_constructs() {
    unsupported_src("package main\nimport \"time\"\nfunc main() { time.Sleep(1) }\n");
    unsupported_src("package main\nimport \"strings\"\nfunc main() { _ = strings.ToUpper(\"a\") }\n");
    unsupported_src("package main\nvar g int32\nfunc main() {}\n");
    unsupported_src("package main\nconst c = 1\nfunc main() {}\n");
    unsupported_src("package main\nfunc f() (int32, string) { return 1, \"\" }\nfunc main() {}\n");
    unsupported_src("package main\nfunc main() { f := func() {}\n f() }\n");
    unsupported_src("package main\nfunc main() { var m map[string]int32\n _ = m }\n");
    unsupported_src("package main\nfunc main() { var c chan int32\n _ = c }\n");
    unsupported_src("package main\nfunc main() { x := 1\n x++ }\n");
    unsupported_src("package main\nfunc main() { x := 1\n x += 1 }\n");
    unsupported_src("package main\nfunc main() { x := 1 << 3\n _ = x }\n");
    unsupported_src("package main\nfunc main() { x := 1 & 3\n _ = x }\n");
    unsupported_src("package main\nfunc main() { s := []int32{1}\n _ = s[0:1] }\n");
    unsupported_src("package main\nfunc main() { for i := range 3 { _ = i } }\n");
    unsupported_src("package main\nfunc main() { defer main() }\n");
    unsupported_src("package main\nfunc main() { x := 1\n p := &x\n _ = p }\n");
    unsupported_src("package main\ntype T struct{}\nfunc (t *T) m() {}\nfunc main() {}\n");
    unsupported_src("package main\ntype T int32\nfunc main() {}\n");
    unsupported_src("package main\nfunc f[T any](x T) {}\nfunc main() {}\n");
    unsupported_src("package main\nfunc main() { a, b := 1, 2\n _ = a\n _ = b }\n");
    unsupported_src("package main\nfunc main() { var x float64 = 1.5 + 2.5\n _ = x }\n");
    unsupported_src("package main\nfunc main() { var x float64 = 0xffffffffffffffffffffffffffffffffffffffff\n _ = x }\n");
    unsupported_src("package main\nfunc main() { var x = 100000000000000000000000000000000000000000 / 100000000000000000000000000000000000000000\n _ = x }\n");
    // a huge decimal integer literal is fine as a float constant, and a certain overflow for ints
    accept_src("package main\nfunc main() { var x float64 = 100000000000000000000000000000000000000000\n _ = x }\n");
    reject_src("package main\nfunc main() { var x int64 = 100000000000000000000000000000000000000000\n _ = x }\n", "const-overflow");
    unsupported_src("package main\nimport \"fmt\"\nfunc main() { fmt.Printf(\"x\") }\n");
    unsupported_src("package main\nfunc main() { var e error\n _ = e }\n");
    unsupported_src("package main\nfunc main() { x := make([]int32, 3)\n _ = x }\n");
    unsupported_src("package lib\nfunc F() {}\n");
    unsupported("", "L:\n    for {\n        break L\n    }");
    // nesting deeper than the cap
    let deep = format!("package main\nfunc main() {{ _ = {}1{} }}\n", "(".repeat(3000), ")".repeat(3000));
    unsupported_src(&deep);
    let chain = format!("package main\nfunc main() {{ _ = 1{} }}\n", " + 1".repeat(5000));
    unsupported_src(&chain);
}

#[test]
fn declared_idents_are_listed() {
    let p = compile(&prog(
        "type T struct { fld int32 }\ntype I interface { meth() }\nfunc (t T) meth() {}\nfunc helper(arg int32) int32 { var loc int32 = arg\n return loc }",
        "_ = helper(1)",
    ))
    .unwrap();
    let ids = p.declared_idents();
    let has = |n: &str, k: &str| ids.iter().any(|(name, kind, _)| name == n && *kind == k);
    assert!(has("T", "type"));
    assert!(has("I", "type"));
    assert!(has("fld", "field"));
    assert!(has("meth", "method"));
    assert!(has("helper", "func"));
    assert!(has("main", "func"));
    assert!(has("arg", "param"));
    assert!(has("loc", "var"));
    assert!(has("t", "param"));
}

#[test]
fn deep_nesting_is_safe() {
    // just below the nesting cap: must not crash; either accepted or a clean verdict
    let n = 1900;
    let cases: Vec<String> = vec![
        format!("package main\nfunc main() {{ _ = {}1{} }}\n", "(".repeat(n), ")".repeat(n)),
        format!("package main\nfunc main() {{ var x int32 = 1\n _ = {}x }}\n", "-".repeat(1).repeat(1) + &"- ".repeat(n)),
        format!("package main\nfunc f(x int32) int32 {{ return x }}\nfunc main() {{ _ = {}1{} }}\n", "f(".repeat(n), ")".repeat(n)),
        format!("package main\nfunc main() {{ var p {}int32\n _ = p }}\n", "*".repeat(n)),
        format!("package main\nfunc main() {{ var p {}int32\n _ = p }}\n", "[]".repeat(n)),
        format!("package main\nfunc main() {{ _ = {}nil{} }}\n", "[]any{".repeat(n), "}".repeat(n)),
        format!("package main\nfunc main() {{ {} {} }}\n", "{".repeat(n), "}".repeat(n)),
        format!("package main\nfunc main() {{ {} {} }}\n", "if true {".repeat(n), "}".repeat(n)),
        format!("package main\nfunc main() {{ _ = 1{} }}\n", " + 1".repeat(n)),
        format!("package main\nfunc main() {{ _ = 1{}{} }}\n", " + (1".repeat(n), ")".repeat(n)),
        format!("package main\nfunc main() {{ if true {{ }} {} }}\n", "else if true { } ".repeat(n)),
        format!("package main\ntype T struct {{ t *T }}\nfunc main() {{ var x T\n _ = x{} }}\n", ".t".repeat(n)),
        format!("package main\nfunc main() {{ for {{ {} {} }} }}\n", "switch 1 { case 1: ".repeat(n), "}".repeat(n)),
    ];
    for (i, src) in cases.iter().enumerate() {
        match compile(src) {
            Ok(_) => {}
            Err(errs) => {
                assert!(
                    !errs[0].rule.contains("internal"),
                    "case {}: internal error {}",
                    i,
                    errs[0]
                );
            }
        }
    }
    // and far beyond the cap: always Unsupported, never a crash
    let n = 100_000;
    for src in [
        format!("package main\nfunc main() {{ _ = {}1{} }}\n", "(".repeat(n), ")".repeat(n)),
        format!("package main\nfunc main() {{ var x int32 = 1\n _ = {}x }}\n", "- ".repeat(n)),
        format!("package main\nfunc main() {{ {} {} }}\n", "{".repeat(n), "}".repeat(n)),
        format!("package main\nfunc main() {{ _ = 1{} }}\n", " + 1".repeat(n)),
        format!("package main\nfunc main() {{ var p {}int32\n _ = p }}\n", "*".repeat(n)),
        format!("package main\nfunc main() {{ if true {{ }} {} }}\n", "else if true { } ".repeat(n)),
    ] {
        unsupported_src(&src);
    }
}
