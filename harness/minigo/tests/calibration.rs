//! Calibration against the recorded goml pipeline outputs (accepted by real Go).

use minigo::{compile, run, End, ErrKind, PanicKind, RunOpts};
use std::path::Path;

const ROOT: &str = "/repo/crates/compiler/src/tests/pipeline";

fn opts() -> RunOpts {
    RunOpts { max_steps: 200_000_000, sched: Vec::new(), max_output: 1 << 24 }
}

#[test]
fn calibration() {
    let mut dirs: Vec<_> = std::fs::read_dir(ROOT)
        .expect("pipeline dir")
        .filter_map(|e| e.ok())
        .map(|e| e.path())
        .filter(|p| p.join("main.gom.go").exists() && p.join("main.gom.out").exists())
        .collect();
    dirs.sort();
    assert!(dirs.len() >= 70, "expected the pipeline corpus, found {}", dirs.len());
    let mut failures = Vec::new();
    println!("{:<34} {:<8} detail", "case", "result");
    for d in &dirs {
        let name = d.file_name().unwrap().to_string_lossy().to_string();
        let res = check_one(d, &name);
        match &res {
            Ok(detail) => println!("{:<34} {:<8} {}", name, "pass", detail),
            Err(detail) => {
                println!("{:<34} {:<8} {}", name, "FAIL", detail);
                failures.push(name.clone());
            }
        }
    }
    assert!(failures.is_empty(), "calibration failures: {:?}", failures);
}

fn check_one(dir: &Path, name: &str) -> Result<String, String> {
    let text = std::fs::read_to_string(dir.join("main.gom.go")).map_err(|e| e.to_string())?;
    let expected = std::fs::read(dir.join("main.gom.out")).map_err(|e| e.to_string())?;
    let uses_other_pkg = name.starts_with("043_") || name.starts_with("044_");
    // A recording that starts with "# command-line-arguments" is the output of a failed real
    // `go build` (058_lowercase_constructors): the judge must reject at the same position.
    if expected.starts_with(b"# command-line-arguments") {
        let exp = String::from_utf8_lossy(&expected).to_string();
        let first = exp.lines().nth(1).unwrap_or("");
        let mut parts = first.trim_start_matches("./main.go:").splitn(3, ':');
        let line: u32 = parts.next().and_then(|x| x.parse().ok()).ok_or("bad recording")?;
        let col: u32 = parts.next().and_then(|x| x.parse().ok()).ok_or("bad recording")?;
        return match compile(&text) {
            Ok(_) => Err("real go rejected this program but minigo accepted it".into()),
            Err(errs) => {
                let e = &errs[0];
                if e.kind == ErrKind::Type && e.line == line && e.col == col {
                    Ok(format!("rejected like real go at {}:{} [{}]", line, col, e.rule))
                } else {
                    Err(format!("expected type error at {}:{}, got {}", line, col, e))
                }
            }
        };
    }
    let prog = match compile(&text) {
        Ok(p) => {
            if uses_other_pkg {
                return Err("expected Unsupported (package time)".into());
            }
            p
        }
        Err(errs) => {
            if uses_other_pkg && errs.len() == 1 && errs[0].kind == ErrKind::Unsupported {
                return Ok(format!("unsupported as expected: {}", errs[0].rule));
            }
            return Err(format!("compile: {}", errs.iter().map(|e| e.to_string()).collect::<Vec<_>>().join(" | ")));
        }
    };
    let mut o = opts();
    if name.starts_with("042_") {
        // main busy-waits on a flag set by a goroutine: under the all-zero schedule the
        // current activation is always re-chosen, so main spins until the step limit.
        let spin = run(&prog, &RunOpts { max_steps: 100_000, sched: Vec::new(), max_output: 1 << 20 });
        if spin.end != End::StepLimit {
            return Err(format!("all-zero schedule: expected StepLimit, got {:?}", spin.end));
        }
        // choosing the other activation once lets the child run to completion
        o.sched = vec![1];
    }
    let r = run(&prog, &o);
    if name.starts_with("025_") {
        return match &r.end {
            End::Panic(PanicKind::Explicit, _) if expected.starts_with(&r.stdout) => {
                Ok(format!("explicit panic, {} stdout bytes are a prefix", r.stdout.len()))
            }
            other => Err(format!("expected explicit panic with stdout prefix, got {:?}", other)),
        };
    }
    if r.end != End::Exit0 {
        return Err(format!("end = {:?}; stderr = {}", r.end, String::from_utf8_lossy(&r.stderr)));
    }
    if r.stdout != expected {
        let got = String::from_utf8_lossy(&r.stdout);
        let exp = String::from_utf8_lossy(&expected);
        let line = got.lines().zip(exp.lines()).position(|(a, b)| a != b);
        return Err(format!(
            "stdout differs (first differing line {:?}): got {:?} expected {:?}",
            line,
            line.and_then(|l| got.lines().nth(l)),
            line.and_then(|l| exp.lines().nth(l))
        ));
    }
    Ok(format!("{} bytes, {} steps, spawned {}, choices {:?}", r.stdout.len(), r.steps, r.spawned, r.choice_points))
}
