//! Interpreter tests: arithmetic, value semantics, slices, interfaces, formatting, scheduler.

use minigo::{compile, run, End, PanicKind, RunOpts, RunResult};

fn prog(decls: &str, body: &str) -> String {
    format!(
        "package main\n\nimport (\n    \"fmt\"\n)\n\n{}\n\nfunc keepFmtUsed() {{\n fmt.Print()\n}}\n\nfunc main() {{\n{}\n}}\n",
        decls, body
    )
}

#[track_caller]
fn exec_with(src: &str, sched: Vec<u8>, max_steps: u64) -> RunResult {
    let p = match compile(src) {
        Ok(p) => p,
        Err(e) => panic!("compile failed: {:?}\n{}", e.iter().map(|x| x.to_string()).collect::<Vec<_>>(), src),
    };
    run(&p, &RunOpts { max_steps, sched, max_output: 1 << 20 })
}

#[track_caller]
fn out(decls: &str, body: &str) -> String {
    let r = exec_with(&prog(decls, body), Vec::new(), 10_000_000);
    assert_eq!(r.end, End::Exit0, "stderr: {}", String::from_utf8_lossy(&r.stderr));
    String::from_utf8(r.stdout).unwrap()
}

#[track_caller]
fn end_of(decls: &str, body: &str) -> (String, End) {
    let r = exec_with(&prog(decls, body), Vec::new(), 10_000_000);
    (String::from_utf8_lossy(&r.stdout).to_string(), r.end)
}

#[test]
fn wrapping_arithmetic() {
    assert_eq!(
        out("", "var a int8 = 127\n var b int8 = 1\n fmt.Println(a + b, a * a, -a - b - b)\n var m int8 = -128\n var n int8 = -1\n fmt.Println(m / n, m % n, -m)"),
        "-128 1 127\n-128 0 -128\n"
    );
    assert_eq!(
        out("", "var a uint8 = 250\n var b uint8 = 10\n fmt.Println(a + b, b - a, a * b)\n var u uint32 = 0\n var one uint32 = 1\n fmt.Println(u - one)\n var w uint64 = 0\n var o uint64 = 1\n fmt.Println(w - o, (w - o) / 2, (w-o) > o)"),
        "4 16 196\n4294967295\n18446744073709551615 9223372036854775807 true\n"
    );
    assert_eq!(
        out("", "var a int32 = 2147483647\n var b int32 = 1\n fmt.Println(a + b)\n var c int64 = 9223372036854775807\n var d int64 = 1\n fmt.Println(c + d)\n var x int32 = -7\n var y int32 = 2\n fmt.Println(x / y, x % y)"),
        "-2147483648\n-9223372036854775808\n-3 -1\n"
    );
    assert_eq!(
        out("", "var x int64 = 300\n fmt.Println(int8(x), uint8(x), int32(uint8(x)))\n var n int32 = -1\n fmt.Println(uint32(n), uint64(n), int64(n))\n var f float64 = -2.9\n var seven int32 = 7\n fmt.Println(int32(f), float32(f), float64(seven) / 2)"),
        "44 44 44\n4294967295 18446744073709551615 -1\n-2 -2.9 3.5\n"
    );
}

#[test]
fn division_by_zero_panics() {
    let (o, e) = end_of("", "var x int32 = 1\n var z int32 = 0\n fmt.Println(\"before\")\n fmt.Println(x / z)");
    assert_eq!(o, "before\n");
    assert_eq!(e, End::Panic(PanicKind::DivideByZero, "runtime error: integer divide by zero".into()));
    let (_, e) = end_of("", "var x uint8 = 1\n var z uint8 = 0\n fmt.Println(x % z)");
    assert!(matches!(e, End::Panic(PanicKind::DivideByZero, _)));
    // float division by zero does not panic
    assert_eq!(
        out("", "var x float64 = 1\n var z float64 = 0\n fmt.Println(x / z, -x / z, z / z)\n var a float32 = 1\n var b float32 = 0\n fmt.Println(a / b)"),
        "+Inf -Inf NaN\n+Inf\n"
    );
}

#[test]
fn float_formatting() {
    assert_eq!(
        out("", "var a float64 = 0.1\n var b float64 = 0.2\n fmt.Println(a + b)\n var c float32 = 0.1\n fmt.Println(c, c + c)\n var d float64 = 1e21\n var e float64 = 0.00001\n var f float64 = 100000\n var g float64 = 0.0001\n fmt.Println(d, e, f, g)\n var h float64 = 3\n fmt.Println(h, -h, h / 2)"),
        "0.30000000000000004\n0.1 0.2\n1e+21 1e-05 100000 0.0001\n3 -3 1.5\n"
    );
    assert_eq!(
        out("", "var a float64 = 1.5\n var b float32 = 2.5\n fmt.Print(fmt.Sprintf(\"%d|%d|%v|%v\\n\", a, b, a, b))"),
        "%!d(float64=1.5)|%!d(float32=2.5)|1.5|2.5\n"
    );
    // float32 arithmetic rounds after every operation
    assert_eq!(
        out("", "var a float32 = 16777216\n var b float32 = 1\n fmt.Println(a + b == a)\n var c float64 = 16777216\n var d float64 = 1\n fmt.Println(c + d == c)"),
        "true\nfalse\n"
    );
    assert_eq!(out("", "var a float64 = 1234567\n var b float64 = 123456789\n fmt.Println(a, b)"), "1.234567e+06 1.23456789e+08\n");
}

#[test]
fn sprintf_verbs() {
    assert_eq!(
        out("", "fmt.Print(fmt.Sprintf(\"%d %v %s %t %% %q|\", 42, \"v\", \"s\", true, \"q\\\"x\\n\"))"),
        "42 v s true % \"q\\\"x\\n\"|"
    );
    assert_eq!(
        out("", "fmt.Print(fmt.Sprintf(\"%d %s %t|\", \"str\", 5, 1))"),
        "%!d(string=str) %!s(int=5) %!t(int=1)|"
    );
    assert_eq!(out("", "fmt.Print(fmt.Sprintf(\"%d %d|\", 1))"), "1 %!d(MISSING)|");
    assert_eq!(out("", "var x int32 = 2\n fmt.Print(fmt.Sprintf(\"%d|\", 1, x, \"e\"))"), "1|%!(EXTRA int32=2, string=e)");
    assert_eq!(out("", "fmt.Print(fmt.Sprintf(\"100%\"))"), "100%!(NOVERB)");
    assert_eq!(
        out("", "fmt.Print(fmt.Sprintf(\"%q\", \"a\\x00\\x1f\\x7f\\u00e9\\u2028\\U0001f600\\xff\\a\\b\\f\\r\\t\\v\\\\\"))"),
        "\"a\\x00\\x1f\\x7fé\\u2028😀\\xff\\a\\b\\f\\r\\t\\v\\\\\""
    );
    let r = exec_with(&prog("", "fmt.Print(fmt.Sprintf(\"%q\", \"\\u0e01\"))"), vec![], 1000);
    assert!(matches!(r.end, End::Unsupported(ref s) if s.contains("%q rune U+0E01")), "{:?}", r.end);
    let r = exec_with(&prog("", "fmt.Print(fmt.Sprintf(\"%5d\", 1))"), vec![], 1000);
    assert!(matches!(r.end, End::Unsupported(_)));
}

#[test]
fn print_spacing() {
    assert_eq!(out("", "fmt.Print(1, 2, \"a\", 3, \"b\", \"c\", 4, 5)\n fmt.Println()\n fmt.Println(\"a\", 1, true)"), "1 2a3bc4 5\na 1 true\n");
    let r = exec_with(&prog("", "println(\"err\", 1, true, 1.5)\n print(\"a\", 2)\n fmt.Print(\"out\")"), vec![], 1000);
    assert_eq!(r.stdout, b"out");
    assert_eq!(String::from_utf8_lossy(&r.stderr), "err 1 true +1.500000e+000\na2");
}

#[test]
fn strings_are_bytes() {
    assert_eq!(
        out("", "var s string = \"h\\u00e9\"\n fmt.Println(len(s), s[0], s[1], s[2])\n var b uint8 = s[1]\n fmt.Println(string(b), len(string(b)), string(s[0]))\n var r int32 = 128512\n fmt.Println(string(r), len(string(r)))\n var bad int32 = -1\n fmt.Println(len(string(bad)))"),
        "3 104 195 169\nÃ 2 h\n😀 4\n3\n"
    );
    let (_, e) = end_of("", "var s string = \"abc\"\n var i int32 = 3\n fmt.Println(s[i])");
    assert_eq!(e, End::Panic(PanicKind::IndexOutOfRange, "runtime error: index out of range [3] with length 3".into()));
    assert_eq!(out("", "var a string = \"ab\"\n var b string = \"ab\"\n fmt.Println(a == b, a + b < b, a != \"ac\")"), "true false true\n");
}

#[test]
fn value_semantics() {
    let decls = "type In struct { a [2]int32 }\ntype Out struct { in In; n int32 }\nfunc mutate(o Out) Out {\n o.in.a[0] = 99\n o.n = 7\n return o\n}";
    assert_eq!(
        out(decls, "var o Out = Out{in: In{a: [2]int32{1, 2}}, n: 3}\n var c Out = o\n c.in.a[1] = 50\n var m Out = mutate(o)\n fmt.Println(o.in.a[0], o.in.a[1], o.n, c.in.a[1], m.in.a[0], m.n)\n var i any = o\n o.n = 100\n fmt.Println(i.(Out).n, o == c, o.in == m.in)"),
        "1 2 3 50 99 7\n3 false false\n"
    );
    // pointers share
    let decls = "type Cell struct { v int32 }\nfunc bump(c *Cell) {\n c.v = c.v + 1\n}";
    assert_eq!(
        out(decls, "var p *Cell = &Cell{v: 1}\n var q *Cell = p\n bump(p)\n bump(q)\n var copy Cell = *p\n copy.v = 100\n fmt.Println(p.v, q.v, copy.v, p == q, p == &Cell{v: 3})\n *q = Cell{v: 42}\n fmt.Println(p.v)"),
        "3 3 100 true false\n42\n"
    );
    let (_, e) = end_of("type Cell struct { v int32 }", "var p *Cell\n fmt.Println(p.v)");
    assert!(matches!(e, End::Panic(PanicKind::NilDeref, _)));
    let (_, e) = end_of("type Cell struct { v int32 }", "var p *Cell\n p.v = 1");
    assert!(matches!(e, End::Panic(PanicKind::NilDeref, _)));
    // arrays copy on assignment, slices alias
    assert_eq!(
        out("", "var a [3]int32 = [3]int32{1, 2, 3}\n var b [3]int32 = a\n b[0] = 9\n var s []int32 = []int32{1, 2, 3}\n var t []int32 = s\n t[0] = 9\n fmt.Println(a[0], b[0], s[0], t[0], len(a), len(s))"),
        "1 9 9 9 3 3\n"
    );
}

#[test]
fn zero_values() {
    let decls = "type S struct { a int32; b string; c bool; d float64; e *S; f []int32; g any; h [2]int8 }";
    assert_eq!(
        out(decls, "var s S\n fmt.Println(s.a, s.b == \"\", s.c, s.d, s.e == nil, s.f == nil, s.g == nil, s.h[1], len(s.f))"),
        "0 true false 0 true true true 0 0\n"
    );
}

#[test]
fn append_growth_and_aliasing() {
    // cap after appending one int32 to nil is 2 (8-byte size class)
    assert_eq!(
        out("", "var s []int32\n s = append(s, 1)\n var a []int32 = append(s, 2)\n var b []int32 = append(s, 3)\n fmt.Println(a[1], b[1], len(s), len(a))"),
        "3 3 1 2\n"
    );
    // when capacity is exhausted, append copies: no aliasing
    assert_eq!(
        out("", "var s []int32\n s = append(s, 1)\n s = append(s, 2)\n var a []int32 = append(s, 3)\n var b []int32 = append(s, 4)\n fmt.Println(a[2], b[2])\n a[0] = 100\n fmt.Println(s[0], b[0])"),
        "3 4\n1 1\n"
    );
    // strings are 16 bytes: nil + 1 elem -> cap 1; then 2, 4
    assert_eq!(
        out("", "var s []string\n s = append(s, \"a\")\n var a []string = append(s, \"x\")\n var b []string = append(s, \"y\")\n fmt.Println(a[1], b[1])\n var c []string = append(a, \"p\")\n var d []string = append(c, \"q\")\n var e []string = append(c, \"r\")\n fmt.Println(d[3], e[3])"),
        "x y\nr r\n"
    );
    assert_eq!(out("", "var s []int32 = []int32{}\n fmt.Println(s == nil, len(s))\n var t []int32\n t = append(t)\n fmt.Println(t == nil)"), "false 0\ntrue\n");
    assert_eq!(minigo_grow(0, 1, 4), 2);
    assert_eq!(minigo_grow(2, 3, 4), 4);
    assert_eq!(minigo_grow(0, 5, 4), 6); // 20 bytes -> 24-byte class
    assert_eq!(minigo_grow(256, 257, 4), 512);
    assert_eq!(minigo_grow(512, 513, 4), 864); // 512+(512+768)/4=832 -> 3328 bytes -> 3456 class
    assert_eq!(minigo_grow(0, 1, 16), 1);
    assert_eq!(minigo_grow(0, 3, 24), 3); // 72 -> 80 / 24 = 3
    assert_eq!(minigo_grow(0, 10, 0), 10);
}

/// mirror of runtime.growslice used above, computed through observable aliasing
fn minigo_grow(old_cap: u64, new_len: u64, elem: u64) -> u64 {
    // size classes re-implemented here independently for the few cases tested
    let classes: [u64; 12] = [8, 16, 24, 32, 48, 64, 80, 2048, 3072, 3200, 3456, 4096];
    if elem == 0 {
        return new_len;
    }
    let mut newcap = old_cap;
    if new_len > 2 * old_cap {
        newcap = new_len;
    } else if old_cap < 256 {
        newcap = 2 * old_cap;
    } else {
        while newcap < new_len {
            newcap += (newcap + 768) / 4;
        }
    }
    let mem = newcap * elem;
    let class = classes.iter().copied().find(|c| *c >= mem).unwrap_or(mem);
    class / elem
}

#[test]
fn append_capacity_observable() {
    // grow a slice of int32 and observe the capacity through aliasing: after k appends from
    // nil the capacities are 2,2,4,4,8,8,8,8,16...
    let body = "var s []int32\n var i int32 = 0\n for i < 9 {\n  s = append(s, i)\n  var a []int32 = append(s, 100)\n  var b []int32 = append(s, 200)\n  _ = b\n  fmt.Print(a[len(s)] == 200, \" \")\n  i = i + 1\n }";
    // aliasing (true) exactly when len < cap after the append
    assert_eq!(out("", body), "true false true false true true true false true ");
}

#[test]
fn interfaces_and_type_switches() {
    let decls = "type Shape interface { area() int32 }\ntype Sq struct { s int32 }\nfunc (q Sq) area() int32 { return q.s * q.s }\ntype Rect struct { w int32; h int32 }\nfunc (r Rect) area() int32 { return r.w * r.h }\nfunc describe(x any) string {\n switch v := x.(type) {\n case nil:\n  return \"nil\"\n case int32:\n  return fmt.Sprintf(\"int32 %d\", v + 1)\n case string:\n  return \"string \" + v\n case Shape:\n  return fmt.Sprintf(\"shape %d\", v.area())\n case Sq, Rect:\n  return \"unreachable\"\n default:\n  return \"other\"\n }\n}";
    assert_eq!(
        out(decls, "var s Shape = Sq{s: 3}\n fmt.Println(s.area(), describe(s), describe(Rect{w: 2, h: 5}), describe(nil), describe(1), describe(\"x\"), describe(1.5))\n var x int32 = 7\n fmt.Println(describe(x))"),
        "9 shape 9 shape 10 nil other string x other\nint32 8\n"
    );
    // no matching case and no default: nothing happens; default position is irrelevant
    assert_eq!(
        out("", "var a any = 1.5\n switch a.(type) {\n case int32:\n  fmt.Println(\"no\")\n }\n var x int32 = 5\n switch x {\n default:\n  fmt.Println(\"default\")\n case 5:\n  fmt.Println(\"five\")\n }\n switch x {\n case 1:\n  fmt.Println(\"one\")\n }\n fmt.Println(\"end\")"),
        "five\nend\n"
    );
    // break inside switch inside for breaks the switch only
    assert_eq!(
        out("", "var i int32 = 0\n for i < 3 {\n  switch i {\n  case 1:\n   i = i + 1\n   break\n  default:\n   i = i + 1\n   fmt.Print(\"d\")\n  }\n  fmt.Print(i)\n }"),
        "d12d3"
    );
}

#[test]
fn interface_equality() {
    let decls = "type P struct { x int32 }\ntype Q struct { x int32 }\ntype Bad struct { s []int32 }";
    assert_eq!(
        out(decls, "var a any = P{x: 1}\n var b any = P{x: 1}\n var c any = Q{x: 1}\n var d any = 1\n var e any = \"1\"\n var i32 int32 = 1\n var f any = i32\n fmt.Println(a == b, a == c, d == e, d == f, d == 1, a == nil, a != b)\n var bad any = Bad{}\n fmt.Println(bad == a)"),
        "true false false false true false false\nfalse\n"
    );
    let (_, e) = end_of(decls, "var x any = Bad{}\n var y any = Bad{}\n fmt.Println(x == y)");
    assert_eq!(e, End::Panic(PanicKind::Uncomparable, "runtime error: comparing uncomparable type main.Bad".into()));
    let (_, e) = end_of("", "var x any = []int32{1}\n var y any = []int32{1}\n fmt.Println(x == y)");
    assert_eq!(e, End::Panic(PanicKind::Uncomparable, "runtime error: comparing uncomparable type []int32".into()));
    // switch on an interface tag uses ==
    assert_eq!(out("", "var a any = \"k\"\n switch a {\n case 1:\n  fmt.Println(\"int\")\n case \"k\":\n  fmt.Println(\"str\")\n }"), "str\n");
}

#[test]
fn type_assertion_panics() {
    let (_, e) = end_of("", "var a any = 1\n var s string = a.(string)\n fmt.Println(s)");
    assert!(matches!(e, End::Panic(PanicKind::TypeAssertion, _)), "{:?}", e);
    let (_, e) = end_of("", "var a any\n var s string = a.(string)\n fmt.Println(s)");
    assert!(matches!(e, End::Panic(PanicKind::TypeAssertion, _)));
    let (_, e) = end_of("type I interface { m() }", "var a any = 1\n var i I = a.(I)\n _ = i");
    assert!(matches!(e, End::Panic(PanicKind::TypeAssertion, _)));
    assert_eq!(out("", "var a any = \"ok\"\n fmt.Println(a.(string))"), "ok\n");
}

#[test]
fn explicit_panic_and_limits() {
    let r = exec_with(&prog("", "fmt.Println(\"a\")\n panic(\"boom\")\n fmt.Println(\"b\")"), vec![], 1000);
    assert_eq!(r.stdout, b"a\n");
    assert_eq!(r.end, End::Panic(PanicKind::Explicit, "boom".into()));
    assert!(String::from_utf8_lossy(&r.stderr).starts_with("panic: boom\n"));
    let r = exec_with(&prog("", "for {\n }"), vec![], 1000);
    assert_eq!(r.end, End::StepLimit);
    let p = compile(&prog("", "for {\n fmt.Println(\"xxxxxxxxxx\")\n }")).unwrap();
    let r = run(&p, &RunOpts { max_steps: 1_000_000, sched: vec![], max_output: 100 });
    assert_eq!(r.end, End::OutputLimit);
    assert!(r.stdout.len() <= 100);
    let r = exec_with(&prog("func f(n int32) int32 { return f(n + 1) }", "fmt.Println(f(0))"), vec![], 100_000_000);
    assert_eq!(r.end, End::Unsupported("call depth".into()));
    let r = exec_with(&prog("func f(n int32) int32 {\n if n == 0 {\n  return 0\n }\n return 1 + f(n - 1)\n}", "fmt.Println(f(15000))"), vec![], 100_000_000);
    assert_eq!(r.end, End::Exit0);
    assert_eq!(r.stdout, b"15000\n");
}

#[test]
fn evaluation_order() {
    let decls = "func t(s string, v int32) int32 {\n fmt.Print(s)\n return v\n}\nfunc b(s string, v bool) bool {\n fmt.Print(s)\n return v\n}\ntype P struct { x int32; y int32 }\nfunc three(a int32, b int32, c int32) int32 { return a + b + c }";
    assert_eq!(
        out(decls, "var r int32 = t(\"a\", 1) + t(\"b\", 2) * t(\"c\", 3)\n var p P = P{y: t(\"d\", 1), x: t(\"e\", 2)}\n var q int32 = three(t(\"f\", 1), t(\"g\", 2), t(\"h\", 3))\n var arr [2]int32 = [2]int32{t(\"i\", 1), t(\"j\", 2)}\n var ok bool = b(\"k\", false) && b(\"l\", true) || b(\"m\", true) || b(\"n\", true)\n fmt.Println(r, p.x, q, arr[1], ok)"),
        "abcdefghijkm7 2 6 2 true\n"
    );
}

#[test]
fn function_values_and_methods() {
    let decls = "type V struct { f func(any, int32) int32 }\nfunc impl(self any, n int32) int32 { return self.(int32) + n }\nfunc apply(g func(int32) int32, x int32) int32 { return g(x) }\nfunc inc(x int32) int32 { return x + 1 }\ntype T struct { n int32 }\nfunc (t T) get() int32 { return t.n }\nfunc (t T) with(k int32) T {\n t.n = t.n + k\n return t\n}";
    assert_eq!(
        out(decls, "var v *V = &V{f: impl}\n var x int32 = 5\n fmt.Println(v.f(x, 2), apply(inc, 1))\n var t T = T{n: 1}\n var u T = t.with(10)\n var pt *T = &T{n: 4}\n fmt.Println(t.get(), u.get(), pt.get(), t.with(1).with(2).n)\n var f func(int32) int32\n fmt.Println(f == nil)"),
        "7 2\n1 11 4 4\ntrue\n"
    );
    let (_, e) = end_of("", "var f func()\n f()");
    assert!(matches!(e, End::Panic(PanicKind::NilDeref, _)));
}

// ------------------------------------------------------------------ scheduler

const RACE: &str = "type Cell struct { v int32 }\nfunc worker(c *Cell, tag string) {\n fmt.Print(tag)\n c.v = c.v + 1\n}\n";

#[test]
fn scheduler_is_deterministic_and_driven_by_bytes() {
    let body = "var c *Cell = &Cell{v: 0}\n go worker(c, \"a\")\n go worker(c, \"b\")\n fmt.Print(\"m\")\n var n int32 = c.v\n fmt.Print(n)";
    let src = prog(RACE, body);
    // all zeros: the current activation always continues; main finishes first
    let r = exec_with(&src, vec![], 10_000);
    assert_eq!(r.end, End::Exit0);
    assert_eq!(String::from_utf8_lossy(&r.stdout), "m0");
    assert_eq!(r.spawned, 2);
    // `go` #2 is a choice point with 2 live; Print and c.v load have 3 live
    assert_eq!(r.choice_points, vec![2, 3, 3, 3]);
    // choose worker a (index 1 of [main, a]) at the second go statement: a runs its Print,
    // load, store (choice points with [a, main]; 0 keeps a), exits, then main resumes
    let r = exec_with(&src, vec![1], 10_000);
    assert_eq!(r.end, End::Exit0);
    assert_eq!(String::from_utf8_lossy(&r.stdout), "am1");
    // same schedule gives the same result
    let r2 = exec_with(&src, vec![1], 10_000);
    assert_eq!(r.stdout, r2.stdout);
    assert_eq!(r.choice_points, r2.choice_points);
    // lost update: both workers load 0 before either stores
    // choice points: go#2 [m,a]:1 -> a; a.Print [a,m]:0; a.load [a,m]:1 -> m (a paused before load)
    // m: creates b (pending go performed), m.Print [m,a,b]:1 -> a performs load(0);
    // a.store [a,m,b]:2 -> b; b.Print [b,m,a]:0; b.load [b,m,a]:0 (0); b.store: 0 -> v=1; b exits:
    // [m,a] pick 1 -> a performs store v=1, exits; main alone prints m, 1
    let r = exec_with(&src, vec![1, 0, 1, 1, 2, 0, 0, 0, 1], 10_000);
    assert_eq!(r.end, End::Exit0);
    assert_eq!(String::from_utf8_lossy(&r.stdout), "abm1");
}

#[test]
fn main_exit_ends_program_and_panics_end_everything() {
    let src = prog(RACE, "var c *Cell = &Cell{v: 0}\n go worker(c, \"never\")\n fmt.Print(\"main\")");
    let r = exec_with(&src, vec![], 10_000);
    assert_eq!(r.end, End::Exit0);
    assert_eq!(String::from_utf8_lossy(&r.stdout), "main");
    assert_eq!(r.choice_points, vec![2]);
    let src = prog("func bad() {\n panic(\"child\")\n}", "go bad()\n fmt.Print(\"x\")\n fmt.Print(\"y\")");
    let r = exec_with(&src, vec![0, 1], 10_000);
    assert_eq!(String::from_utf8_lossy(&r.stdout), "x");
    assert_eq!(r.end, End::Panic(PanicKind::Explicit, "child".into()));
}

#[test]
fn run_is_reentrant_across_threads() {
    let src = prog(RACE, "var c *Cell = &Cell{v: 0}\n go worker(c, \"a\")\n var i int32 = 0\n for i < 100 {\n  i = i + 1\n }\n fmt.Print(c.v)");
    let p = std::sync::Arc::new(compile(&src).unwrap());
    let mut hs = Vec::new();
    for t in 0..8u8 {
        let p = p.clone();
        hs.push(std::thread::spawn(move || {
            let r = run(&p, &RunOpts { max_steps: 100_000, sched: vec![t % 2], max_output: 1000 });
            (t % 2, String::from_utf8(r.stdout).unwrap(), r.end)
        }));
    }
    for h in hs {
        let (k, o, e) = h.join().unwrap();
        assert_eq!(e, End::Exit0);
        assert_eq!(o, if k == 0 { "0" } else { "a1" });
    }
}

#[test]
fn long_chains_do_not_overflow_the_native_stack() {
    // list through interfaces (goml enums) and through pointers, 200k nodes, on a small stack
    let decls = "type List interface { isList() }\ntype Nil struct {}\nfunc (_ Nil) isList() {}\ntype Cons struct { _0 int32; _1 List }\nfunc (_ Cons) isList() {}\ntype Node struct { v int32; next *Node }";
    let body = "var l List = Nil{}\n var m List = Nil{}\n var p *Node\n var i int32 = 0\n for i < 200000 {\n  l = Cons{_0: i, _1: l}\n  m = Cons{_0: i, _1: m}\n  p = &Node{v: i, next: p}\n  i = i + 1\n }\n fmt.Println(l == m, l != Nil{})\n var n int32 = 0\n for p != nil {\n  n = n + 1\n  p = p.next\n }\n fmt.Println(n)";
    let src = prog(decls, body);
    let h = std::thread::Builder::new()
        .stack_size(256 * 1024)
        .spawn(move || {
            let p = compile(&src).map_err(|e| e[0].to_string()).unwrap();
            let r = run(&p, &RunOpts { max_steps: 100_000_000, sched: vec![], max_output: 1000 });
            (String::from_utf8(r.stdout).unwrap(), r.end)
        })
        .unwrap();
    let (o, e) = h.join().unwrap();
    assert_eq!(e, End::Exit0);
    assert_eq!(o, "true true\n200000\n");
}
