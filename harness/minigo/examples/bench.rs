use std::time::Instant;

fn main() {
    let text = std::fs::read_to_string("/repo/crates/compiler/src/tests/pipeline/070_dyn_trait_complex/main.gom.go").unwrap();
    let n = 500;
    let t = Instant::now();
    for _ in 0..n {
        minigo::compile(&text).ok().unwrap();
    }
    let per = t.elapsed().as_secs_f64() / n as f64;
    println!("compile 070 ({} lines): {:.3} ms", text.lines().count(), per * 1e3);
    let t = Instant::now();
    for _ in 0..n {
        minigo::compile_on_this_thread(&text).ok().unwrap();
    }
    println!("compile 070 same thread: {:.3} ms", t.elapsed().as_secs_f64() / n as f64 * 1e3);
    let t = Instant::now();
    for _ in 0..n {
        minigo::compile("package main\nfunc main() {}\n").ok().unwrap();
    }
    println!("compile empty: {:.3} ms", t.elapsed().as_secs_f64() / n as f64 * 1e3);
    let big = std::fs::read_to_string("/repo/crates/compiler/src/tests/pipeline/068_lisp_interp/main.gom.go").unwrap();
    let t = Instant::now();
    for _ in 0..100 {
        minigo::compile(&big).ok().unwrap();
    }
    println!("compile 068 ({} lines): {:.3} ms", big.lines().count(), t.elapsed().as_secs_f64() / 100.0 * 1e3);

    let src = "package main\nimport (\n \"fmt\"\n)\ntype C struct { v int32 }\nfunc add(a int32, b int32) int32 {\n return a + b\n}\nfunc main() {\n var i int32 = 0\n var s int32 = 0\n var c *C = &C{v: 0}\n for {\n  var cond bool = i < 3000000\n  if !cond {\n   break\n  }\n  var t int32 = add(s, i)\n  s = t\n  c.v = s\n  i = i + 1\n }\n fmt.Println(s, c.v)\n}\n";
    let p = minigo::compile(src).ok().unwrap();
    let t = Instant::now();
    let r = minigo::run(&p, &minigo::RunOpts { max_steps: u64::MAX / 2, sched: vec![], max_output: 1 << 20 });
    let el = t.elapsed().as_secs_f64();
    println!("run: {:?} steps={} in {:.3}s = {:.1} M steps/s; out={}", r.end, r.steps, el, r.steps as f64 / el / 1e6, String::from_utf8_lossy(&r.stdout).trim());
}
