//! crude robustness fuzzer: mutates corpus files, checks that compile/run never crash and
//! reports internal errors
use std::collections::BTreeMap;

struct Rng(u64);
impl Rng {
    fn next(&mut self) -> u64 {
        self.0 ^= self.0 << 13;
        self.0 ^= self.0 >> 7;
        self.0 ^= self.0 << 17;
        self.0
    }
    fn below(&mut self, n: usize) -> usize {
        (self.next() % n.max(1) as u64) as usize
    }
}

fn main() {
    let iters: usize = std::env::args().nth(1).and_then(|s| s.parse().ok()).unwrap_or(20000);
    let root = "/repo/crates/compiler/src/tests/pipeline";
    let mut files = Vec::new();
    for e in std::fs::read_dir(root).unwrap() {
        let p = e.unwrap().path().join("main.gom.go");
        if let Ok(t) = std::fs::read_to_string(&p) {
            files.push(t);
        }
    }
    let frags = [
        "(", ")", "{", "}", "[", "]", "-", "--", "!", "&", "*", ".", ",", ";", ":=", "=", "==", "nil", "0", "1", "\"s\"",
        "int32", "string", "any", "struct{}", "struct{}{}", "x", "ret", "return", "break", "for", "if", "else", "switch",
        "case", "default:", "func", "type", "var", "go", ".(type)", "\n", " ", "+", "/", "%", "<", "&&", "||", "1.5", "'a'",
        "fmt.Println", "len", "append", "panic", "T{}", "[]int32{}", "[2]int32{1, 2}", "interface{}", "*",
    ];
    let mut rng = Rng(0x9E3779B97F4A7C15);
    let mut stats: BTreeMap<String, usize> = BTreeMap::new();
    for it in 0..iters {
        let base = &files[rng.below(files.len())];
        let mut toks: Vec<&str> = base.split_inclusive(|c: char| c == ' ' || c == '\n' || c == '(' || c == ')' || c == ',').collect();
        let nmut = 1 + rng.below(3);
        for _ in 0..nmut {
            let i = rng.below(toks.len());
            match rng.below(4) {
                0 => {
                    toks.remove(i);
                }
                1 => toks.insert(i, frags[rng.below(frags.len())]),
                2 => toks[i] = frags[rng.below(frags.len())],
                _ => {
                    let j = rng.below(toks.len());
                    toks.swap(i, j);
                }
            }
        }
        let mut text: String = toks.concat();
        if it % 5 == 0 {
            // character-level noise
            let mut chars: Vec<char> = text.chars().collect();
            for _ in 0..1 + rng.below(4) {
                let i = rng.below(chars.len());
                let pool = ['"', '\'', '`', '\\', '\n', '0', '9', 'e', '.', 'x', '_', '/', '*', '\u{e9}', '\u{feff}', '\u{2028}', '\0', '#', '$', '~', '?', '@'];
                match rng.below(3) {
                    0 => {
                        chars.remove(i);
                    }
                    1 => chars.insert(i, pool[rng.below(pool.len())]),
                    _ => chars[i] = pool[rng.below(pool.len())],
                }
            }
            text = chars.into_iter().collect();
        }
        let key = match minigo::compile(&text) {
            Ok(p) => {
                let r = minigo::run(&p, &minigo::RunOpts { max_steps: 200_000, sched: vec![(it % 3) as u8], max_output: 1 << 16 });
                match r.end {
                    minigo::End::Unsupported(s) => {
                        if s.starts_with("internal") {
                            eprintln!("INTERNAL at run: {}\n-----\n{}\n-----", s, text);
                        }
                        format!("run-unsupported:{}", s.split(' ').take(3).collect::<Vec<_>>().join(" "))
                    }
                    minigo::End::Exit0 => "run-exit0".to_string(),
                    minigo::End::Panic(k, _) => format!("run-panic:{:?}", k),
                    minigo::End::StepLimit => "run-steplimit".to_string(),
                    minigo::End::OutputLimit => "run-outputlimit".to_string(),
                }
            }
            Err(errs) => {
                let e = &errs[0];
                if e.rule.contains("internal") {
                    eprintln!("INTERNAL at compile: {}\n-----\n{}\n-----", e, text);
                }
                let key = format!("{:?}:{}", e.kind, e.rule.split(':').take(2).collect::<Vec<_>>().join(":"));
                if e.kind == minigo::ErrKind::Type && *stats.get(&key).unwrap_or(&0) < 4 {
                    let l = e.line as usize;
                    let lines: Vec<&str> = text.lines().collect();
                    let from = l.saturating_sub(3);
                    eprintln!("### {}", e);
                    for (k, ln) in lines.iter().enumerate().take(l + 1).skip(from) {
                        eprintln!("{:>4}| {}", k + 1, ln);
                    }
                }
                key
            }
        };
        *stats.entry(key).or_default() += 1;
    }
    for (k, v) in stats {
        println!("{:>7}  {}", v, k);
    }
}
