//! Checker: calls, conversions, builtins.

use crate::ast::*;
use crate::check::*;
use crate::check_conv::Repr;
use crate::consts::{self, CV};
use crate::ir::*;
use crate::lex::Pos;
use crate::types::*;
use std::rc::Rc;

fn has_call(x: &Expr) -> bool {
    match &x.kind {
        ExprKind::Call { .. } => true,
        ExprKind::Paren(i) | ExprKind::Unary(_, i) | ExprKind::Selector(i, _, _) | ExprKind::TypeSwitchGuard(i) => {
            has_call(i)
        }
        ExprKind::Binary(_, a, b) | ExprKind::Index(a, b) => has_call(a) || has_call(b),
        ExprKind::TypeAssert(a, _) => has_call(a),
        ExprKind::CompositeLit { elems, .. } => {
            elems.iter().any(|e| has_call(&e.value) || e.key.as_ref().map(has_call).unwrap_or(false))
        }
        _ => false,
    }
}

impl<'a> Checker<'a> {
    fn eval_args_for_effects(&mut self, args: &[Expr]) -> R<()> {
        for a in args {
            self.expr(a)?;
        }
        Ok(())
    }

    /// checks arguments against parameter types
    fn check_args(&mut self, args: &[Expr], params: &[TypeId], pos: Pos, fname: &str) -> R<Option<Vec<E>>> {
        let mut ops = Vec::with_capacity(args.len());
        for a in args {
            ops.push(self.value(a)?);
        }
        if args.len() != params.len() {
            let msg = if args.len() < params.len() {
                format!("not enough arguments in call to {}", fname)
            } else {
                format!("too many arguments in call to {}", fname)
            };
            self.err(pos, "arg-count", msg);
            return Ok(None);
        }
        let mut out = Vec::with_capacity(args.len());
        let mut ok = true;
        for (o, p) in ops.into_iter().zip(params.iter()) {
            if o.mode == Mode::Invalid {
                ok = false;
                continue;
            }
            let before = self.errors.len();
            let e = self.assign_to(o, *p, "arg-mismatch", "argument")?;
            if self.errors.len() > before {
                ok = false;
            }
            out.push(e);
        }
        Ok(if ok { Some(out) } else { None })
    }

    pub(crate) fn call(&mut self, f: &Expr, args: &[Expr], pos: Pos) -> R<Operand> {
        let fo = self.expr(f)?;
        match fo.mode.clone() {
            Mode::Invalid => {
                self.eval_args_for_effects(args)?;
                Ok(Operand::invalid(pos))
            }
            Mode::Type => self.conversion(fo.ty, args, pos),
            Mode::Builtin(b) => self.builtin_call(b, args, pos),
            Mode::FmtFunc(k) => self.fmt_call(k, args, pos),
            Mode::Package(i) => {
                self.imports[i].used = true;
                self.eval_args_for_effects(args)?;
                Ok(self.err_at(f.pos, "package-value", "use of package without selector"))
            }
            Mode::NoValue => {
                self.eval_args_for_effects(args)?;
                Ok(self.err_at(f.pos, "no-value", "call (no value) used as value"))
            }
            Mode::Method => {
                let TypeData::Func(params, result) = self.tt.get(fo.ty).clone() else {
                    return Ok(Operand::invalid(pos));
                };
                let Some(mut es) = self.check_args(args, &params, pos, "method")? else {
                    return Ok(Operand::invalid(pos));
                };
                let mut all = Vec::with_capacity(es.len() + 1);
                all.push(fo.e);
                all.append(&mut es);
                let callee = match fo.method {
                    Some(MethodRef::Static(i)) => Callee::Static(i),
                    Some(MethodRef::Iface(n)) => Callee::Iface(n),
                    None => return Ok(Operand::invalid(pos)),
                };
                Ok(self.call_result(callee, all, result, pos))
            }
            Mode::Const | Mode::Value => {
                let TypeData::Func(params, result) = self.tt.under(fo.ty).clone() else {
                    self.eval_args_for_effects(args)?;
                    let d = self.describe(&fo);
                    return Ok(self.err_at(
                        f.pos,
                        "not-callable",
                        &format!("invalid operation: cannot call non-function {}", d),
                    ));
                };
                let fname = match &unparen(f).kind {
                    ExprKind::Ident(n) => n.clone(),
                    _ => "function".to_string(),
                };
                let Some(es) = self.check_args(args, &params, pos, &fname)? else {
                    return Ok(Operand::invalid(pos));
                };
                let callee = match fo.e {
                    E::Const(K::Func(i)) => Callee::Static(i),
                    e => Callee::Value(Box::new(e)),
                };
                Ok(self.call_result(callee, es, result, pos))
            }
        }
    }

    fn call_result(&mut self, callee: Callee, args: Vec<E>, result: Option<TypeId>, pos: Pos) -> Operand {
        let e = E::Call { callee, args };
        let mut r = match result {
            Some(t) => Operand::value(t, e, pos),
            None => {
                let mut o = Operand::with_mode(Mode::NoValue, T_NOVALUE, pos);
                o.e = e;
                o
            }
        };
        r.stmt_ok = true;
        r
    }

    // ------------------------------------------------------------ conversions

    fn conversion(&mut self, t: TypeId, args: &[Expr], pos: Pos) -> R<Operand> {
        if args.len() != 1 {
            self.eval_args_for_effects(args)?;
            let msg = if args.is_empty() {
                format!("missing argument in conversion to {}", self.ts(t))
            } else {
                format!("too many arguments in conversion to {}", self.ts(t))
            };
            return Ok(self.err_at(pos, "arg-count", &msg));
        }
        let x = self.value(&args[0])?;
        if x.mode == Mode::Invalid || t == T_INVALID {
            return Ok(Operand::invalid(pos));
        }
        let mut r = self.convert(x, t, pos)?;
        r.is_conversion = true;
        r.stmt_ok = false;
        Ok(r)
    }

    fn convert(&mut self, x: Operand, t: TypeId, pos: Pos) -> R<Operand> {
        let tt_is_basic = matches!(
            self.tt.under(t),
            TypeData::Bool | TypeData::Int(_) | TypeData::Float32 | TypeData::Float64 | TypeData::String
        );
        // constant conversions
        if x.mode == Mode::Const && tt_is_basic {
            let cv = x.cv.clone().unwrap_or(CV::Bool(false));
            // integer constant -> string
            if self.tt.is_string(t) {
                if let (CV::Int(i), true) = (&cv, self.tt.is_integer(x.ty)) {
                    let s = consts::encode_rune(*i);
                    let mut r = Operand::constant(t, CV::Str(Rc::new(s.clone())), pos);
                    r.e = E::Const(K::Str(s));
                    return Ok(r);
                }
            }
            // typed float constant -> integer type must be exact; numeric <-> numeric
            let numeric_ok = self.tt.is_numeric(x.ty) && self.tt.is_numeric(t);
            let same_class = (self.tt.is_string(x.ty) && self.tt.is_string(t))
                || (self.tt.is_boolean(x.ty) && self.tt.is_boolean(t));
            if numeric_ok || same_class {
                return match self.representable(&cv, t) {
                    Repr::Ok(ncv) => {
                        let mut r = Operand::constant(t, ncv.clone(), pos);
                        r.e = E::Const(self.const_k(&ncv, t));
                        Ok(r)
                    }
                    Repr::Overflow(why) => {
                        let d = self.describe(&x);
                        Ok(self.err_at(
                            pos,
                            "const-overflow",
                            &format!("cannot convert {} to type {} ({})", d, self.ts(t), why),
                        ))
                    }
                    Repr::Mismatch => {
                        let d = self.describe(&x);
                        Ok(self.err_at(pos, "bad-conversion", &format!("cannot convert {} to type {}", d, self.ts(t))))
                    }
                    Repr::Unknown => self.unsup(pos, "constant-representability"),
                };
            }
            let d = self.describe(&x);
            return Ok(self.err_at(pos, "bad-conversion", &format!("cannot convert {} to type {}", d, self.ts(t))));
        }
        // untyped (nil / constant / bool) to non-basic type: must be assignable
        if self.tt.is_untyped(x.ty) {
            let before = self.errors.len();
            let e = self.assign_to(x, t, "bad-conversion", "conversion")?;
            if self.errors.len() > before {
                return Ok(Operand::invalid(pos));
            }
            return Ok(Operand::value(t, e, pos));
        }
        let v = x.ty;
        // assignable -> fine
        if self.assignable_types(v, t) {
            let e = self.assign_to(x, t, "bad-conversion", "conversion")?;
            return Ok(Operand::value(t, e, pos));
        }
        // identical underlying types
        if self.tt.underlying(v) == self.tt.underlying(t) {
            return Ok(Operand::value(t, x.e, pos));
        }
        let from = self.tt.under(v).clone();
        let to = self.tt.under(t).clone();
        let kind = match (&from, &to) {
            (TypeData::Int(a), TypeData::Int(b)) => Some(ConvKind::IntToInt { from: *a, to: *b }),
            (TypeData::Int(a), TypeData::Float32) => Some(ConvKind::IntToF32 { from: *a }),
            (TypeData::Int(a), TypeData::Float64) => Some(ConvKind::IntToF64 { from: *a }),
            (TypeData::Float32, TypeData::Int(b)) => Some(ConvKind::F32ToInt { to: *b }),
            (TypeData::Float64, TypeData::Int(b)) => Some(ConvKind::F64ToInt { to: *b }),
            (TypeData::Float64, TypeData::Float32) => Some(ConvKind::F64ToF32),
            (TypeData::Float32, TypeData::Float64) => Some(ConvKind::F32ToF64),
            (TypeData::Int(a), TypeData::String) => Some(ConvKind::IntToStr { from: *a }),
            _ => None,
        };
        if let Some(k) = kind {
            let x = self.materialize_for_conv(x);
            return Ok(Operand::value(t, E::Conv(k, Box::new(x)), pos));
        }
        // clearly impossible conversions
        let scalar = |d: &TypeData| {
            matches!(d, TypeData::Bool | TypeData::Int(_) | TypeData::Float32 | TypeData::Float64 | TypeData::String)
        };
        let definitely_bad = match (&from, &to) {
            (a, b) if scalar(a) && scalar(b) => true, // remaining scalar pairs: bool<->num, string->num, float->string
            (TypeData::Struct(_), b) if scalar(b) => true,
            (a, TypeData::Struct(_)) if scalar(a) => true,
            (TypeData::Func(..), b) if scalar(b) => true,
            (TypeData::Bool, _) | (_, TypeData::Bool) => !matches!(to, TypeData::Interface(_)) && !matches!(from, TypeData::Interface(_)),
            _ => false,
        };
        if definitely_bad {
            let d = self.describe(&x);
            return Ok(self.err_at(pos, "bad-conversion", &format!("cannot convert {} to type {}", d, self.ts(t))));
        }
        self.unsup(pos, "conversion")
    }

    fn materialize_for_conv(&self, x: Operand) -> E {
        if x.mode == Mode::Const {
            if let Some(cv) = &x.cv {
                return E::Const(self.const_k(cv, x.ty));
            }
        }
        x.e
    }

    // ------------------------------------------------------------ builtins

    fn builtin_call(&mut self, b: Builtin, args: &[Expr], pos: Pos) -> R<Operand> {
        match b {
            Builtin::Other(n) => {
                self.eval_args_for_effects(args)?;
                self.unsup(pos, &format!("builtin:{}", n))
            }
            Builtin::Len => {
                if args.len() != 1 {
                    self.eval_args_for_effects(args)?;
                    let m = if args.is_empty() { "not enough arguments for len" } else { "too many arguments for len" };
                    return Ok(self.err_at(pos, "arg-count", m));
                }
                let a = self.value(&args[0])?;
                if a.mode == Mode::Invalid {
                    return Ok(a);
                }
                let int_const = |n: u64| {
                    let mut r = Operand::constant(T_INT, CV::Int(n as i128), pos);
                    r.e = E::Const(K::Int(n as i64));
                    r
                };
                match self.tt.under(a.ty).clone() {
                    TypeData::String | TypeData::UntypedString => {
                        if let (Mode::Const, Some(CV::Str(s))) = (&a.mode, &a.cv) {
                            return Ok(int_const(s.len() as u64));
                        }
                        Ok(Operand::value(T_INT, E::Len(SeqKind::Str, Box::new(a.e)), pos))
                    }
                    TypeData::Array(n, _) => {
                        if !has_call(&args[0]) {
                            return Ok(int_const(n));
                        }
                        Ok(Operand::value(T_INT, E::Len(SeqKind::Array, Box::new(a.e)), pos))
                    }
                    TypeData::Slice(_) => Ok(Operand::value(T_INT, E::Len(SeqKind::Slice, Box::new(a.e)), pos)),
                    TypeData::Pointer(e) if matches!(self.tt.under(e), TypeData::Array(..)) => {
                        self.unsup(pos, "len-pointer-to-array")
                    }
                    _ => {
                        let d = self.describe(&a);
                        Ok(self.err_at(pos, "arg-mismatch", &format!("invalid argument: {} for built-in len", d)))
                    }
                }
            }
            Builtin::Append => {
                if args.is_empty() {
                    return Ok(self.err_at(pos, "arg-count", "not enough arguments for append"));
                }
                let s = self.value(&args[0])?;
                let mut ops = Vec::new();
                for a in &args[1..] {
                    ops.push(self.value(a)?);
                }
                if s.mode == Mode::Invalid {
                    return Ok(s);
                }
                if s.ty == T_UNIL {
                    return Ok(self.err_at(
                        pos,
                        "arg-mismatch",
                        "first argument to append must be a typed slice; have untyped nil",
                    ));
                }
                let TypeData::Slice(elem) = self.tt.under(s.ty).clone() else {
                    let d = self.describe(&s);
                    return Ok(self.err_at(pos, "arg-mismatch", &format!("invalid argument: {} is not a slice", d)));
                };
                let mut es = Vec::new();
                let mut ok = true;
                for o in ops {
                    if o.mode == Mode::Invalid {
                        ok = false;
                        continue;
                    }
                    let before = self.errors.len();
                    es.push(self.assign_to(o, elem, "arg-mismatch", "argument to append")?);
                    if self.errors.len() > before {
                        ok = false;
                    }
                }
                if !ok {
                    return Ok(Operand::invalid(pos));
                }
                let elem_size = self.tt.size_align(elem).0;
                let zero = self.zero_value(elem, pos)?;
                Ok(Operand::value(s.ty, E::Append { slice: Box::new(s.e), elems: es, elem_size, zero }, pos))
            }
            Builtin::Panic => {
                if args.len() != 1 {
                    self.eval_args_for_effects(args)?;
                    let m = if args.is_empty() { "not enough arguments for panic" } else { "too many arguments for panic" };
                    return Ok(self.err_at(pos, "arg-count", m));
                }
                let a = self.value(&args[0])?;
                if a.mode == Mode::Invalid {
                    return Ok(a);
                }
                let e = self.assign_to(a, T_ANY, "arg-mismatch", "argument to panic")?;
                let mut r = Operand::with_mode(Mode::NoValue, T_NOVALUE, pos);
                r.e = E::Panic(Box::new(e));
                r.stmt_ok = true;
                r.is_panic = true;
                Ok(r)
            }
            Builtin::Println | Builtin::Print => {
                let mut out = Vec::new();
                let mut ok = true;
                for a in args {
                    let o = self.value(a)?;
                    if o.mode == Mode::Invalid {
                        ok = false;
                        continue;
                    }
                    if o.ty == T_UNIL {
                        self.err(a.pos, "untyped-nil", "use of untyped nil in argument to built-in print".into());
                        ok = false;
                        continue;
                    }
                    let t = self.tt.default_type(o.ty);
                    let before = self.errors.len();
                    let e = self.assign_to(o, t, "arg-mismatch", "argument")?;
                    if self.errors.len() > before {
                        ok = false;
                        continue;
                    }
                    match self.tt.under(t) {
                        TypeData::Bool | TypeData::Int(_) | TypeData::Float32 | TypeData::Float64 | TypeData::String => {}
                        _ => return self.unsup(a.pos, "print-arg"),
                    }
                    out.push((t, e));
                }
                if !ok {
                    return Ok(Operand::invalid(pos));
                }
                let mut r = Operand::with_mode(Mode::NoValue, T_NOVALUE, pos);
                r.e = E::Print { newline: b == Builtin::Println, args: out };
                r.stmt_ok = true;
                Ok(r)
            }
        }
    }

    fn fmt_call(&mut self, k: FmtFn, args: &[Expr], pos: Pos) -> R<Operand> {
        let mut ops = Vec::new();
        for a in args {
            ops.push(self.value(a)?);
        }
        if ops.iter().any(|o| o.mode == Mode::Invalid) {
            return Ok(Operand::invalid(pos));
        }
        match k {
            FmtFn::Println | FmtFn::Print => {
                let mut es = Vec::new();
                for o in ops {
                    es.push(self.assign_to(o, T_ANY, "arg-mismatch", "argument")?);
                }
                let mut r = Operand::with_mode(Mode::NoValue, T_NOVALUE, pos);
                r.e = E::FmtPrint { newline: k == FmtFn::Println, args: es };
                r.stmt_ok = true;
                r.multi = true;
                Ok(r)
            }
            FmtFn::Sprintf => {
                if ops.is_empty() {
                    return Ok(self.err_at(pos, "arg-count", "not enough arguments in call to fmt.Sprintf"));
                }
                let mut it = ops.into_iter();
                let first = it.next().unwrap();
                let before = self.errors.len();
                let format = self.assign_to(first, T_STRING, "arg-mismatch", "argument")?;
                if self.errors.len() > before {
                    return Ok(Operand::invalid(pos));
                }
                let mut es = Vec::new();
                for o in it {
                    es.push(self.assign_to(o, T_ANY, "arg-mismatch", "argument")?);
                }
                let mut r = Operand::value(T_STRING, E::Sprintf { format: Box::new(format), args: es }, pos);
                r.stmt_ok = true;
                Ok(r)
            }
        }
    }
}
