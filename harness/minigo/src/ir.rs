//! Resolved intermediate representation produced by the checker and consumed by codegen.

use crate::types::{IntKind, TypeId, TypeTable};

/// constant runtime value description (Send + Sync)
#[derive(Clone, Debug, PartialEq)]
pub enum K {
    Bool(bool),
    Int(i64),
    F32(f32),
    F64(f64),
    Str(Vec<u8>),
    Nil,
    Agg(Vec<K>),
    Func(u32),
}

#[derive(Clone, Copy, Debug, PartialEq, Eq)]
pub enum NumKind {
    Int(IntKind),
    F32,
    F64,
    Str,
}

#[derive(Clone, Copy, Debug, PartialEq, Eq)]
pub enum ArithOp {
    Add,
    Sub,
    Mul,
    Div,
    Rem,
}

#[derive(Clone, Copy, Debug, PartialEq, Eq)]
pub enum CmpOp {
    Lt,
    Le,
    Gt,
    Ge,
}

#[derive(Clone, Copy, Debug, PartialEq, Eq)]
pub enum ConvKind {
    IntToInt { from: IntKind, to: IntKind },
    IntToF32 { from: IntKind },
    IntToF64 { from: IntKind },
    F32ToInt { to: IntKind },
    F64ToInt { to: IntKind },
    F64ToF32,
    F32ToF64,
    IntToStr { from: IntKind },
}

#[derive(Clone, Copy, Debug, PartialEq, Eq)]
pub enum SeqKind {
    Str,
    Array,
    Slice,
}

#[derive(Clone, Debug)]
pub enum Callee {
    Static(u32),
    Value(Box<E>),
    /// dynamic dispatch on an interface value (args[0] is the interface receiver)
    Iface(String),
}

#[derive(Clone, Debug)]
pub enum E {
    Const(K),
    Local(u32),
    Neg(NumKind, Box<E>),
    Not(Box<E>),
    Arith(ArithOp, NumKind, Box<E>, Box<E>),
    Cmp(CmpOp, NumKind, Box<E>, Box<E>),
    /// generic (deep) equality; `neg` for !=
    Eq { neg: bool, l: Box<E>, r: Box<E> },
    And(Box<E>, Box<E>),
    Or(Box<E>, Box<E>),
    Call { callee: Callee, args: Vec<E> },
    Len(SeqKind, Box<E>),
    Append { slice: Box<E>, elems: Vec<E>, elem_size: u64, zero: K },
    Panic(Box<E>),
    /// builtin print/println: static types of the arguments
    Print { newline: bool, args: Vec<(TypeId, E)> },
    FmtPrint { newline: bool, args: Vec<E> },
    Sprintf { format: Box<E>, args: Vec<E> },
    Conv(ConvKind, Box<E>),
    MkIface(TypeId, Box<E>),
    Field(Box<E>, u32),
    PtrField(Box<E>, u32),
    Deref(Box<E>),
    Index(SeqKind, Box<E>, Box<E>),
    /// struct literal: `zero` is the complete zero value, `inits` in source order
    StructLit { zero: K, inits: Vec<(u32, E)> },
    ArrayLit { len: u64, zero_elem: K, elems: Vec<E> },
    SliceLit { elems: Vec<E> },
    /// &T{...}
    AddrOf(Box<E>),
    TypeAssert { x: Box<E>, ty: TypeId, to_iface: bool },
}

#[derive(Clone, Debug)]
pub enum Root {
    Local(u32),
    Ptr(E),
    SliceElem { slice: E, idx: E },
}

#[derive(Clone, Debug)]
pub enum Step {
    Field(u32),
    Index(E),
}

#[derive(Clone, Debug)]
pub enum LV {
    Blank,
    Local(u32),
    Path { root: Root, steps: Vec<Step> },
}

#[derive(Clone, Debug)]
pub struct SwitchClause {
    pub conds: Vec<E>,
    pub body: Vec<S>,
}

#[derive(Clone, Debug)]
pub enum TCase {
    Nil,
    Concrete(TypeId),
    Iface(TypeId),
}

#[derive(Clone, Debug)]
pub struct TSClause {
    pub cases: Vec<TCase>,
    /// slot of the clause's bound symbol; `unwrap` = store the concrete (unwrapped) value
    pub bind: Option<(u32, bool)>,
    pub body: Vec<S>,
}

#[derive(Clone, Debug)]
pub enum S {
    /// expression statement; `has_value` = a result must be discarded
    Expr { e: E, has_value: bool },
    Go { callee: Callee, args: Vec<E> },
    Assign { lv: LV, e: E },
    Return(Option<E>),
    If { cond: E, then: Vec<S>, els: Vec<S> },
    Loop { cond: Option<E>, post: Vec<S>, body: Vec<S> },
    Break,
    Continue,
    Block(Vec<S>),
    Switch { clauses: Vec<SwitchClause>, default: Option<Vec<S>> },
    TypeSwitch { x: E, clauses: Vec<TSClause>, default: Option<(Option<u32>, Vec<S>)> },
}

#[derive(Clone, Debug)]
pub struct FuncIR {
    pub name: String,
    pub nparams: u32,
    pub nlocals: u32,
    pub has_result: bool,
    pub body: Vec<S>,
}

#[derive(Debug)]
pub struct Checked {
    pub types: TypeTable,
    pub funcs: Vec<FuncIR>,
    pub main: u32,
    pub idents: Vec<(String, &'static str, u32)>,
}
