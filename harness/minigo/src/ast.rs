//! Syntax tree.  As in Go's own parser, types and expressions share one node type.

use crate::lex::Pos;

#[derive(Debug, Clone, Copy, PartialEq, Eq)]
pub enum UnOp {
    Neg,
    Plus,
    Not,
    Addr,
    Deref,
    Xor,
    Recv,
}

#[derive(Debug, Clone, Copy, PartialEq, Eq)]
pub enum BinOp {
    Add,
    Sub,
    Mul,
    Div,
    Rem,
    And,
    Or,
    Xor,
    Shl,
    Shr,
    AndNot,
    LAnd,
    LOr,
    Eq,
    Ne,
    Lt,
    Le,
    Gt,
    Ge,
}

impl BinOp {
    pub fn text(self) -> &'static str {
        match self {
            BinOp::Add => "+",
            BinOp::Sub => "-",
            BinOp::Mul => "*",
            BinOp::Div => "/",
            BinOp::Rem => "%",
            BinOp::And => "&",
            BinOp::Or => "|",
            BinOp::Xor => "^",
            BinOp::Shl => "<<",
            BinOp::Shr => ">>",
            BinOp::AndNot => "&^",
            BinOp::LAnd => "&&",
            BinOp::LOr => "||",
            BinOp::Eq => "==",
            BinOp::Ne => "!=",
            BinOp::Lt => "<",
            BinOp::Le => "<=",
            BinOp::Gt => ">",
            BinOp::Ge => ">=",
        }
    }
}

#[derive(Debug, Clone)]
pub struct Expr {
    pub pos: Pos,
    pub kind: ExprKind,
}

#[derive(Debug, Clone)]
pub struct Element {
    pub key: Option<Expr>,
    pub value: Expr,
}

#[derive(Debug, Clone)]
pub struct FieldDecl {
    pub name: String,
    pub pos: Pos,
    pub ty: Expr,
}

#[derive(Debug, Clone)]
pub struct MethodSpec {
    pub name: String,
    pub pos: Pos,
    pub sig: Signature,
}

#[derive(Debug, Clone)]
pub struct Param {
    pub name: Option<(String, Pos)>,
    pub ty: Expr,
}

#[derive(Debug, Clone)]
pub struct Signature {
    pub pos: Pos,
    pub params: Vec<Param>,
    pub result: Option<Box<Expr>>,
}

#[derive(Debug, Clone)]
pub enum ExprKind {
    Ident(String),
    IntLit(String),
    FloatLit(String),
    CharLit(u32),
    StrLit(Vec<u8>),
    Paren(Box<Expr>),
    Unary(UnOp, Box<Expr>),
    Binary(BinOp, Box<Expr>, Box<Expr>),
    Call { f: Box<Expr>, args: Vec<Expr> },
    Selector(Box<Expr>, String, Pos),
    Index(Box<Expr>, Box<Expr>),
    TypeAssert(Box<Expr>, Box<Expr>),
    /// `x.(type)`, only legal in a switch header
    TypeSwitchGuard(Box<Expr>),
    CompositeLit { ty: Option<Box<Expr>>, elems: Vec<Element> },
    // types
    ArrayType { len: Box<Expr>, elem: Box<Expr> },
    SliceType(Box<Expr>),
    StructType(Vec<FieldDecl>),
    FuncType(Signature),
    InterfaceType(Vec<MethodSpec>),
}

#[derive(Debug, Clone)]
pub struct Block {
    pub lbrace: Pos,
    pub rbrace: Pos,
    pub stmts: Vec<Stmt>,
}

#[derive(Debug, Clone)]
pub struct CaseClause {
    pub pos: Pos,
    /// None = default
    pub exprs: Option<Vec<Expr>>,
    pub body: Vec<Stmt>,
}

#[derive(Debug, Clone)]
pub struct Stmt {
    pub pos: Pos,
    pub kind: StmtKind,
}

#[derive(Debug, Clone)]
pub enum StmtKind {
    Empty,
    Expr(Expr),
    Go(Expr),
    VarDecl { name: String, name_pos: Pos, ty: Option<Expr>, value: Option<Expr> },
    ShortVar { name: String, name_pos: Pos, value: Expr },
    Assign { lhs: Expr, rhs: Expr },
    Return(Vec<Expr>),
    If { init: Option<Box<Stmt>>, cond: Expr, then: Block, els: Option<Box<Stmt>> },
    For { init: Option<Box<Stmt>>, cond: Option<Expr>, post: Option<Box<Stmt>>, body: Block },
    Break,
    Continue,
    Block(Block),
    Switch { init: Option<Box<Stmt>>, tag: Option<Expr>, clauses: Vec<CaseClause>, rbrace: Pos },
    TypeSwitch { init: Option<Box<Stmt>>, bind: Option<(String, Pos)>, x: Expr, clauses: Vec<CaseClause>, rbrace: Pos },
    /// syntactically valid but not modelled
    Unsupported(&'static str),
}

#[derive(Debug, Clone)]
pub struct ImportSpec {
    pub pos: Pos,
    pub alias: Option<String>,
    pub path: Vec<u8>,
}

#[derive(Debug, Clone)]
pub enum Decl {
    Type { name: String, pos: Pos, alias: bool, ty: Expr },
    Func { recv: Option<Param>, name: String, pos: Pos, sig: Signature, body: Option<Block> },
}

#[derive(Debug, Clone)]
pub struct File {
    pub pkg_pos: Pos,
    pub imports: Vec<ImportSpec>,
    pub decls: Vec<Decl>,
}
