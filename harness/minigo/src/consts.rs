//! Compile-time constant values and arithmetic.

use crate::types::IntKind;
use std::rc::Rc;

/// A float constant.  `v`/`v32` are the value correctly rounded to float64/float32,
/// `exact` tells whether `v` equals the mathematical value of the constant.
#[derive(Clone, Copy, Debug)]
pub struct FC {
    pub v: f64,
    pub v32: f32,
    pub exact: bool,
}

#[derive(Clone, Debug)]
pub enum CV {
    Bool(bool),
    Int(i128),
    Float(FC),
    Str(Rc<Vec<u8>>),
}

pub enum LitErr {
    /// does not fit our representation -> Unsupported
    TooBig,
    Invalid,
}

pub fn parse_int_lit(text: &str) -> Result<i128, LitErr> {
    let (digits, radix) = if let Some(r) = text.strip_prefix("0x").or_else(|| text.strip_prefix("0X")) {
        (r, 16)
    } else if let Some(r) = text.strip_prefix("0o").or_else(|| text.strip_prefix("0O")) {
        (r, 8)
    } else if let Some(r) = text.strip_prefix("0b").or_else(|| text.strip_prefix("0B")) {
        (r, 2)
    } else if text.len() > 1 && text.starts_with('0') {
        (&text[1..], 8)
    } else {
        (text, 10)
    };
    let mut v: i128 = 0;
    if digits.is_empty() {
        return Err(LitErr::Invalid);
    }
    for c in digits.chars() {
        let d = c.to_digit(radix).ok_or(LitErr::Invalid)? as i128;
        v = v.checked_mul(radix as i128).ok_or(LitErr::TooBig)?;
        v = v.checked_add(d).ok_or(LitErr::TooBig)?;
    }
    Ok(v)
}

/// Is the decimal literal `text` exactly equal to `v`?
fn decimal_is_exact(text: &str, v: f64) -> bool {
    if !v.is_finite() {
        return false;
    }
    // split mantissa / exponent
    let lower = text.to_ascii_lowercase();
    let (mant, exp) = match lower.split_once('e') {
        Some((m, e)) => (m.to_string(), e.parse::<i64>().unwrap_or(i64::MAX)),
        None => (lower.clone(), 0),
    };
    if exp.abs() > 400 {
        return false;
    }
    let (ip, fp) = match mant.split_once('.') {
        Some((a, b)) => (a.to_string(), b.to_string()),
        None => (mant.clone(), String::new()),
    };
    let fp = fp.trim_end_matches('0');
    let digits = format!("{}{}", ip, fp);
    let digits = digits.trim_start_matches('0');
    let mut e10 = exp - fp.len() as i64;
    if digits.is_empty() {
        return v == 0.0;
    }
    let digits = {
        let t = digits.trim_end_matches('0');
        e10 += (digits.len() - t.len()) as i64;
        t
    };
    if digits.len() > 36 {
        return false;
    }
    let m: i128 = match digits.parse() {
        Ok(m) => m,
        Err(_) => return false,
    };
    // v = m2 * 2^e2
    let bits = v.to_bits();
    let be = ((bits >> 52) & 0x7ff) as i64;
    let frac = (bits & ((1u64 << 52) - 1)) as i128;
    let (mut m2, mut e2) = if be == 0 { (frac, -1074) } else { (frac | (1i128 << 52), be - 1075) };
    if m2 == 0 {
        return false;
    }
    while m2 & 1 == 0 {
        m2 >>= 1;
        e2 += 1;
    }
    // compare m * 10^e10 with m2 * 2^e2  (both positive)
    // lhs = m * 2^e10 * 5^e10
    let mut l = m;
    let mut r = m2;
    let mut l2 = e10; // power of two on the left
    let r2 = e2;
    if e10 >= 0 {
        for _ in 0..e10 {
            l = match l.checked_mul(5) {
                Some(x) => x,
                None => return false,
            };
        }
    } else {
        for _ in 0..(-e10) {
            r = match r.checked_mul(5) {
                Some(x) => x,
                None => return false,
            };
        }
    }
    // now l * 2^l2 == r * 2^r2 ?
    l2 -= r2;
    if l2 >= 0 {
        if l2 > 120 {
            return false;
        }
        match l.checked_shl(l2 as u32) {
            Some(x) if (x >> l2) == l => x == r,
            _ => false,
        }
    } else {
        let s = -l2;
        if s > 120 {
            return false;
        }
        match r.checked_shl(s as u32) {
            Some(x) if (x >> s) == r => x == l,
            _ => false,
        }
    }
}

/// None if the value overflows float64 (cannot be represented here)
pub fn parse_float_lit(text: &str) -> Option<FC> {
    let v: f64 = text.parse().ok()?;
    let v32: f32 = text.parse().ok()?;
    if !v.is_finite() {
        return None;
    }
    Some(FC { v, v32, exact: decimal_is_exact(text, v) })
}

pub fn int_to_fc(i: i128) -> FC {
    let v = i as f64;
    let v32 = i as f32;
    let exact = v.abs() < 1.0e38 && (v as i128) == i;
    FC { v, v32, exact }
}

pub fn neg_fc(f: FC) -> FC {
    FC { v: -f.v, v32: -f.v32, exact: f.exact }
}

pub enum ReprErr {
    Overflow,
    Truncated,
    /// cannot decide with our representation
    Unknown,
}

/// Convert an integer-valued constant to an integer kind.
pub fn int_fits(i: i128, k: IntKind) -> bool {
    i >= k.min() && i <= k.max()
}

/// float constant -> exact integer, if it is one
pub fn fc_to_int(f: FC) -> Result<i128, ReprErr> {
    if !f.exact {
        // an inexact literal might still be an integer only if it is huge; give up
        if f.v.abs() < 9.0e15 {
            return Err(ReprErr::Truncated);
        }
        return Err(ReprErr::Unknown);
    }
    if f.v.fract() != 0.0 {
        return Err(ReprErr::Truncated);
    }
    if f.v.abs() >= 1.0e38 {
        return Err(ReprErr::Unknown);
    }
    Ok(f.v as i128)
}

pub enum ArithErr {
    /// overflow of our i128 representation -> Unsupported
    Big,
    DivZero,
}

pub fn int_binop(op: crate::ast::BinOp, a: i128, b: i128) -> Result<i128, ArithErr> {
    use crate::ast::BinOp::*;
    match op {
        Add => a.checked_add(b).ok_or(ArithErr::Big),
        Sub => a.checked_sub(b).ok_or(ArithErr::Big),
        Mul => a.checked_mul(b).ok_or(ArithErr::Big),
        Div => {
            if b == 0 {
                Err(ArithErr::DivZero)
            } else {
                a.checked_div(b).ok_or(ArithErr::Big)
            }
        }
        Rem => {
            if b == 0 {
                Err(ArithErr::DivZero)
            } else {
                a.checked_rem(b).ok_or(ArithErr::Big)
            }
        }
        _ => Err(ArithErr::Big),
    }
}

pub fn encode_rune(r: i128) -> Vec<u8> {
    let c = if (0..=0x10FFFF).contains(&r) { char::from_u32(r as u32).unwrap_or('\u{fffd}') } else { '\u{fffd}' };
    let mut buf = [0u8; 4];
    c.encode_utf8(&mut buf).as_bytes().to_vec()
}
