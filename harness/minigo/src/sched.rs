//! Deterministic scheduler choices driven by `RunOpts.sched`.

pub struct Sched<'a> {
    bytes: &'a [u8],
    pos: usize,
    pub choice_points: Vec<u8>,
}

impl<'a> Sched<'a> {
    pub fn new(bytes: &'a [u8]) -> Sched<'a> {
        Sched { bytes, pos: 0, choice_points: Vec::new() }
    }

    /// choose among `n >= 2` candidates: consumes one schedule byte (0 when exhausted)
    pub fn pick(&mut self, n: usize) -> usize {
        let b = if self.pos < self.bytes.len() {
            let b = self.bytes[self.pos];
            self.pos += 1;
            b
        } else {
            0
        };
        self.choice_points.push(n.min(255) as u8);
        b as usize % n
    }
}

/// Candidate list at a visible action: current activation first, then all other live
/// activations in ascending id order.
pub fn candidates_at_action(cur: usize, live: &[bool]) -> Vec<usize> {
    let mut l = Vec::with_capacity(live.len());
    l.push(cur);
    for (i, &alive) in live.iter().enumerate() {
        if alive && i != cur {
            l.push(i);
        }
    }
    l
}

/// Candidate list after an activation finished: all live activations ascending.
pub fn candidates_after_exit(live: &[bool]) -> Vec<usize> {
    live.iter().enumerate().filter(|(_, &a)| a).map(|(i, _)| i).collect()
}
