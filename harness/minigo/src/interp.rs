//! Bytecode interpreter with explicit per-goroutine stacks.

use crate::codegen::*;
use crate::fmt as gofmt;
use crate::ir::*;
use crate::sched::{candidates_after_exit, candidates_at_action, Sched};
use crate::types::{IntKind, TypeData, TypeId, TypeTable};
use crate::{End, PanicKind, RunOpts, RunResult};
use std::cell::RefCell;
use std::rc::Rc;

/// Heap payload with an iterative destructor, so that dropping long chains of values
/// (linked lists through pointers / interfaces) never recurses deeply.
#[derive(Debug)]
pub struct Boxed(pub Value);

#[derive(Debug)]
pub struct SliceBuf(pub Vec<Value>);

fn is_container(v: &Value) -> bool {
    matches!(v, Value::Agg(_) | Value::Ptr(_) | Value::Slice(_) | Value::Iface(..))
}

fn drain_children(v: &mut Value, work: &mut Vec<Value>) {
    match v {
        // nesting of aggregates is bounded by the (finite) static type structure
        Value::Agg(a) => {
            for x in a.iter_mut() {
                if is_container(x) {
                    drain_children(x, work);
                }
            }
        }
        Value::Iface(_, rc) => {
            if let Some(b) = Rc::get_mut(rc) {
                if is_container(&b.0) {
                    work.push(std::mem::replace(&mut b.0, Value::Nil));
                }
            }
        }
        Value::Ptr(rc) => {
            if Rc::strong_count(rc) == 1 {
                if let Ok(mut b) = rc.try_borrow_mut() {
                    if is_container(&b.0) {
                        work.push(std::mem::replace(&mut b.0, Value::Nil));
                    }
                }
            }
        }
        Value::Slice(s) => {
            if Rc::strong_count(&s.arr) == 1 {
                if let Ok(mut b) = s.arr.try_borrow_mut() {
                    for x in b.0.iter_mut() {
                        if is_container(x) {
                            work.push(std::mem::replace(x, Value::Nil));
                        }
                    }
                }
            }
        }
        _ => {}
    }
}

fn drop_iteratively(v: Value) {
    let mut work = vec![v];
    while let Some(mut v) = work.pop() {
        drain_children(&mut v, &mut work);
        // `v` is dropped here; uniquely owned children have been emptied already
    }
}

impl Drop for Boxed {
    fn drop(&mut self) {
        if is_container(&self.0) {
            drop_iteratively(std::mem::replace(&mut self.0, Value::Nil));
        }
    }
}

impl Drop for SliceBuf {
    fn drop(&mut self) {
        for x in self.0.iter_mut() {
            if is_container(x) {
                drop_iteratively(std::mem::replace(x, Value::Nil));
            }
        }
    }
}

#[derive(Clone, Debug)]
pub struct SliceV {
    pub arr: Rc<RefCell<SliceBuf>>,
    pub off: u32,
    pub len: u32,
    pub cap: u32,
}

#[derive(Clone, Debug)]
pub enum Value {
    Nil,
    Bool(bool),
    Int(i64),
    F32(f32),
    F64(f64),
    Str(Rc<[u8]>),
    Agg(Box<[Value]>),
    Ptr(Rc<RefCell<Boxed>>),
    Slice(SliceV),
    Func(u32),
    Iface(TypeId, Rc<Boxed>),
}

fn from_k(k: &K) -> Value {
    match k {
        K::Bool(b) => Value::Bool(*b),
        K::Int(i) => Value::Int(*i),
        K::F32(f) => Value::F32(*f),
        K::F64(f) => Value::F64(*f),
        K::Str(s) => Value::Str(Rc::from(s.as_slice())),
        K::Nil => Value::Nil,
        K::Agg(v) => Value::Agg(v.iter().map(from_k).collect::<Vec<_>>().into_boxed_slice()),
        K::Func(i) => Value::Func(*i),
    }
}

enum Stop {
    Exit,
    Panic(PanicKind, String),
    Unsupported(String),
    StepLimit,
    OutputLimit,
}

struct Frame {
    f: u32,
    pc: u32,
    fp: u32,
    /// stack height to restore in the caller before pushing the result
    base: u32,
}

struct G {
    stack: Vec<Value>,
    frames: Vec<Frame>,
    pending: bool,
    f: u32,
    pc: u32,
    fp: u32,
    /// truncation point for the current frame on return
    base: u32,
}

const MAX_DEPTH: usize = 20_000;
const MAX_STR: usize = 1 << 24;
const MAX_SLICE: u64 = 1 << 26;
const MAX_GOROUTINES: usize = 10_000;

const SIZE_CLASSES: [u64; 67] = [
    8, 16, 24, 32, 48, 64, 80, 96, 112, 128, 144, 160, 176, 192, 208, 224, 240, 256, 288, 320, 352, 384, 416, 448,
    480, 512, 576, 640, 704, 768, 896, 1024, 1152, 1280, 1408, 1536, 1792, 2048, 2304, 2688, 3072, 3200, 3456,
    4096, 4864, 5376, 6144, 6528, 6784, 6912, 8192, 9472, 9728, 10240, 10880, 12288, 13568, 14336, 16384, 18432,
    19072, 20480, 21760, 24576, 27264, 28672, 32768,
];

fn roundupsize(size: u64) -> u64 {
    if size <= 32768 {
        for c in SIZE_CLASSES {
            if c >= size {
                return c;
            }
        }
    }
    size.div_ceil(8192) * 8192
}

/// runtime.growslice capacity computation (Go >= 1.20)
pub fn grow_cap(old_cap: u64, new_len: u64, elem_size: u64) -> u64 {
    if elem_size == 0 {
        return new_len;
    }
    let mut newcap = old_cap;
    let doublecap = newcap + newcap;
    if new_len > doublecap {
        newcap = new_len;
    } else if old_cap < 256 {
        newcap = doublecap;
    } else {
        loop {
            newcap += (newcap + 3 * 256) >> 2;
            if newcap >= new_len {
                break;
            }
        }
    }
    let mem = roundupsize(newcap.saturating_mul(elem_size));
    mem / elem_size
}

struct Machine<'a> {
    code: &'a Code,
    types: &'a TypeTable,
    consts: Vec<Value>,
    stdout: Vec<u8>,
    stderr: Vec<u8>,
    steps: u64,
    max_steps: u64,
    max_output: usize,
    sched: Sched<'a>,
    gs: Vec<Option<G>>,
    live: Vec<bool>,
    nlive: usize,
    spawned: u32,
    /// every heap cell created by `&T{...}`, so that reference cycles can be broken at the end
    cells: Vec<std::rc::Weak<RefCell<Boxed>>>,
}

fn index_panic(i: i64, n: usize) -> Stop {
    Stop::Panic(PanicKind::IndexOutOfRange, format!("runtime error: index out of range [{}] with length {}", i, n))
}

fn nil_panic() -> Stop {
    Stop::Panic(PanicKind::NilDeref, "runtime error: invalid memory address or nil pointer dereference".to_string())
}

fn internal(what: &str) -> Stop {
    Stop::Unsupported(format!("internal: {}", what))
}

impl<'a> Machine<'a> {
    fn values_equal(&self, a: &Value, b: &Value) -> Result<bool, Stop> {
        // explicit work list (depth-first, fields in source order) instead of recursion
        let mut work: Vec<(&Value, &Value)> = vec![(a, b)];
        while let Some((a, b)) = work.pop() {
            let eq = match (a, b) {
                (Value::Nil, Value::Nil) => true,
                (Value::Bool(x), Value::Bool(y)) => x == y,
                (Value::Int(x), Value::Int(y)) => x == y,
                (Value::F32(x), Value::F32(y)) => x == y,
                (Value::F64(x), Value::F64(y)) => x == y,
                (Value::Str(x), Value::Str(y)) => x == y,
                (Value::Agg(x), Value::Agg(y)) => {
                    if x.len() != y.len() {
                        false
                    } else {
                        for (p, q) in x.iter().zip(y.iter()).rev() {
                            work.push((p, q));
                        }
                        true
                    }
                }
                (Value::Ptr(x), Value::Ptr(y)) => Rc::ptr_eq(x, y),
                (Value::Iface(t1, v1), Value::Iface(t2, v2)) => {
                    if t1 != t2 {
                        false
                    } else {
                        if !self.types.comparable(*t1) {
                            return Err(Stop::Panic(
                                PanicKind::Uncomparable,
                                format!(
                                    "runtime error: comparing uncomparable type {}",
                                    self.types.runtime_type_string(*t1)
                                ),
                            ));
                        }
                        work.push((&v1.0, &v2.0));
                        true
                    }
                }
                (Value::Func(x), Value::Func(y)) => x == y,
                _ => false,
            };
            if !eq {
                return Ok(false);
            }
        }
        Ok(true)
    }

    fn write_stdout(&mut self, bytes: &[u8]) -> Result<(), Stop> {
        self.stdout.extend_from_slice(bytes);
        if self.stdout.len() > self.max_output {
            self.stdout.truncate(self.max_output);
            return Err(Stop::OutputLimit);
        }
        Ok(())
    }

    fn panic_value_text(&self, v: &Value) -> String {
        match v {
            Value::Nil => "panic called with nil argument (obsolete and disabled by GODEBUG=panicnil=1)".to_string(),
            Value::Iface(t, inner) => match (&inner.0, self.types.under(*t)) {
                (Value::Str(s), _) => String::from_utf8_lossy(s).into_owned(),
                (Value::Int(i), TypeData::Int(k)) => {
                    let mut o = Vec::new();
                    gofmt::fmt_int(*k, *i, &mut o);
                    String::from_utf8_lossy(&o).into_owned()
                }
                (Value::Bool(b), _) => b.to_string(),
                (Value::F64(f), _) => {
                    let mut o = Vec::new();
                    gofmt::fmt_builtin_float(*f, &mut o);
                    String::from_utf8_lossy(&o).into_owned()
                }
                (Value::F32(f), _) => {
                    let mut o = Vec::new();
                    gofmt::fmt_builtin_float(*f as f64, &mut o);
                    String::from_utf8_lossy(&o).into_owned()
                }
                _ => format!("({}) <value>", self.types.runtime_type_string(*t)),
            },
            _ => "<value>".to_string(),
        }
    }

    fn arith(&self, op: ArithOp, nk: NumKind, a: Value, b: Value) -> Result<Value, Stop> {
        match (nk, a, b) {
            (NumKind::Int(k), Value::Int(x), Value::Int(y)) => {
                let r = match op {
                    ArithOp::Add => x.wrapping_add(y),
                    ArithOp::Sub => x.wrapping_sub(y),
                    ArithOp::Mul => x.wrapping_mul(y),
                    ArithOp::Div | ArithOp::Rem => {
                        if y == 0 {
                            return Err(Stop::Panic(
                                PanicKind::DivideByZero,
                                "runtime error: integer divide by zero".to_string(),
                            ));
                        }
                        if k.is_u64() {
                            let (ux, uy) = (x as u64, y as u64);
                            (if op == ArithOp::Div { ux / uy } else { ux % uy }) as i64
                        } else if op == ArithOp::Div {
                            x.wrapping_div(y)
                        } else {
                            x.wrapping_rem(y)
                        }
                    }
                };
                Ok(Value::Int(k.wrap(r)))
            }
            (NumKind::F32, Value::F32(x), Value::F32(y)) => Ok(Value::F32(match op {
                ArithOp::Add => x + y,
                ArithOp::Sub => x - y,
                ArithOp::Mul => x * y,
                ArithOp::Div => x / y,
                ArithOp::Rem => return Err(internal("float rem")),
            })),
            (NumKind::F64, Value::F64(x), Value::F64(y)) => Ok(Value::F64(match op {
                ArithOp::Add => x + y,
                ArithOp::Sub => x - y,
                ArithOp::Mul => x * y,
                ArithOp::Div => x / y,
                ArithOp::Rem => return Err(internal("float rem")),
            })),
            (NumKind::Str, Value::Str(x), Value::Str(y)) => {
                if op != ArithOp::Add {
                    return Err(internal("string op"));
                }
                if x.is_empty() {
                    return Ok(Value::Str(y));
                }
                if y.is_empty() {
                    return Ok(Value::Str(x));
                }
                if x.len() + y.len() > MAX_STR {
                    return Err(Stop::Unsupported("string too large".into()));
                }
                let mut v = Vec::with_capacity(x.len() + y.len());
                v.extend_from_slice(&x);
                v.extend_from_slice(&y);
                Ok(Value::Str(Rc::from(v)))
            }
            _ => Err(internal("arith operands")),
        }
    }

    fn cmp(&self, op: CmpOp, nk: NumKind, a: &Value, b: &Value) -> Result<bool, Stop> {
        use std::cmp::Ordering;
        let ord: Option<Ordering> = match (nk, a, b) {
            (NumKind::Int(k), Value::Int(x), Value::Int(y)) => {
                if k.is_u64() {
                    Some((*x as u64).cmp(&(*y as u64)))
                } else {
                    Some(x.cmp(y))
                }
            }
            (NumKind::F32, Value::F32(x), Value::F32(y)) => x.partial_cmp(y),
            (NumKind::F64, Value::F64(x), Value::F64(y)) => x.partial_cmp(y),
            (NumKind::Str, Value::Str(x), Value::Str(y)) => Some(x.cmp(y)),
            _ => return Err(internal("cmp operands")),
        };
        Ok(match ord {
            None => false,
            Some(o) => match op {
                CmpOp::Lt => o == Ordering::Less,
                CmpOp::Le => o != Ordering::Greater,
                CmpOp::Gt => o == Ordering::Greater,
                CmpOp::Ge => o != Ordering::Less,
            },
        })
    }

    fn float_to_int(&self, v: f64, to: IntKind) -> Result<Value, Stop> {
        if v.is_nan() {
            return Err(Stop::Unsupported("float to int conversion of NaN".into()));
        }
        let t = v.trunc();
        let lo = to.min() as f64;
        let hi = (to.max() + 1) as f64;
        if t < lo || t >= hi {
            return Err(Stop::Unsupported("float to int conversion out of range".into()));
        }
        let r = if to.is_u64() { (t as u64) as i64 } else { t as i64 };
        Ok(Value::Int(to.wrap(r)))
    }

    fn conv(&self, k: ConvKind, v: Value) -> Result<Value, Stop> {
        Ok(match (k, v) {
            (ConvKind::IntToInt { to, .. }, Value::Int(i)) => Value::Int(to.wrap(i)),
            (ConvKind::IntToF32 { from }, Value::Int(i)) => {
                Value::F32(if from.is_u64() { (i as u64) as f32 } else { i as f32 })
            }
            (ConvKind::IntToF64 { from }, Value::Int(i)) => {
                Value::F64(if from.is_u64() { (i as u64) as f64 } else { i as f64 })
            }
            (ConvKind::F32ToInt { to }, Value::F32(f)) => self.float_to_int(f as f64, to)?,
            (ConvKind::F64ToInt { to }, Value::F64(f)) => self.float_to_int(f, to)?,
            (ConvKind::F64ToF32, Value::F64(f)) => Value::F32(f as f32),
            (ConvKind::F32ToF64, Value::F32(f)) => Value::F64(f as f64),
            (ConvKind::IntToStr { from }, Value::Int(i)) => {
                let cp: i128 = if from.is_u64() { (i as u64) as i128 } else { i as i128 };
                Value::Str(Rc::from(crate::consts::encode_rune(cp)))
            }
            _ => return Err(internal("conv operand")),
        })
    }

    fn index_value(&self, kind: SeqKind, c: &Value, i: &Value) -> Result<Value, Stop> {
        let Value::Int(i) = i else { return Err(internal("index type")) };
        let i = *i;
        match (kind, c) {
            (SeqKind::Str, Value::Str(s)) => {
                if i < 0 || i as usize >= s.len() {
                    return Err(index_panic(i, s.len()));
                }
                Ok(Value::Int(s[i as usize] as i64))
            }
            (SeqKind::Array, Value::Agg(v)) => {
                if i < 0 || i as usize >= v.len() {
                    return Err(index_panic(i, v.len()));
                }
                Ok(v[i as usize].clone())
            }
            (SeqKind::Slice, Value::Slice(s)) => {
                if i < 0 || i as u64 >= s.len as u64 {
                    return Err(index_panic(i, s.len as usize));
                }
                Ok(s.arr.borrow().0[s.off as usize + i as usize].clone())
            }
            (SeqKind::Slice, Value::Nil) => Err(index_panic(i, 0)),
            _ => Err(internal("index container")),
        }
    }

    fn append(&self, slice: Value, elems: Vec<Value>, d: &AppendDesc) -> Result<Value, Stop> {
        if elems.is_empty() {
            return Ok(slice);
        }
        let n = elems.len() as u64;
        let (old_len, old_cap) = match &slice {
            Value::Nil => (0u64, 0u64),
            Value::Slice(s) => (s.len as u64, s.cap as u64),
            _ => return Err(internal("append to non-slice")),
        };
        let new_len = old_len + n;
        if new_len <= old_cap {
            if let Value::Slice(s) = slice {
                {
                    let mut arr = s.arr.borrow_mut();
                    let start = s.off as usize + s.len as usize;
                    for (j, e) in elems.into_iter().enumerate() {
                        arr.0[start + j] = e;
                    }
                }
                return Ok(Value::Slice(SliceV { arr: s.arr, off: s.off, len: new_len as u32, cap: s.cap }));
            }
        }
        let new_cap = grow_cap(old_cap, new_len, d.elem_size);
        if new_cap > MAX_SLICE {
            return Err(Stop::Unsupported("slice too large".into()));
        }
        let mut v: Vec<Value> = Vec::with_capacity(new_cap as usize);
        if let Value::Slice(s) = &slice {
            let arr = s.arr.borrow();
            v.extend_from_slice(&arr.0[s.off as usize..s.off as usize + s.len as usize]);
        }
        v.extend(elems);
        let zero = &self.consts[d.zero as usize];
        while (v.len() as u64) < new_cap {
            v.push(zero.clone());
        }
        Ok(Value::Slice(SliceV { arr: Rc::new(RefCell::new(SliceBuf(v))), off: 0, len: new_len as u32, cap: new_cap as u32 }))
    }

    fn find_method(&self, t: TypeId, name: u32) -> Option<(u32, bool)> {
        if let Some(&f) = self.code.methods.get(&(t, name)) {
            return Some((f, false));
        }
        if let TypeData::Pointer(e) = self.types.get(t) {
            if let Some(&f) = self.code.methods.get(&(*e, name)) {
                return Some((f, true));
            }
        }
        None
    }

    fn new_goroutine(&mut self, func: u32, args: Vec<Value>) -> Result<(), Stop> {
        if self.gs.len() >= MAX_GOROUTINES {
            return Err(Stop::Unsupported("too many goroutines".into()));
        }
        let fc = &self.code.funcs[func as usize];
        let mut stack = args;
        stack.resize(fc.nlocals as usize, Value::Nil);
        self.gs.push(Some(G { stack, frames: Vec::new(), pending: false, f: func, pc: 0, fp: 0, base: 0 }));
        self.live.push(true);
        self.nlive += 1;
        self.spawned += 1;
        Ok(())
    }

    fn exec(&mut self) -> Stop {
        let code = self.code;
        let types = self.types;
        let mainf = &code.funcs[code.main as usize];
        let mut g = G {
            stack: vec![Value::Nil; mainf.nlocals as usize],
            frames: Vec::new(),
            pending: false,
            f: code.main,
            pc: 0,
            fp: 0,
            base: 0,
        };
        self.gs.push(None);
        self.live.push(true);
        self.nlive = 1;
        let mut cur: usize = 0;
        let mut ops: &[Op] = &mainf.ops;

        macro_rules! pop {
            () => {
                match g.stack.pop() {
                    Some(v) => v,
                    None => return internal("stack underflow"),
                }
            };
        }
        macro_rules! tri {
            ($e:expr) => {
                match $e {
                    Ok(v) => v,
                    Err(s) => return s,
                }
            };
        }
        // choice point before a visible action
        macro_rules! choice {
            () => {
                if g.pending {
                    g.pending = false;
                } else if self.nlive > 1 {
                    let l = candidates_at_action(cur, &self.live);
                    let k = self.sched.pick(l.len());
                    let target = l[k];
                    if target != cur {
                        g.pc -= 1;
                        g.pending = true;
                        let next = match self.gs[target].take() {
                            Some(n) => n,
                            None => return internal("missing goroutine"),
                        };
                        let old = std::mem::replace(&mut g, next);
                        self.gs[cur] = Some(old);
                        cur = target;
                        ops = &code.funcs[g.f as usize].ops;
                        continue;
                    }
                }
            };
        }
        macro_rules! do_call {
            ($func:expr, $nargs:expr, $base:expr) => {{
                let func: u32 = $func;
                let nargs: u32 = $nargs;
                self.steps += 1;
                if self.steps > self.max_steps {
                    return Stop::StepLimit;
                }
                if g.frames.len() >= MAX_DEPTH {
                    return Stop::Unsupported("call depth".into());
                }
                let fc = match code.funcs.get(func as usize) {
                    Some(fc) => fc,
                    None => return internal("bad function index"),
                };
                g.frames.push(Frame { f: g.f, pc: g.pc, fp: g.fp, base: g.base });
                let fp = g.stack.len() as u32 - nargs;
                g.base = $base;
                g.f = func;
                g.pc = 0;
                g.fp = fp;
                g.stack.resize((fp + fc.nlocals) as usize, Value::Nil);
                ops = &fc.ops;
            }};
        }

        loop {
            let op = match ops.get(g.pc as usize) {
                Some(op) => op,
                None => return internal("pc out of range"),
            };
            g.pc += 1;
            match op {
                Op::Stmt => {
                    self.steps += 1;
                    if self.steps > self.max_steps {
                        return Stop::StepLimit;
                    }
                }
                Op::Const(i) => g.stack.push(self.consts[*i as usize].clone()),
                Op::Int(i) => g.stack.push(Value::Int(*i)),
                Op::Bool(b) => g.stack.push(Value::Bool(*b)),
                Op::Nil => g.stack.push(Value::Nil),
                Op::Load(s) => {
                    let v = g.stack[(g.fp + *s) as usize].clone();
                    g.stack.push(v);
                }
                Op::Store(s) => {
                    let v = pop!();
                    g.stack[(g.fp + *s) as usize] = v;
                }
                Op::LoadFields(s, p) => {
                    let mut cur_v = &g.stack[(g.fp + *s) as usize];
                    for idx in &code.paths[*p as usize] {
                        match cur_v {
                            Value::Agg(v) => cur_v = &v[*idx as usize],
                            _ => return internal("field of non-struct"),
                        }
                    }
                    let v = cur_v.clone();
                    g.stack.push(v);
                }
                Op::IndexLocal(s, kind) => {
                    let i = pop!();
                    let v = tri!(self.index_value(*kind, &g.stack[(g.fp + *s) as usize], &i));
                    g.stack.push(v);
                }
                Op::Pop => {
                    g.stack.pop();
                }
                Op::Neg(nk) => {
                    let v = pop!();
                    g.stack.push(match (nk, v) {
                        (NumKind::Int(k), Value::Int(i)) => Value::Int(k.wrap(i.wrapping_neg())),
                        (_, Value::F32(f)) => Value::F32(-f),
                        (_, Value::F64(f)) => Value::F64(-f),
                        _ => return internal("neg operand"),
                    });
                }
                Op::Not => {
                    let v = pop!();
                    match v {
                        Value::Bool(b) => g.stack.push(Value::Bool(!b)),
                        _ => return internal("not operand"),
                    }
                }
                Op::Arith(aop, nk) => {
                    let b = pop!();
                    let a = pop!();
                    // fast path for the most common case
                    let r = match (nk, aop, &a, &b) {
                        (NumKind::Int(k), ArithOp::Add, Value::Int(x), Value::Int(y)) => Value::Int(k.wrap(x.wrapping_add(*y))),
                        (NumKind::Int(k), ArithOp::Sub, Value::Int(x), Value::Int(y)) => Value::Int(k.wrap(x.wrapping_sub(*y))),
                        _ => tri!(self.arith(*aop, *nk, a, b)),
                    };
                    g.stack.push(r);
                }
                Op::Cmp(cop, nk) => {
                    let b = pop!();
                    let a = pop!();
                    let r = tri!(self.cmp(*cop, *nk, &a, &b));
                    g.stack.push(Value::Bool(r));
                }
                Op::Eq(neg) => {
                    let b = pop!();
                    let a = pop!();
                    let r = tri!(self.values_equal(&a, &b));
                    g.stack.push(Value::Bool(r != *neg));
                }
                Op::Jump(t) => g.pc = *t,
                Op::JumpIfFalse(t) => match pop!() {
                    Value::Bool(false) => g.pc = *t,
                    Value::Bool(true) => {}
                    _ => return internal("jump condition"),
                },
                Op::JumpIfTrue(t) => match pop!() {
                    Value::Bool(true) => g.pc = *t,
                    Value::Bool(false) => {}
                    _ => return internal("jump condition"),
                },
                Op::Call(f, n) => {
                    let base = g.stack.len() as u32 - *n;
                    do_call!(*f, *n, base);
                }
                Op::CallValue(n) => {
                    let at = g.stack.len() - *n as usize - 1;
                    match &g.stack[at] {
                        Value::Func(f) => {
                            let f = *f;
                            do_call!(f, *n, at as u32);
                        }
                        Value::Nil => return nil_panic(),
                        _ => return internal("call of non-function"),
                    }
                }
                Op::CallIface(name, n) => {
                    let at = g.stack.len() - *n as usize;
                    let recv = std::mem::replace(&mut g.stack[at], Value::Nil);
                    match recv {
                        Value::Nil => return nil_panic(),
                        Value::Iface(t, inner) => {
                            let Some((f, deref)) = self.find_method(t, *name) else { return internal("method not found") };
                            let rv = if deref {
                                match &inner.0 {
                                    Value::Ptr(p) => p.borrow().0.clone(),
                                    _ => return nil_panic(),
                                }
                            } else {
                                inner.0.clone()
                            };
                            g.stack[at] = rv;
                            do_call!(f, *n, at as u32);
                        }
                        _ => return internal("interface call on non-interface"),
                    }
                }
                Op::Go(f, n) => {
                    choice!();
                    let at = g.stack.len() - *n as usize;
                    let args = g.stack.split_off(at);
                    tri!(self.new_goroutine(*f, args));
                }
                Op::GoValue(n) => {
                    choice!();
                    let at = g.stack.len() - *n as usize;
                    let args = g.stack.split_off(at);
                    match pop!() {
                        Value::Func(f) => tri!(self.new_goroutine(f, args)),
                        Value::Nil => return nil_panic(),
                        _ => return internal("go of non-function"),
                    }
                }
                Op::GoIface(name, n) => {
                    choice!();
                    let at = g.stack.len() - *n as usize;
                    let mut args = g.stack.split_off(at);
                    let recv = std::mem::replace(&mut args[0], Value::Nil);
                    match recv {
                        Value::Nil => return nil_panic(),
                        Value::Iface(t, inner) => {
                            let Some((f, deref)) = self.find_method(t, *name) else { return internal("method not found") };
                            args[0] = if deref {
                                match &inner.0 {
                                    Value::Ptr(p) => p.borrow().0.clone(),
                                    _ => return nil_panic(),
                                }
                            } else {
                                inner.0.clone()
                            };
                            tri!(self.new_goroutine(f, args));
                        }
                        _ => return internal("interface call on non-interface"),
                    }
                }
                Op::Ret | Op::RetVal => {
                    let result = if matches!(op, Op::RetVal) { Some(pop!()) } else { None };
                    match g.frames.pop() {
                        Some(fr) => {
                            g.stack.truncate(g.base as usize);
                            if let Some(r) = result {
                                g.stack.push(r);
                            }
                            g.f = fr.f;
                            g.pc = fr.pc;
                            g.fp = fr.fp;
                            g.base = fr.base;
                            ops = &code.funcs[g.f as usize].ops;
                        }
                        None => {
                            // activation finished
                            if cur == 0 {
                                return Stop::Exit;
                            }
                            self.live[cur] = false;
                            self.nlive -= 1;
                            let l = candidates_after_exit(&self.live);
                            if l.is_empty() {
                                return internal("no live goroutine");
                            }
                            let target = if l.len() >= 2 { l[self.sched.pick(l.len())] } else { l[0] };
                            g = match self.gs[target].take() {
                                Some(n) => n,
                                None => return internal("missing goroutine"),
                            };
                            cur = target;
                            ops = &code.funcs[g.f as usize].ops;
                        }
                    }
                }
                Op::Len(kind) => {
                    let v = pop!();
                    let n = match (kind, &v) {
                        (SeqKind::Str, Value::Str(s)) => s.len(),
                        (SeqKind::Array, Value::Agg(a)) => a.len(),
                        (SeqKind::Slice, Value::Slice(s)) => s.len as usize,
                        (SeqKind::Slice, Value::Nil) => 0,
                        _ => return internal("len operand"),
                    };
                    g.stack.push(Value::Int(n as i64));
                }
                Op::Append(n, d) => {
                    let at = g.stack.len() - *n as usize;
                    let elems = g.stack.split_off(at);
                    let slice = pop!();
                    let r = tri!(self.append(slice, elems, &code.appends[*d as usize]));
                    g.stack.push(r);
                }
                Op::Panic => {
                    let v = pop!();
                    let msg = self.panic_value_text(&v);
                    return Stop::Panic(PanicKind::Explicit, msg);
                }
                Op::Print(newline, d) => {
                    let tys = &code.prints[*d as usize];
                    let at = g.stack.len() - tys.len();
                    let args = g.stack.split_off(at);
                    let mut out = Vec::new();
                    for (i, (v, t)) in args.iter().zip(tys.iter()).enumerate() {
                        if i > 0 && *newline {
                            out.push(b' ');
                        }
                        match (v, types.under(*t)) {
                            (Value::Str(s), _) => out.extend_from_slice(s),
                            (Value::Int(x), TypeData::Int(k)) => gofmt::fmt_int(*k, *x, &mut out),
                            (Value::Bool(b), _) => out.extend_from_slice(if *b { b"true" } else { b"false" }),
                            (Value::F64(f), _) => gofmt::fmt_builtin_float(*f, &mut out),
                            (Value::F32(f), _) => gofmt::fmt_builtin_float(*f as f64, &mut out),
                            _ => return Stop::Unsupported("println argument kind".into()),
                        }
                    }
                    if *newline {
                        out.push(b'\n');
                    }
                    self.stderr.extend_from_slice(&out);
                }
                Op::FmtPrint(newline, n) => {
                    choice!();
                    let at = g.stack.len() - *n as usize;
                    let args = g.stack.split_off(at);
                    let mut out = Vec::new();
                    if let Err(e) = gofmt::fmt_print(types, &args, *newline, &mut out) {
                        return Stop::Unsupported(e);
                    }
                    tri!(self.write_stdout(&out));
                }
                Op::Sprintf(n) => {
                    let at = g.stack.len() - *n as usize;
                    let args = g.stack.split_off(at);
                    let f = pop!();
                    let Value::Str(f) = f else { return internal("sprintf format") };
                    match gofmt::sprintf(types, &f, &args) {
                        Ok(s) => {
                            if s.len() > MAX_STR {
                                return Stop::Unsupported("string too large".into());
                            }
                            g.stack.push(Value::Str(Rc::from(s)));
                        }
                        Err(e) => return Stop::Unsupported(e),
                    }
                }
                Op::Conv(k) => {
                    let v = pop!();
                    let r = tri!(self.conv(*k, v));
                    g.stack.push(r);
                }
                Op::MkIface(t) => {
                    let v = pop!();
                    g.stack.push(Value::Iface(*t, Rc::new(Boxed(v))));
                }
                Op::Field(i) => {
                    let v = pop!();
                    match v {
                        Value::Agg(a) => {
                            let mut a = a.into_vec();
                            if (*i as usize) >= a.len() {
                                return internal("field index");
                            }
                            g.stack.push(a.swap_remove(*i as usize));
                        }
                        _ => return internal("field of non-struct"),
                    }
                }
                Op::PtrField(i) => {
                    choice!();
                    let p = pop!();
                    match p {
                        Value::Ptr(c) => {
                            let v = match &c.borrow().0 {
                                Value::Agg(a) => a[*i as usize].clone(),
                                _ => return internal("pointer to non-struct"),
                            };
                            g.stack.push(v);
                        }
                        Value::Nil => return nil_panic(),
                        _ => return internal("field through non-pointer"),
                    }
                }
                Op::Deref => {
                    choice!();
                    let p = pop!();
                    match p {
                        Value::Ptr(c) => {
                            let v = c.borrow().0.clone();
                            g.stack.push(v);
                        }
                        Value::Nil => return nil_panic(),
                        _ => return internal("deref of non-pointer"),
                    }
                }
                Op::Index(kind) => {
                    let i = pop!();
                    let c = pop!();
                    let v = tri!(self.index_value(*kind, &c, &i));
                    g.stack.push(v);
                }
                Op::MakeStruct(d) => {
                    let desc = &code.structs[*d as usize];
                    let at = g.stack.len() - desc.fields.len();
                    let vals = g.stack.split_off(at);
                    let mut z = self.consts[desc.zero as usize].clone();
                    match &mut z {
                        Value::Agg(a) => {
                            for (v, fi) in vals.into_iter().zip(desc.fields.iter()) {
                                a[*fi as usize] = v;
                            }
                        }
                        _ => return internal("struct zero"),
                    }
                    g.stack.push(z);
                }
                Op::MakeArray(n, d) => {
                    let desc = &code.arrays[*d as usize];
                    let at = g.stack.len() - *n as usize;
                    let mut vals = g.stack.split_off(at);
                    let zero = &self.consts[desc.zero_elem as usize];
                    while (vals.len() as u64) < desc.len {
                        vals.push(zero.clone());
                    }
                    g.stack.push(Value::Agg(vals.into_boxed_slice()));
                }
                Op::MakeSlice(n) => {
                    let at = g.stack.len() - *n as usize;
                    let vals = g.stack.split_off(at);
                    let len = vals.len() as u32;
                    g.stack.push(Value::Slice(SliceV { arr: Rc::new(RefCell::new(SliceBuf(vals))), off: 0, len, cap: len }));
                }
                Op::AddrOf => {
                    let v = pop!();
                    let cell = Rc::new(RefCell::new(Boxed(v)));
                    self.cells.push(Rc::downgrade(&cell));
                    g.stack.push(Value::Ptr(cell));
                }
                Op::TypeAssert(ty, to_iface) => {
                    let v = pop!();
                    match v {
                        Value::Nil => {
                            return Stop::Panic(
                                PanicKind::TypeAssertion,
                                format!(
                                    "interface conversion: interface is nil, not {}",
                                    types.runtime_type_string(*ty)
                                ),
                            )
                        }
                        Value::Iface(t, inner) => {
                            if *to_iface {
                                if let Some((m, _)) = types.missing_method(t, *ty) {
                                    return Stop::Panic(
                                        PanicKind::TypeAssertion,
                                        format!(
                                            "interface conversion: {} is not {}: missing method {}",
                                            types.runtime_type_string(t),
                                            types.runtime_type_string(*ty),
                                            m
                                        ),
                                    );
                                }
                                g.stack.push(Value::Iface(t, inner));
                            } else if t == *ty {
                                g.stack.push(inner.0.clone());
                            } else {
                                return Stop::Panic(
                                    PanicKind::TypeAssertion,
                                    format!(
                                        "interface conversion: interface {{}} is {}, not {}",
                                        types.runtime_type_string(t),
                                        types.runtime_type_string(*ty)
                                    ),
                                );
                            }
                        }
                        _ => return internal("type assertion on non-interface"),
                    }
                }
                Op::StorePath(d) => {
                    let desc = &code.stores[*d as usize];
                    if matches!(desc.root, RootK::Ptr) {
                        choice!();
                    }
                    let rhs = pop!();
                    let at = g.stack.len() - desc.nindex as usize;
                    let idxs = g.stack.split_off(at);
                    let r = match desc.root {
                        RootK::Local(s) => {
                            let slot = (g.fp + s) as usize;
                            store_steps(&mut g.stack[slot], &desc.steps, &idxs, rhs)
                        }
                        RootK::Ptr => match pop!() {
                            Value::Ptr(c) => {
                                let mut b = c.borrow_mut();
                                store_steps(&mut b.0, &desc.steps, &idxs, rhs)
                            }
                            Value::Nil => Err(nil_panic()),
                            _ => Err(internal("store through non-pointer")),
                        },
                        RootK::SliceElem => {
                            let i = pop!();
                            let s = pop!();
                            match (s, i) {
                                (Value::Slice(s), Value::Int(i)) => {
                                    if i < 0 || i as u64 >= s.len as u64 {
                                        Err(index_panic(i, s.len as usize))
                                    } else {
                                        let mut arr = s.arr.borrow_mut();
                                        store_steps(&mut arr.0[s.off as usize + i as usize], &desc.steps, &idxs, rhs)
                                    }
                                }
                                (Value::Nil, Value::Int(i)) => Err(index_panic(i, 0)),
                                _ => Err(internal("store to non-slice")),
                            }
                        }
                    };
                    tri!(r);
                }
                Op::TypeCase(d, target) => {
                    let cases = &code.tcases[*d as usize];
                    let top = match g.stack.last() {
                        Some(t) => t,
                        None => return internal("stack underflow"),
                    };
                    let mut matched = false;
                    for c in cases {
                        let m = match (c, top) {
                            (TCase::Nil, Value::Nil) => true,
                            (TCase::Concrete(t), Value::Iface(t2, _)) => t == t2,
                            (TCase::Iface(t), Value::Iface(t2, _)) => types.implements(*t2, *t),
                            _ => false,
                        };
                        if m {
                            matched = true;
                            break;
                        }
                    }
                    if !matched {
                        g.pc = *target;
                    }
                }
                Op::Bind(slot, unwrap) => {
                    let top = match g.stack.last() {
                        Some(t) => t.clone(),
                        None => return internal("stack underflow"),
                    };
                    let v = if *unwrap {
                        match top {
                            Value::Iface(_, inner) => inner.0.clone(),
                            _ => return internal("bind unwrap"),
                        }
                    } else {
                        top
                    };
                    g.stack[(g.fp + *slot) as usize] = v;
                }
                Op::Trap => return internal("missing return"),
            }
        }
    }
}

fn store_steps(mut target: &mut Value, steps: &[StepK], idxs: &[Value], rhs: Value) -> Result<(), Stop> {
    let mut ii = 0;
    for st in steps {
        match st {
            StepK::Field(f) => match target {
                Value::Agg(a) => target = &mut a[*f as usize],
                _ => return Err(internal("store field of non-struct")),
            },
            StepK::Index => {
                let Some(Value::Int(i)) = idxs.get(ii) else { return Err(internal("store index")) };
                ii += 1;
                match target {
                    Value::Agg(a) => {
                        if *i < 0 || *i as usize >= a.len() {
                            return Err(index_panic(*i, a.len()));
                        }
                        target = &mut a[*i as usize];
                    }
                    _ => return Err(internal("store index of non-array")),
                }
            }
        }
    }
    *target = rhs;
    Ok(())
}

pub fn run(code: &Code, opts: &RunOpts) -> RunResult {
    let mut m = Machine {
        code,
        types: &code.types,
        consts: code.consts.iter().map(from_k).collect(),
        stdout: Vec::new(),
        stderr: Vec::new(),
        steps: 0,
        max_steps: opts.max_steps,
        max_output: opts.max_output,
        sched: Sched::new(&opts.sched),
        gs: Vec::new(),
        live: Vec::new(),
        nlive: 0,
        spawned: 0,
        cells: Vec::new(),
    };
    let stop = m.exec();
    let end = match stop {
        Stop::Exit => End::Exit0,
        Stop::Panic(k, msg) => {
            m.stderr.extend_from_slice(b"panic: ");
            m.stderr.extend_from_slice(msg.as_bytes());
            if matches!(k, PanicKind::NilDeref) {
                m.stderr.extend_from_slice(b"\n[signal SIGSEGV: segmentation violation]");
            }
            m.stderr.extend_from_slice(b"\n\ngoroutine 1 [running]:\nexit status 2\n");
            End::Panic(k, msg)
        }
        Stop::Unsupported(s) => End::Unsupported(s),
        Stop::StepLimit => End::StepLimit,
        Stop::OutputLimit => End::OutputLimit,
    };
    // break reference cycles between cells so memory is reclaimed
    m.gs.clear();
    for w in std::mem::take(&mut m.cells) {
        if let Some(rc) = w.upgrade() {
            if let Ok(mut b) = rc.try_borrow_mut() {
                let old = std::mem::replace(&mut b.0, Value::Nil);
                drop(b);
                drop_iteratively(old);
            }
        }
    }
    RunResult {
        stdout: std::mem::take(&mut m.stdout),
        stderr: std::mem::take(&mut m.stderr),
        end,
        steps: m.steps.min(opts.max_steps.saturating_add(1)),
        choice_points: std::mem::take(&mut m.sched.choice_points),
        spawned: m.spawned,
    }
}
