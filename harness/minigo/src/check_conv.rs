//! Checker helpers: constant representability, assignability, untyped conversion.

use crate::ast::*;
use crate::check::*;
use crate::consts::{self, CV, FC};
use crate::ir::*;
use crate::lex::Pos;
use crate::types::*;

pub(crate) enum Repr {
    Ok(CV),
    /// numeric but out of range / truncated
    Overflow(String),
    /// wrong kind of constant
    Mismatch,
    Unknown,
}

impl<'a> Checker<'a> {
    pub(crate) fn describe(&self, o: &Operand) -> String {
        match (&o.mode, &o.cv) {
            (Mode::Const, Some(cv)) => {
                let v = match cv {
                    CV::Bool(b) => b.to_string(),
                    CV::Int(i) => i.to_string(),
                    CV::Float(f) => format!("{}", f.v),
                    CV::Str(s) => format!("{:?}", String::from_utf8_lossy(s)),
                };
                if self.tt.is_untyped(o.ty) {
                    format!("{} ({} constant)", v, self.ts(o.ty))
                } else {
                    format!("{} (constant of type {})", v, self.ts(o.ty))
                }
            }
            _ if o.ty == T_UNIL => "untyped nil".to_string(),
            _ => format!("{} of type {}", o.what, self.ts(o.ty)),
        }
    }

    /// evaluate `x` requiring a single value
    pub(crate) fn value(&mut self, x: &Expr) -> R<Operand> {
        let o = self.expr(x)?;
        self.require_value(o, x)
    }

    pub(crate) fn require_value(&mut self, o: Operand, x: &Expr) -> R<Operand> {
        match o.mode {
            Mode::Invalid | Mode::Const | Mode::Value => Ok(o),
            Mode::NoValue => {
                if o.multi {
                    return self.unsup(x.pos, "multi-value-call");
                }
                self.err(x.pos, "no-value", "call (no value) used as value".into());
                Ok(Operand::invalid(x.pos))
            }
            Mode::Builtin(_) => {
                self.err(x.pos, "builtin-not-called", "built-in must be called".into());
                Ok(Operand::invalid(x.pos))
            }
            Mode::FmtFunc(_) => self.unsup(x.pos, "fmt-func-value"),
            Mode::Package(i) => {
                self.imports[i].used = true;
                self.err(x.pos, "package-value", "use of package without selector".into());
                Ok(Operand::invalid(x.pos))
            }
            Mode::Type => {
                self.err(x.pos, "type-as-value", format!("{} (type) is not an expression", self.ts(o.ty)));
                Ok(Operand::invalid(x.pos))
            }
            Mode::Method => self.unsup(x.pos, "method-value"),
        }
    }

    /// Is constant `cv` representable in (basic) type `t`?  Returns the converted value.
    pub(crate) fn representable(&self, cv: &CV, t: TypeId) -> Repr {
        match self.tt.under(t).clone() {
            TypeData::Int(k) => {
                let i = match cv {
                    CV::Int(i) => *i,
                    // far outside every integer type, whatever the exact value is
                    CV::Float(f) if f.v.abs() >= 3.7e19 => return Repr::Overflow("overflows".into()),
                    CV::Float(f) => match consts::fc_to_int(*f) {
                        Ok(i) => i,
                        Err(consts::ReprErr::Truncated) => return Repr::Overflow("truncated".into()),
                        Err(_) => return Repr::Unknown,
                    },
                    _ => return Repr::Mismatch,
                };
                if consts::int_fits(i, k) {
                    Repr::Ok(CV::Int(i))
                } else {
                    Repr::Overflow("overflows".into())
                }
            }
            TypeData::UntypedInt | TypeData::UntypedRune => match cv {
                CV::Int(i) => Repr::Ok(CV::Int(*i)),
                CV::Float(f) => match consts::fc_to_int(*f) {
                    Ok(i) => Repr::Ok(CV::Int(i)),
                    Err(consts::ReprErr::Truncated) => Repr::Overflow("truncated".into()),
                    Err(_) => Repr::Unknown,
                },
                _ => Repr::Mismatch,
            },
            TypeData::Float32 => {
                let f = match cv {
                    CV::Int(i) => consts::int_to_fc(*i),
                    CV::Float(f) => *f,
                    _ => return Repr::Mismatch,
                };
                if f.v32.is_infinite() {
                    return Repr::Overflow("overflows".into());
                }
                let v = f.v32 as f64;
                Repr::Ok(CV::Float(FC { v, v32: f.v32, exact: f.exact && v == f.v }))
            }
            TypeData::Float64 | TypeData::UntypedFloat => {
                let f = match cv {
                    CV::Int(i) => consts::int_to_fc(*i),
                    CV::Float(f) => *f,
                    _ => return Repr::Mismatch,
                };
                if f.v.is_infinite() {
                    return Repr::Overflow("overflows".into());
                }
                Repr::Ok(CV::Float(f))
            }
            TypeData::String | TypeData::UntypedString => match cv {
                CV::Str(_) => Repr::Ok(cv.clone()),
                _ => Repr::Mismatch,
            },
            TypeData::Bool | TypeData::UntypedBool => match cv {
                CV::Bool(_) => Repr::Ok(cv.clone()),
                _ => Repr::Mismatch,
            },
            _ => Repr::Mismatch,
        }
    }

    /// runtime constant for a typed constant
    pub(crate) fn const_k(&self, cv: &CV, t: TypeId) -> K {
        match (self.tt.under(t), cv) {
            (TypeData::Int(k), CV::Int(i)) => K::Int(k.wrap(*i as i64)),
            (TypeData::Float32, CV::Float(f)) => K::F32(f.v32),
            (TypeData::Float64, CV::Float(f)) => K::F64(f.v),
            (TypeData::Float32, CV::Int(i)) => K::F32(*i as f32),
            (TypeData::Float64, CV::Int(i)) => K::F64(*i as f64),
            (_, CV::Str(s)) => K::Str((**s).clone()),
            (_, CV::Bool(b)) => K::Bool(*b),
            (_, CV::Int(i)) => K::Int(*i as i64),
            (_, CV::Float(f)) => K::F64(f.v),
        }
    }

    /// Convert operand to a typed operand of basic type `t` if it is an untyped constant
    /// (used for binary operands).  Returns None (after reporting) on failure.
    pub(crate) fn convert_untyped(&mut self, mut o: Operand, t: TypeId, rule: &str) -> R<Option<Operand>> {
        if !self.tt.is_untyped(o.ty) || o.mode == Mode::Invalid {
            return Ok(Some(o));
        }
        if o.ty == T_UNIL {
            if self.tt.has_nil(t) {
                o.ty = t;
                o.e = E::Const(K::Nil);
                return Ok(Some(o));
            }
            self.err(o.pos, rule, format!("cannot convert nil to type {}", self.ts(t)));
            return Ok(None);
        }
        if self.tt.is_interface(t) {
            // untyped value -> default type; wrapping is done by the caller
            let d = self.tt.default_type(o.ty);
            return self.convert_untyped(o, d, rule);
        }
        match (&o.mode, o.cv.clone()) {
            (Mode::Const, Some(cv)) => match self.representable(&cv, t) {
                Repr::Ok(ncv) => {
                    o.e = E::Const(self.const_k(&ncv, t));
                    o.cv = Some(ncv);
                    o.ty = t;
                    Ok(Some(o))
                }
                Repr::Overflow(why) => {
                    self.err(
                        o.pos,
                        "const-overflow",
                        format!("cannot use {} as {} value ({})", self.describe(&o), self.ts(t), why),
                    );
                    Ok(None)
                }
                Repr::Mismatch => {
                    self.err(o.pos, rule, format!("cannot use {} as {} value", self.describe(&o), self.ts(t)));
                    Ok(None)
                }
                Repr::Unknown => self.unsup(o.pos, "constant-representability"),
            },
            _ => {
                // untyped non-constant: only untyped bool
                if o.ty == T_UBOOL && self.tt.is_boolean(t) {
                    o.ty = t;
                    Ok(Some(o))
                } else {
                    self.err(o.pos, rule, format!("cannot use {} as {} value", self.describe(&o), self.ts(t)));
                    Ok(None)
                }
            }
        }
    }

    /// Check that `o` is assignable to `target`; returns the IR of the converted value.
    pub(crate) fn assign_to(&mut self, o: Operand, target: TypeId, rule: &str, ctx: &str) -> R<E> {
        let dummy = E::Const(K::Nil);
        if o.mode == Mode::Invalid || target == T_INVALID {
            return Ok(dummy);
        }
        if self.tt.is_untyped(o.ty) {
            if o.ty == T_UNIL {
                if self.tt.has_nil(target) {
                    return Ok(E::Const(K::Nil));
                }
                self.err(o.pos, rule, format!("cannot use nil as {} value in {}", self.ts(target), ctx));
                return Ok(dummy);
            }
            if self.tt.is_interface(target) {
                let empty = self.tt.iface_methods(target).map(|m| m.is_empty()).unwrap_or(false);
                let d = self.tt.default_type(o.ty);
                if !empty {
                    self.err(
                        o.pos,
                        "missing-method",
                        format!("cannot use {} as {} value in {}: missing method", self.describe(&o), self.ts(target), ctx),
                    );
                    return Ok(dummy);
                }
                return match self.convert_untyped(o, d, rule)? {
                    Some(c) => Ok(E::MkIface(d, Box::new(c.e))),
                    None => Ok(dummy),
                };
            }
            let pos = o.pos;
            let desc = self.describe(&o);
            let before = self.errors.len();
            return match self.convert_untyped(o, target, rule)? {
                Some(c) => Ok(c.e),
                None => {
                    // make the message mention the context
                    let grew = self.errors.len() > before;
                    let tstr = self.tt.type_string(target);
                    if let Some(last) = self.errors.last_mut() {
                        if grew && last.rule == rule {
                            last.msg = format!("cannot use {} as {} value in {}", desc, tstr, ctx);
                            last.line = pos.line;
                            last.col = pos.col;
                        }
                    }
                    Ok(dummy)
                }
            };
        }
        let v = o.ty;
        if v == target {
            return Ok(o.e);
        }
        if self.tt.is_interface(target) {
            if let Some((m, wrong)) = self.tt.missing_method(v, target) {
                self.err(
                    o.pos,
                    "missing-method",
                    format!(
                        "cannot use {} as {} value in {}: {} does not implement {} ({} method {})",
                        self.describe(&o),
                        self.ts(target),
                        ctx,
                        self.ts(v),
                        self.ts(target),
                        if wrong { "wrong type for" } else { "missing" },
                        m
                    ),
                );
                return Ok(dummy);
            }
            if self.tt.is_interface(v) {
                return Ok(o.e);
            }
            return Ok(E::MkIface(v, Box::new(o.e)));
        }
        // identical underlying types, at least one not named
        let v_named = matches!(self.tt.get(v), TypeData::Named(_));
        let t_named = matches!(self.tt.get(target), TypeData::Named(_));
        if self.tt.underlying(v) == self.tt.underlying(target) && !(v_named && t_named) {
            return Ok(o.e);
        }
        self.err(
            o.pos,
            rule,
            format!("cannot use {} as {} value in {}", self.describe(&o), self.ts(target), ctx),
        );
        Ok(dummy)
    }

    /// can a value of type `v` (typed) be assigned to `t`? (no diagnostics)
    pub(crate) fn assignable_types(&self, v: TypeId, t: TypeId) -> bool {
        if v == t {
            return true;
        }
        if v == T_UNIL {
            return self.tt.has_nil(t);
        }
        if self.tt.is_interface(t) {
            return self.tt.implements(v, t);
        }
        let v_named = matches!(self.tt.get(v), TypeData::Named(_));
        let t_named = matches!(self.tt.get(t), TypeData::Named(_));
        self.tt.underlying(v) == self.tt.underlying(t) && !(v_named && t_named)
    }

    pub(crate) fn materialize_bool(&mut self, o: Operand) -> R<E> {
        if o.mode == Mode::Invalid {
            return Ok(E::Const(K::Bool(false)));
        }
        let t = self.tt.default_type(o.ty);
        self.assign_to(o, t, "assign-mismatch", "condition")
    }

    pub(crate) fn num_kind(&self, t: TypeId) -> Option<NumKind> {
        match self.tt.under(t) {
            TypeData::Int(k) => Some(NumKind::Int(*k)),
            TypeData::Float32 => Some(NumKind::F32),
            TypeData::Float64 => Some(NumKind::F64),
            TypeData::String => Some(NumKind::Str),
            _ => None,
        }
    }

    pub(crate) fn err_at(&mut self, pos: Pos, rule: &str, msg: &str) -> Operand {
        self.err(pos, rule, msg.to_string());
        Operand::invalid(pos)
    }
}
