//! minigo: an independent judge (lexer, parser, type checker, interpreter) for the closed
//! subset of Go that the goml printer can emit.  Anything outside the modelled subset
//! yields `Unsupported` (fail closed).

mod ast;
mod check;
mod check_call;
mod check_conv;
mod check_expr;
mod codegen;
mod consts;
mod fmt;
mod interp;
mod ir;
mod lex;
mod parse;
mod sched;
mod types;

use std::panic::{catch_unwind, AssertUnwindSafe};

#[derive(Debug, Clone, PartialEq, Eq)]
pub enum ErrKind {
    Lex,
    Parse,
    Type,
    Unsupported,
}

#[derive(Debug, Clone)]
pub struct GoError {
    pub kind: ErrKind,
    pub line: u32,
    pub col: u32,
    /// stable short rule id, e.g. "syntax", "undeclared", "redeclared", "unused-var", ...
    pub rule: String,
    pub msg: String,
}

impl GoError {
    pub(crate) fn new(kind: ErrKind, pos: lex::Pos, rule: &str, msg: String) -> GoError {
        GoError { kind, line: pos.line, col: pos.col, rule: rule.to_string(), msg }
    }
    pub(crate) fn unsupported(pos: lex::Pos, what: &str) -> GoError {
        GoError {
            kind: ErrKind::Unsupported,
            line: pos.line,
            col: pos.col,
            rule: format!("unsupported:{}", what),
            msg: format!("unsupported: {}", what),
        }
    }
}

impl std::fmt::Display for GoError {
    fn fmt(&self, f: &mut std::fmt::Formatter<'_>) -> std::fmt::Result {
        write!(f, "{}:{}: [{:?}/{}] {}", self.line, self.col, self.kind, self.rule, self.msg)
    }
}

/// Opaque: checked + compiled program.
pub struct Program {
    pub(crate) code: codegen::Code,
    pub(crate) idents: Vec<(String, &'static str, u32)>,
}

impl Program {
    pub fn declared_idents(&self) -> Vec<(String, &'static str, u32)> {
        self.idents.clone()
    }
}

fn compile_inner(text: &str) -> Result<Program, Vec<GoError>> {
    let toks = lex::lex(text).map_err(|e| vec![e])?;
    let file = parse::parse(&toks).map_err(|e| vec![e])?;
    let checked = check::check(&file)?;
    let idents = checked.idents.clone();
    let code = codegen::generate(checked).map_err(|e| vec![e])?;
    Ok(Program { code, idents })
}

fn internal_err(what: &str) -> GoError {
    GoError {
        kind: ErrKind::Unsupported,
        line: 0,
        col: 0,
        rule: "unsupported:internal".to_string(),
        msg: format!("internal: {}", what),
    }
}

fn panic_text(p: Box<dyn std::any::Any + Send>) -> String {
    if let Some(s) = p.downcast_ref::<&str>() {
        s.to_string()
    } else if let Some(s) = p.downcast_ref::<String>() {
        s.clone()
    } else {
        "panic".to_string()
    }
}

/// lex + parse + type-check.
pub fn compile(text: &str) -> Result<Program, Vec<GoError>> {
    // Run on a dedicated thread with a large stack so that deeply nested (but capped)
    // input can never overflow the caller's stack.
    let res = std::thread::scope(|s| {
        let h = std::thread::Builder::new()
            .stack_size(256 << 20)
            .spawn_scoped(s, || catch_unwind(AssertUnwindSafe(|| compile_inner(text))));
        match h {
            Ok(h) => match h.join() {
                Ok(Ok(r)) => r,
                Ok(Err(p)) => Err(vec![internal_err(&panic_text(p))]),
                Err(p) => Err(vec![internal_err(&panic_text(p))]),
            },
            Err(_) => match catch_unwind(AssertUnwindSafe(|| compile_inner(text))) {
                Ok(r) => r,
                Err(p) => Err(vec![internal_err(&panic_text(p))]),
            },
        }
    });
    match res {
        Ok(p) => Ok(p),
        Err(mut errs) => {
            if let Some(u) = errs.iter().find(|e| e.kind == ErrKind::Unsupported) {
                return Err(vec![u.clone()]);
            }
            errs.sort_by_key(|e| (e.line, e.col));
            Err(errs)
        }
    }
}

#[derive(Debug, Clone)]
pub struct RunOpts {
    pub max_steps: u64,
    pub sched: Vec<u8>,
    pub max_output: usize,
}

#[derive(Debug, Clone, PartialEq, Eq)]
pub enum PanicKind {
    DivideByZero,
    IndexOutOfRange,
    NilDeref,
    TypeAssertion,
    Explicit,
    Uncomparable,
    Other,
}

#[derive(Debug, Clone, PartialEq, Eq)]
pub enum End {
    Exit0,
    Panic(PanicKind, String),
    StepLimit,
    OutputLimit,
    Unsupported(String),
}

#[derive(Debug, Clone)]
pub struct RunResult {
    pub stdout: Vec<u8>,
    pub stderr: Vec<u8>,
    pub end: End,
    pub steps: u64,
    /// for every choice point that consumed a schedule byte: number of live activations there
    pub choice_points: Vec<u8>,
    pub spawned: u32,
}

pub fn run(p: &Program, opts: &RunOpts) -> RunResult {
    match catch_unwind(AssertUnwindSafe(|| interp::run(&p.code, opts))) {
        Ok(r) => r,
        Err(e) => RunResult {
            stdout: Vec::new(),
            stderr: Vec::new(),
            end: End::Unsupported(format!("internal: {}", panic_text(e))),
            steps: 0,
            choice_points: Vec::new(),
            spawned: 0,
        },
    }
}
