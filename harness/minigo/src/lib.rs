//! minigo: an independent judge (lexer, parser, type checker, interpreter) for the closed
//! subset of Go that the goml printer can emit.  Anything outside the modelled subset
//! yields `Unsupported` (fail closed).
#![allow(dead_code)]

mod ast;
mod check;
mod check_call;
mod check_conv;
mod check_expr;
mod codegen;
mod consts;
mod fmt;
mod interp;
mod ir;
mod lex;
mod parse;
mod sched;
mod types;

use std::panic::{catch_unwind, AssertUnwindSafe};

#[derive(Debug, Clone, PartialEq, Eq)]
pub enum ErrKind {
    Lex,
    Parse,
    Type,
    Unsupported,
}

#[derive(Debug, Clone)]
pub struct GoError {
    pub kind: ErrKind,
    pub line: u32,
    pub col: u32,
    /// stable short rule id, e.g. "syntax", "undeclared", "redeclared", "unused-var", ...
    pub rule: String,
    pub msg: String,
}

impl GoError {
    pub(crate) fn new(kind: ErrKind, pos: lex::Pos, rule: &str, msg: String) -> GoError {
        GoError { kind, line: pos.line, col: pos.col, rule: rule.to_string(), msg }
    }
    pub(crate) fn unsupported(pos: lex::Pos, what: &str) -> GoError {
        GoError {
            kind: ErrKind::Unsupported,
            line: pos.line,
            col: pos.col,
            rule: format!("unsupported:{}", what),
            msg: format!("unsupported: {}", what),
        }
    }
}

impl std::fmt::Display for GoError {
    fn fmt(&self, f: &mut std::fmt::Formatter<'_>) -> std::fmt::Result {
        write!(f, "{}:{}: [{:?}/{}] {}", self.line, self.col, self.kind, self.rule, self.msg)
    }
}

/// Opaque: checked + compiled program.
pub struct Program {
    pub(crate) code: codegen::Code,
    pub(crate) idents: Vec<(String, &'static str, u32)>,
}

impl Program {
    pub fn declared_idents(&self) -> Vec<(String, &'static str, u32)> {
        self.idents.clone()
    }
}

fn compile_inner(text: &str) -> Result<Program, Vec<GoError>> {
    let toks = lex::lex(text).map_err(|e| vec![e])?;
    let file = parse::parse(&toks).map_err(|e| vec![e])?;
    let checked = check::check(&file)?;
    let idents = checked.idents.clone();
    let code = codegen::generate(checked).map_err(|e| vec![e])?;
    Ok(Program { code, idents })
}

fn internal_err(what: &str) -> GoError {
    GoError {
        kind: ErrKind::Unsupported,
        line: 0,
        col: 0,
        rule: "unsupported:internal".to_string(),
        msg: format!("internal: {}", what),
    }
}

fn panic_text(p: Box<dyn std::any::Any + Send>) -> String {
    if let Some(s) = p.downcast_ref::<&str>() {
        s.to_string()
    } else if let Some(s) = p.downcast_ref::<String>() {
        s.clone()
    } else {
        "panic".to_string()
    }
}

/// Like [`compile`] but runs on the caller's stack (the caller guarantees enough stack).
#[doc(hidden)]
pub fn compile_on_this_thread(text: &str) -> Result<Program, Vec<GoError>> {
    compile_inner(text)
}

const COMPILE_STACK: usize = 256 << 20;

type CompileResult = Result<Program, Vec<GoError>>;

fn compile_guarded(text: &str) -> CompileResult {
    match catch_unwind(AssertUnwindSafe(|| compile_inner(text))) {
        Ok(r) => r,
        Err(p) => Err(vec![internal_err(&panic_text(p))]),
    }
}

/// one-shot helper thread with a large stack (fallback path)
fn compile_on_fresh_thread(text: &str) -> CompileResult {
    std::thread::scope(|s| {
        let h = std::thread::Builder::new().stack_size(COMPILE_STACK).spawn_scoped(s, || compile_guarded(text));
        match h {
            Ok(h) => match h.join() {
                Ok(r) => r,
                Err(p) => Err(vec![internal_err(&panic_text(p))]),
            },
            // could not create a thread at all: refuse to judge rather than risk the caller's stack
            Err(_) => Err(vec![internal_err("cannot spawn compile thread")]),
        }
    })
}

type Job = (String, std::sync::mpsc::Sender<CompileResult>);

/// A per-calling-thread helper with a large stack.  Deeply nested (but capped) input can
/// therefore never overflow the caller's stack, and the helper's allocator state stays warm.
struct Worker {
    tx: Option<std::sync::mpsc::Sender<Job>>,
    handle: Option<std::thread::JoinHandle<()>>,
    /// process that created the helper: after a fork() the helper thread does not exist in
    /// the child, so the handle must not be used there
    pid: u32,
}

impl Worker {
    fn spawn() -> Option<Worker> {
        let (tx, rx) = std::sync::mpsc::channel::<Job>();
        let handle = std::thread::Builder::new()
            .name("minigo-compile".into())
            .stack_size(COMPILE_STACK)
            .spawn(move || {
                while let Ok((text, reply)) = rx.recv() {
                    let r = compile_guarded(&text);
                    let _ = reply.send(r);
                }
            })
            .ok()?;
        Some(Worker { tx: Some(tx), handle: Some(handle), pid: std::process::id() })
    }

    fn compile(&self, text: &str) -> Option<CompileResult> {
        let (rtx, rrx) = std::sync::mpsc::channel();
        self.tx.as_ref()?.send((text.to_string(), rtx)).ok()?;
        rrx.recv().ok()
    }
}

impl Drop for Worker {
    fn drop(&mut self) {
        drop(self.tx.take());
        if let Some(h) = self.handle.take() {
            if self.pid == std::process::id() {
                let _ = h.join();
            } else {
                std::mem::forget(h);
            }
        }
    }
}

thread_local! {
    static WORKER: std::cell::RefCell<Option<Worker>> = const { std::cell::RefCell::new(None) };
}

fn _assert_send_sync() {
    fn check<T: Send + Sync>() {}
    check::<Program>();
    check::<GoError>();
}

/// lex + parse + type-check.
pub fn compile(text: &str) -> Result<Program, Vec<GoError>> {
    let via_worker = WORKER
        .try_with(|w| {
            let mut w = w.try_borrow_mut().ok()?;
            if w.as_ref().map(|x| x.pid != std::process::id()).unwrap_or(false) {
                // forked child: the helper thread was not duplicated; never join it
                if let Some(stale) = w.take() {
                    std::mem::forget(stale);
                }
            }
            if w.is_none() {
                *w = Worker::spawn();
            }
            let r = w.as_ref()?.compile(text);
            if r.is_none() {
                // the helper died: forget it, a new one is created next time
                *w = None;
            }
            r
        })
        .ok()
        .flatten();
    let res = match via_worker {
        Some(r) => r,
        None => compile_on_fresh_thread(text),
    };
    match res {
        Ok(p) => Ok(p),
        Err(mut errs) => {
            if let Some(u) = errs.iter().find(|e| e.kind == ErrKind::Unsupported) {
                return Err(vec![u.clone()]);
            }
            errs.sort_by_key(|e| (e.line, e.col));
            Err(errs)
        }
    }
}

#[derive(Debug, Clone)]
pub struct RunOpts {
    pub max_steps: u64,
    pub sched: Vec<u8>,
    pub max_output: usize,
}

#[derive(Debug, Clone, PartialEq, Eq)]
pub enum PanicKind {
    DivideByZero,
    IndexOutOfRange,
    NilDeref,
    TypeAssertion,
    Explicit,
    Uncomparable,
    Other,
}

#[derive(Debug, Clone, PartialEq, Eq)]
pub enum End {
    Exit0,
    Panic(PanicKind, String),
    StepLimit,
    OutputLimit,
    Unsupported(String),
}

#[derive(Debug, Clone)]
pub struct RunResult {
    pub stdout: Vec<u8>,
    pub stderr: Vec<u8>,
    pub end: End,
    pub steps: u64,
    /// for every choice point that consumed a schedule byte: number of live activations there
    pub choice_points: Vec<u8>,
    pub spawned: u32,
}

pub fn run(p: &Program, opts: &RunOpts) -> RunResult {
    match catch_unwind(AssertUnwindSafe(|| interp::run(&p.code, opts))) {
        Ok(r) => r,
        Err(e) => RunResult {
            stdout: Vec::new(),
            stderr: Vec::new(),
            end: End::Unsupported(format!("internal: {}", panic_text(e))),
            steps: 0,
            choice_points: Vec::new(),
            spawned: 0,
        },
    }
}
