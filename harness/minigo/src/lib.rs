pub fn placeholder() {}
