//! Checker: expressions (operands, operators, selectors, indexing, literals).

use crate::ast::*;
use crate::check::*;
use crate::consts::{self, ArithErr, CV};
use crate::ir::*;
use crate::lex::Pos;
use crate::types::*;
use crate::{ErrKind, GoError};
use std::rc::Rc;

fn kind_rank(tt: &TypeTable, t: TypeId) -> u8 {
    match tt.get(t) {
        TypeData::UntypedInt => 1,
        TypeData::UntypedRune => 2,
        TypeData::UntypedFloat => 3,
        _ => 0,
    }
}

impl<'a> Checker<'a> {
    pub(crate) fn expr(&mut self, x: &Expr) -> R<Operand> {
        self.expr_ex(x, false)
    }

    pub(crate) fn expr_ex(&mut self, x: &Expr, want_place: bool) -> R<Operand> {
        let pos = x.pos;
        match &x.kind {
            ExprKind::Ident(n) => self.ident(n, pos, want_place),
            ExprKind::IntLit(s) => match consts::parse_int_lit(s) {
                Ok(i) => Ok(Operand::constant(T_UINT_C, CV::Int(i), pos)),
                Err(consts::LitErr::TooBig) => {
                    // A decimal integer literal beyond i128 (e.g. a large float printed without
                    // exponent): keep it as an untyped *integer* constant with a float payload.
                    // Only conversions to float types can succeed on it; everything that needs
                    // the exact integer value is refused as Unsupported.
                    let decimal = s.bytes().all(|b| b.is_ascii_digit()) && !s.starts_with('0');
                    match (decimal, consts::parse_float_lit(s)) {
                        (true, Some(f)) => Ok(Operand::constant(T_UINT_C, CV::Float(f), pos)),
                        _ => self.unsup(pos, "big-int-literal"),
                    }
                }
                Err(consts::LitErr::Invalid) => Ok(self.err_at(pos, "syntax", "invalid integer literal")),
            },
            ExprKind::FloatLit(s) => match consts::parse_float_lit(s) {
                Some(f) => Ok(Operand::constant(T_UFLOAT, CV::Float(f), pos)),
                None => self.unsup(pos, "float-literal-range"),
            },
            ExprKind::CharLit(c) => Ok(Operand::constant(T_URUNE, CV::Int(*c as i128), pos)),
            ExprKind::StrLit(s) => Ok(Operand::constant(T_USTRING, CV::Str(Rc::new(s.clone())), pos)),
            ExprKind::Paren(i) => self.expr_ex(i, want_place),
            ExprKind::Unary(op, i) => self.unary(*op, i, pos, want_place),
            ExprKind::Binary(op, l, r) => {
                let lo = self.value(l)?;
                let ro = self.value(r)?;
                self.binary(*op, lo, ro, pos)
            }
            ExprKind::Call { f, args } => self.call(f, args, pos),
            ExprKind::Selector(b, name, spos) => self.selector(b, name, *spos, pos, want_place),
            ExprKind::Index(b, i) => self.index(b, i, pos, want_place),
            ExprKind::TypeAssert(b, t) => {
                let bo = self.value(b)?;
                let tid = self.resolve_type(t)?;
                if bo.mode == Mode::Invalid || tid == T_INVALID {
                    return Ok(Operand::invalid(pos));
                }
                if !self.tt.is_interface(bo.ty) {
                    let d = self.describe(&bo);
                    return Ok(self.err_at(b.pos, "bad-assertion", &format!("invalid operation: {} is not an interface", d)));
                }
                let to_iface = self.tt.is_interface(tid);
                if !to_iface {
                    if let Some((m, wrong)) = self.tt.missing_method(tid, bo.ty) {
                        let msg = format!(
                            "impossible type assertion: {} does not implement {} ({} method {})",
                            self.ts(tid),
                            self.ts(bo.ty),
                            if wrong { "wrong type for" } else { "missing" },
                            m
                        );
                        return Ok(self.err_at(t.pos, "bad-assertion", &msg));
                    }
                }
                Ok(Operand::value(tid, E::TypeAssert { x: Box::new(bo.e), ty: tid, to_iface }, pos))
            }
            ExprKind::TypeSwitchGuard(_) => {
                self.errors.push(GoError::new(
                    ErrKind::Parse,
                    pos,
                    "syntax",
                    "syntax error: use of .(type) outside type switch".into(),
                ));
                Ok(Operand::invalid(pos))
            }
            ExprKind::CompositeLit { ty, elems } => self.composite(ty, elems, pos),
            ExprKind::ArrayType { .. }
            | ExprKind::SliceType(_)
            | ExprKind::StructType(_)
            | ExprKind::FuncType(_)
            | ExprKind::InterfaceType(_) => {
                let t = self.resolve_type(x)?;
                if t == T_INVALID {
                    return Ok(Operand::invalid(pos));
                }
                Ok(Operand::with_mode(Mode::Type, t, pos))
            }
        }
    }

    fn ident(&mut self, n: &str, pos: Pos, want_place: bool) -> R<Operand> {
        if n == "_" {
            return Ok(self.err_at(pos, "blank-value", "cannot use _ as value"));
        }
        Ok(match self.lookup(n, pos)? {
            Ref::Local(i) => {
                self.locals[i].used = true;
                let l = &self.locals[i];
                if l.ty == T_INVALID {
                    return Ok(Operand::invalid(pos));
                }
                let mut o = Operand::value(l.ty, E::Local(l.slot), pos);
                o.addressable = true;
                o.what = "variable";
                if want_place {
                    o.place = Some(Place { root: Root::Local(l.slot), steps: Vec::new() });
                }
                o
            }
            Ref::Func(i) => {
                let sig = self.funcs.get(i as usize).map(|f| f.sig).unwrap_or(T_INVALID);
                if sig == T_INVALID {
                    return Ok(Operand::invalid(pos));
                }
                Operand::value(sig, E::Const(K::Func(i)), pos)
            }
            Ref::Type(t) => {
                if t == T_INVALID {
                    Operand::invalid(pos)
                } else {
                    Operand::with_mode(Mode::Type, t, pos)
                }
            }
            Ref::Import(i) => Operand::with_mode(Mode::Package(i), T_INVALID, pos),
            Ref::Uni(u) => match u {
                Uni::Type(t) => Operand::with_mode(Mode::Type, t, pos),
                Uni::True => Operand::constant(T_UBOOL, CV::Bool(true), pos),
                Uni::False => Operand::constant(T_UBOOL, CV::Bool(false), pos),
                Uni::Nil => Operand::value(T_UNIL, E::Const(K::Nil), pos),
                Uni::Builtin(b) => Operand::with_mode(Mode::Builtin(b), T_INVALID, pos),
                Uni::Unsup(w) => return self.unsup(pos, w),
            },
            Ref::NotFound => self.err_at(pos, "undeclared", &format!("undefined: {}", n)),
        })
    }

    // ------------------------------------------------------------ unary

    fn unary(&mut self, op: UnOp, inner: &Expr, pos: Pos, want_place: bool) -> R<Operand> {
        match op {
            UnOp::Deref => {
                let o = self.expr(inner)?;
                match o.mode {
                    Mode::Invalid => Ok(o),
                    Mode::Type => {
                        let t = self.tt.intern(TypeData::Pointer(o.ty));
                        Ok(Operand::with_mode(Mode::Type, t, pos))
                    }
                    _ => {
                        let o = self.require_value(o, inner)?;
                        if o.mode == Mode::Invalid {
                            return Ok(o);
                        }
                        if o.ty == T_UNIL {
                            return Ok(self.err_at(pos, "op-mismatch", "invalid operation: cannot indirect nil"));
                        }
                        match self.tt.under(o.ty).clone() {
                            TypeData::Pointer(e) => {
                                let mut r = Operand::value(e, E::Deref(Box::new(o.e.clone())), pos);
                                r.addressable = true;
                                r.what = "variable";
                                if want_place {
                                    r.place = Some(Place { root: Root::Ptr(o.e), steps: Vec::new() });
                                }
                                Ok(r)
                            }
                            _ => {
                                let d = self.describe(&o);
                                Ok(self.err_at(pos, "op-mismatch", &format!("invalid operation: cannot indirect {}", d)))
                            }
                        }
                    }
                }
            }
            UnOp::Addr => {
                let is_lit = matches!(unparen(inner).kind, ExprKind::CompositeLit { .. });
                let o = self.value(inner)?;
                if o.mode == Mode::Invalid {
                    return Ok(o);
                }
                if is_lit {
                    let t = self.tt.intern(TypeData::Pointer(o.ty));
                    return Ok(Operand::value(t, E::AddrOf(Box::new(o.e)), pos));
                }
                if !o.addressable || o.mode != Mode::Value {
                    let d = self.describe(&o);
                    return Ok(self.err_at(pos, "not-addressable", &format!("invalid operation: cannot take address of {}", d)));
                }
                self.unsup(pos, "address-of-variable")
            }
            UnOp::Xor => {
                self.value(inner)?;
                self.unsup(pos, "bitwise")
            }
            UnOp::Recv => self.unsup(pos, "channel-receive"),
            UnOp::Not => {
                let o = self.value(inner)?;
                if o.mode == Mode::Invalid {
                    return Ok(o);
                }
                if !self.tt.is_boolean(o.ty) {
                    let d = self.describe(&o);
                    return Ok(self.err_at(pos, "op-mismatch", &format!("invalid operation: operator ! not defined on {}", d)));
                }
                if let (Mode::Const, Some(CV::Bool(b))) = (&o.mode, &o.cv) {
                    let mut r = Operand::constant(o.ty, CV::Bool(!b), pos);
                    r.e = E::Const(K::Bool(!b));
                    return Ok(r);
                }
                Ok(Operand::value(o.ty, E::Not(Box::new(o.e)), pos))
            }
            UnOp::Neg | UnOp::Plus => {
                let o = self.value(inner)?;
                if o.mode == Mode::Invalid {
                    return Ok(o);
                }
                if !self.tt.is_numeric(o.ty) {
                    let d = self.describe(&o);
                    let sym = if op == UnOp::Neg { "-" } else { "+" };
                    return Ok(self.err_at(
                        pos,
                        "op-mismatch",
                        &format!("invalid operation: operator {} not defined on {}", sym, d),
                    ));
                }
                if op == UnOp::Plus {
                    let mut o = o;
                    o.addressable = false;
                    o.place = None;
                    return Ok(o);
                }
                if let (Mode::Const, Some(cv)) = (&o.mode, &o.cv) {
                    let ncv = match cv {
                        CV::Int(i) => match i.checked_neg() {
                            Some(n) => CV::Int(n),
                            None => return self.unsup(pos, "big-int-constant"),
                        },
                        CV::Float(f) => CV::Float(consts::neg_fc(*f)),
                        _ => return Ok(Operand::invalid(pos)),
                    };
                    return self.typed_const_result(o.ty, ncv, pos);
                }
                let nk = self.num_kind(o.ty).unwrap_or(NumKind::F64);
                Ok(Operand::value(o.ty, E::Neg(nk, Box::new(o.e)), pos))
            }
        }
    }

    /// result of a constant operation in type `t` (typed or untyped): checks representability
    fn typed_const_result(&mut self, t: TypeId, cv: CV, pos: Pos) -> R<Operand> {
        if self.tt.is_untyped(t) {
            return Ok(Operand::constant(t, cv, pos));
        }
        match self.representable(&cv, t) {
            crate::check_conv::Repr::Ok(ncv) => {
                let mut r = Operand::constant(t, ncv.clone(), pos);
                r.e = E::Const(self.const_k(&ncv, t));
                Ok(r)
            }
            crate::check_conv::Repr::Overflow(_) => {
                let v = match &cv {
                    CV::Int(i) => i.to_string(),
                    CV::Float(f) => f.v.to_string(),
                    _ => String::new(),
                };
                Ok(self.err_at(pos, "const-overflow", &format!("constant {} overflows {}", v, self.ts(t))))
            }
            crate::check_conv::Repr::Mismatch => Ok(Operand::invalid(pos)),
            crate::check_conv::Repr::Unknown => self.unsup(pos, "constant-representability"),
        }
    }

    // ------------------------------------------------------------ binary

    fn may_convert(&self, x: &Operand, y: &Operand) -> bool {
        let tt = &self.tt;
        if !tt.is_untyped(x.ty) && !tt.is_untyped(y.ty) {
            return false; // nothing to convert (caller skips)
        }
        if tt.is_interface(x.ty) || tt.is_interface(y.ty) {
            return true;
        }
        if x.ty == T_UNIL {
            return tt.has_nil(y.ty) || y.ty == T_UNIL;
        }
        if y.ty == T_UNIL {
            return tt.has_nil(x.ty);
        }
        if tt.is_boolean(x.ty) != tt.is_boolean(y.ty) {
            return false;
        }
        if tt.is_string(x.ty) != tt.is_string(y.ty) {
            return false;
        }
        if tt.is_numeric(x.ty) != tt.is_numeric(y.ty) {
            return false;
        }
        true
    }

    /// brings both operands to a common type where one is untyped
    fn match_types(&mut self, x: Operand, y: Operand, op: BinOp, pos: Pos) -> R<Option<(Operand, Operand)>> {
        let xu = self.tt.is_untyped(x.ty);
        let yu = self.tt.is_untyped(y.ty);
        if !xu && !yu {
            return Ok(Some((x, y)));
        }
        if !self.may_convert(&x, &y) {
            let msg = format!(
                "invalid operation: mismatched types {} and {} (operator {})",
                self.ts(x.ty),
                self.ts(y.ty),
                op.text()
            );
            self.err(pos, "op-mismatch", msg);
            return Ok(None);
        }
        if xu && yu {
            // both untyped
            if x.mode == Mode::Const && y.mode == Mode::Const {
                // numeric kinds: the larger kind wins
                if self.tt.is_numeric(x.ty) && self.tt.is_numeric(y.ty) {
                    let t = if kind_rank(&self.tt, x.ty) >= kind_rank(&self.tt, y.ty) { x.ty } else { y.ty };
                    let cx = self.to_untyped_kind(x, t)?;
                    let cy = self.to_untyped_kind(y, t)?;
                    return Ok(Some((cx, cy)));
                }
                return Ok(Some((x, y)));
            }
            if x.ty == T_UNIL || y.ty == T_UNIL {
                return Ok(Some((x, y)));
            }
            // untyped non-constant (bool): materialise both as bool
            let xt = self.tt.default_type(x.ty);
            let yt = self.tt.default_type(y.ty);
            let cx = self.convert_untyped(x, xt, "op-mismatch")?;
            let cy = self.convert_untyped(y, yt, "op-mismatch")?;
            return Ok(match (cx, cy) {
                (Some(a), Some(b)) => Some((a, b)),
                _ => None,
            });
        }
        if xu {
            let target = y.ty;
            let c = self.convert_untyped(x, target, "op-mismatch")?;
            Ok(c.map(|c| (c, y)))
        } else {
            let target = x.ty;
            let c = self.convert_untyped(y, target, "op-mismatch")?;
            Ok(c.map(|c| (x, c)))
        }
    }

    fn to_untyped_kind(&mut self, mut o: Operand, t: TypeId) -> R<Operand> {
        if o.ty == t {
            return Ok(o);
        }
        if t == T_UFLOAT {
            if let Some(CV::Int(i)) = o.cv {
                o.cv = Some(CV::Float(consts::int_to_fc(i)));
            }
        }
        o.ty = t;
        Ok(o)
    }

    pub(crate) fn binary(&mut self, op: BinOp, x: Operand, y: Operand, pos: Pos) -> R<Operand> {
        if x.mode == Mode::Invalid || y.mode == Mode::Invalid {
            return Ok(Operand::invalid(pos));
        }
        if matches!(op, BinOp::Shl | BinOp::Shr | BinOp::And | BinOp::Or | BinOp::Xor | BinOp::AndNot) {
            return self.unsup(pos, "bitwise");
        }
        if matches!(op, BinOp::Eq | BinOp::Ne | BinOp::Lt | BinOp::Le | BinOp::Gt | BinOp::Ge) {
            return self.comparison(op, x, y, pos);
        }
        let Some((x, y)) = self.match_types(x, y, op, pos)? else { return Ok(Operand::invalid(pos)) };
        if x.ty == T_UNIL || y.ty == T_UNIL {
            return Ok(self.err_at(pos, "op-mismatch", &format!("invalid operation: operator {} not defined on nil", op.text())));
        }
        if x.ty != y.ty {
            let msg = format!(
                "invalid operation: mismatched types {} and {} (operator {})",
                self.ts(x.ty),
                self.ts(y.ty),
                op.text()
            );
            return Ok(self.err_at(pos, "op-mismatch", &msg));
        }
        let t = x.ty;
        let defined = match op {
            BinOp::Add => self.tt.is_numeric(t) || self.tt.is_string(t),
            BinOp::Sub | BinOp::Mul | BinOp::Div => self.tt.is_numeric(t),
            BinOp::Rem => self.tt.is_integer(t),
            BinOp::LAnd | BinOp::LOr => self.tt.is_boolean(t),
            _ => false,
        };
        if !defined {
            let d = self.describe(&x);
            return Ok(self.err_at(
                pos,
                "op-mismatch",
                &format!("invalid operation: operator {} not defined on {}", op.text(), d),
            ));
        }
        // division by zero
        if matches!(op, BinOp::Div | BinOp::Rem) && y.mode == Mode::Const && (x.mode == Mode::Const || self.tt.is_integer(t)) {
            let zero = match &y.cv {
                Some(CV::Int(i)) => *i == 0,
                Some(CV::Float(f)) => f.v == 0.0 && f.exact,
                _ => false,
            };
            if zero {
                return Ok(self.err_at(y.pos, "const-div-zero", "invalid operation: division by zero"));
            }
        }
        // constant folding
        if x.mode == Mode::Const && y.mode == Mode::Const {
            let (Some(a), Some(b)) = (x.cv.clone(), y.cv.clone()) else { return Ok(Operand::invalid(pos)) };
            match (a, b) {
                (CV::Int(a), CV::Int(b)) => {
                    // integer division for integer constants
                    match consts::int_binop(op, a, b) {
                        Ok(v) => return self.typed_const_result(t, CV::Int(v), pos),
                        Err(ArithErr::DivZero) => {
                            return Ok(self.err_at(y.pos, "const-div-zero", "invalid operation: division by zero"))
                        }
                        Err(ArithErr::Big) => return self.unsup(pos, "big-int-constant"),
                    }
                }
                (CV::Str(a), CV::Str(b)) => {
                    let mut v = (*a).clone();
                    v.extend_from_slice(&b);
                    let mut r = Operand::constant(t, CV::Str(Rc::new(v.clone())), pos);
                    if !self.tt.is_untyped(t) {
                        r.e = E::Const(K::Str(v));
                    }
                    return Ok(r);
                }
                (CV::Bool(a), CV::Bool(b)) => {
                    let v = if op == BinOp::LAnd { a && b } else { a || b };
                    let mut r = Operand::constant(t, CV::Bool(v), pos);
                    r.e = E::Const(K::Bool(v));
                    return Ok(r);
                }
                (CV::Float(_), _) | (_, CV::Float(_)) => return self.unsup(pos, "float-const-folding"),
                _ => return Ok(Operand::invalid(pos)),
            }
        }
        // non-constant
        let (x, y) = (self.materialize(x)?, self.materialize(y)?);
        let t = x.ty;
        let e = match op {
            BinOp::LAnd => E::And(Box::new(x.e), Box::new(y.e)),
            BinOp::LOr => E::Or(Box::new(x.e), Box::new(y.e)),
            _ => {
                let Some(nk) = self.num_kind(t) else { return Ok(Operand::invalid(pos)) };
                let aop = match op {
                    BinOp::Add => ArithOp::Add,
                    BinOp::Sub => ArithOp::Sub,
                    BinOp::Mul => ArithOp::Mul,
                    BinOp::Div => ArithOp::Div,
                    _ => ArithOp::Rem,
                };
                E::Arith(aop, nk, Box::new(x.e), Box::new(y.e))
            }
        };
        Ok(Operand::value(t, e, pos))
    }

    /// make sure a constant operand has a concrete `e` (typed constants)
    fn materialize(&mut self, o: Operand) -> R<Operand> {
        if o.mode == Mode::Const && self.tt.is_untyped(o.ty) {
            let t = self.tt.default_type(o.ty);
            return Ok(self.convert_untyped(o.clone(), t, "op-mismatch")?.unwrap_or_else(|| Operand::invalid(o.pos)));
        }
        if o.mode == Mode::Const {
            if let Some(cv) = &o.cv {
                let mut o2 = o.clone();
                o2.e = E::Const(self.const_k(cv, o.ty));
                return Ok(o2);
            }
        }
        Ok(o)
    }

    pub(crate) fn comparison(&mut self, op: BinOp, x: Operand, y: Operand, pos: Pos) -> R<Operand> {
        if x.mode == Mode::Invalid || y.mode == Mode::Invalid {
            return Ok(Operand::invalid(pos));
        }
        // nil handling
        let xnil = x.ty == T_UNIL;
        let ynil = y.ty == T_UNIL;
        let Some((mut x, mut y)) = self.match_types(x, y, op, pos)? else { return Ok(Operand::invalid(pos)) };
        let eq_op = matches!(op, BinOp::Eq | BinOp::Ne);
        if xnil && ynil {
            return Ok(self.err_at(pos, "op-mismatch", &format!("invalid operation: operator {} not defined on nil", op.text())));
        }
        let ok = self.assignable_types(x.ty, y.ty) || self.assignable_types(y.ty, x.ty);
        if !ok {
            let msg = format!(
                "invalid operation: mismatched types {} and {} (operator {})",
                self.ts(x.ty),
                self.ts(y.ty),
                op.text()
            );
            return Ok(self.err_at(pos, "op-mismatch", &msg));
        }
        if eq_op {
            if xnil || ynil {
                // other side has a nil-able type (guaranteed by assignability)
            } else {
                for o in [&x, &y] {
                    if !self.tt.comparable(o.ty) {
                        let d = self.describe(o);
                        let extra = match self.tt.under(o.ty) {
                            TypeData::Slice(_) => " (slice can only be compared to nil)",
                            TypeData::Func(..) => " (func can only be compared to nil)",
                            _ => "",
                        };
                        return Ok(self.err_at(
                            pos,
                            "not-comparable",
                            &format!("invalid operation: cannot compare {}{}", d, extra),
                        ));
                    }
                }
            }
        } else {
            for o in [&x, &y] {
                if !self.tt.is_ordered(o.ty) {
                    let d = self.describe(o);
                    return Ok(self.err_at(
                        pos,
                        "op-mismatch",
                        &format!("invalid operation: operator {} not defined on {}", op.text(), d),
                    ));
                }
            }
        }
        // constant comparison
        if x.mode == Mode::Const && y.mode == Mode::Const && !self.tt.is_interface(x.ty) && !self.tt.is_interface(y.ty) {
            let (Some(a), Some(b)) = (x.cv.clone(), y.cv.clone()) else { return Ok(Operand::invalid(pos)) };
            use std::cmp::Ordering;
            let ord: Option<Ordering> = match (&a, &b) {
                (CV::Int(a), CV::Int(b)) => Some(a.cmp(b)),
                (CV::Str(a), CV::Str(b)) => Some(a.cmp(b)),
                (CV::Bool(a), CV::Bool(b)) => Some(a.cmp(b)),
                (CV::Float(a), CV::Float(b)) => {
                    if a.v != b.v || (a.exact && b.exact) {
                        a.v.partial_cmp(&b.v)
                    } else {
                        return self.unsup(pos, "float-const-compare");
                    }
                }
                _ => return self.unsup(pos, "const-compare"),
            };
            let Some(ord) = ord else { return self.unsup(pos, "const-compare") };
            let v = match op {
                BinOp::Eq => ord == Ordering::Equal,
                BinOp::Ne => ord != Ordering::Equal,
                BinOp::Lt => ord == Ordering::Less,
                BinOp::Le => ord != Ordering::Greater,
                BinOp::Gt => ord == Ordering::Greater,
                _ => ord != Ordering::Less,
            };
            return Ok(Operand::constant(T_UBOOL, CV::Bool(v), pos));
        }
        // record the constant side for duplicate-case detection
        let mut case_key = None;
        if op == BinOp::Eq && y.mode == Mode::Const {
            // the constant takes the type it is compared at
            let kt = if self.tt.is_interface(x.ty) { y.ty } else { x.ty };
            if let Some(cv) = &y.cv {
                let cvk = if self.tt.is_untyped(y.ty) {
                    None
                } else {
                    match cv {
                        CV::Int(i) => Some(DupKey::Int(*i)),
                        CV::Float(f) => Some(DupKey::Float(if f.v == 0.0 { 0 } else { f.v.to_bits() })),
                        CV::Str(s) => Some(DupKey::Str((**s).clone())),
                        CV::Bool(_) => None,
                    }
                };
                case_key = cvk.map(|k| (k, kt));
            }
        }
        x = self.materialize(x)?;
        y = self.materialize(y)?;
        if x.mode == Mode::Invalid || y.mode == Mode::Invalid {
            return Ok(Operand::invalid(pos));
        }
        // mixed interface / concrete comparison: wrap the concrete side
        if !xnil && !ynil {
            let xi = self.tt.is_interface(x.ty);
            let yi = self.tt.is_interface(y.ty);
            if xi && !yi {
                y.e = E::MkIface(y.ty, Box::new(y.e));
            } else if yi && !xi {
                x.e = E::MkIface(x.ty, Box::new(x.e));
            }
        }
        let e = if eq_op {
            E::Eq { neg: op == BinOp::Ne, l: Box::new(x.e), r: Box::new(y.e) }
        } else {
            let Some(nk) = self.num_kind(x.ty) else { return Ok(Operand::invalid(pos)) };
            let c = match op {
                BinOp::Lt => CmpOp::Lt,
                BinOp::Le => CmpOp::Le,
                BinOp::Gt => CmpOp::Gt,
                _ => CmpOp::Ge,
            };
            E::Cmp(c, nk, Box::new(x.e), Box::new(y.e))
        };
        let mut r = Operand::value(T_UBOOL, e, pos);
        r.case_key = case_key;
        Ok(r)
    }

    // ------------------------------------------------------------ selectors, indexing

    fn selector(&mut self, b: &Expr, name: &str, spos: Pos, pos: Pos, want_place: bool) -> R<Operand> {
        let bo = self.expr_ex(b, want_place)?;
        match bo.mode {
            Mode::Invalid => return Ok(bo),
            Mode::Package(i) => {
                if !matches!(b.kind, ExprKind::Ident(_)) {
                    self.imports[i].used = true;
                    return Ok(self.err_at(b.pos, "package-value", "use of package without selector"));
                }
                self.imports[i].used = true;
                let exported = name.chars().next().map(|c| c.is_uppercase()).unwrap_or(false);
                if !exported {
                    let msg = format!("name {} not exported by package {}", name, self.imports[i].name);
                    return Ok(self.err_at(spos, "undeclared", &msg));
                }
                if self.imports[i].path == "fmt" {
                    let f = match name {
                        "Println" => FmtFn::Println,
                        "Print" => FmtFn::Print,
                        "Sprintf" => FmtFn::Sprintf,
                        _ => return self.unsup(pos, &format!("fmt.{}", name)),
                    };
                    return Ok(Operand::with_mode(Mode::FmtFunc(f), T_INVALID, pos));
                }
                return self.unsup(pos, &format!("package:{}.{}", self.imports[i].name, name));
            }
            Mode::Type => return self.unsup(pos, "method-expr"),
            _ => {}
        }
        let bo = self.require_value(bo, b)?;
        if bo.mode == Mode::Invalid {
            return Ok(bo);
        }
        if name == "_" {
            return Ok(self.err_at(spos, "unknown-field", "cannot refer to blank field or method"));
        }
        let t = bo.ty;
        let (base, is_ptr) = match self.tt.under(t) {
            TypeData::Pointer(e) if !matches!(self.tt.get(t), TypeData::Named(_)) => (*e, true),
            _ => (t, false),
        };
        // field?
        if let Some(fs) = self.tt.struct_fields(base) {
            if let Some(idx) = fs.iter().position(|(n, _)| n == name) {
                let ft = fs[idx].1;
                let idx = idx as u32;
                if ft == T_INVALID {
                    return Ok(Operand::invalid(pos));
                }
                let mut r;
                if is_ptr {
                    r = Operand::value(ft, E::PtrField(Box::new(bo.e.clone()), idx), pos);
                    r.addressable = true;
                    if want_place {
                        r.place = Some(Place { root: Root::Ptr(bo.e), steps: vec![Step::Field(idx)] });
                    }
                } else {
                    r = Operand::value(ft, E::Field(Box::new(bo.e), idx), pos);
                    r.addressable = bo.addressable;
                    if want_place {
                        r.place = bo.place.map(|mut p| {
                            p.steps.push(Step::Field(idx));
                            p
                        });
                    }
                }
                r.what = if r.addressable { "variable" } else { "value" };
                return Ok(r);
            }
        }
        // method?
        if self.tt.is_interface(t) {
            if let Some(sig) = self.tt.method_sig(t, name) {
                let mut r = Operand::with_mode(Mode::Method, sig, pos);
                r.e = bo.e;
                r.method = Some(MethodRef::Iface(name.to_string()));
                return Ok(r);
            }
        } else if let Some(m) = self.tt.find_method(t, name).cloned() {
            let mut r = Operand::with_mode(Mode::Method, m.sig, pos);
            r.e = if is_ptr { E::Deref(Box::new(bo.e)) } else { bo.e };
            r.method = Some(MethodRef::Static(m.func));
            return Ok(r);
        }
        let msg = format!("selector .{} undefined (type {} has no field or method {})", name, self.ts(t), name);
        Ok(self.err_at(spos, "unknown-field", &msg))
    }

    /// checks an index operand; returns its IR (as int) or None on error
    fn index_value(&mut self, i: &Expr, len: Option<u64>) -> R<Option<E>> {
        let io = self.value(i)?;
        if io.mode == Mode::Invalid {
            return Ok(None);
        }
        if io.mode == Mode::Const {
            let iv = match (&io.cv, self.tt.is_untyped(io.ty)) {
                (Some(CV::Int(v)), _) if self.tt.is_integer(io.ty) => Some(*v),
                (Some(CV::Float(f)), true) => match consts::fc_to_int(*f) {
                    Ok(v) => Some(v),
                    Err(consts::ReprErr::Unknown) => return self.unsup(i.pos, "constant-representability"),
                    Err(_) => None,
                },
                _ => None,
            };
            let Some(v) = iv else {
                let d = self.describe(&io);
                self.err(i.pos, "bad-index", format!("invalid argument: index {} must be integer", d));
                return Ok(None);
            };
            if v < 0 {
                self.err(i.pos, "const-index", format!("invalid argument: index {} (constant of type int) must not be negative", v));
                return Ok(None);
            }
            if v > i64::MAX as i128 {
                self.err(i.pos, "const-index", format!("invalid argument: index {} overflows int", v));
                return Ok(None);
            }
            if let Some(n) = len {
                if v as u128 >= n as u128 {
                    self.err(i.pos, "const-index", format!("invalid argument: index {} out of bounds [0:{}]", v, n));
                    return Ok(None);
                }
            }
            return Ok(Some(E::Const(K::Int(v as i64))));
        }
        if !self.tt.is_integer(io.ty) {
            let d = self.describe(&io);
            self.err(i.pos, "bad-index", format!("invalid argument: index {} must be integer", d));
            return Ok(None);
        }
        Ok(Some(io.e))
    }

    fn index(&mut self, b: &Expr, i: &Expr, pos: Pos, want_place: bool) -> R<Operand> {
        let bo = self.expr_ex(b, want_place)?;
        if bo.mode == Mode::Type {
            return self.unsup(pos, "generic-instantiation");
        }
        let bo = self.require_value(bo, b)?;
        if bo.mode == Mode::Invalid {
            self.value(i)?;
            return Ok(bo);
        }
        match self.tt.under(bo.ty).clone() {
            TypeData::String | TypeData::UntypedString => {
                let len = match (&bo.mode, &bo.cv) {
                    (Mode::Const, Some(CV::Str(s))) => Some(s.len() as u64),
                    _ => None,
                };
                let ie = self.index_value(i, len)?;
                let bo = self.materialize(bo)?;
                let Some(ie) = ie else { return Ok(Operand::invalid(pos)) };
                Ok(Operand::value(T_U8, E::Index(SeqKind::Str, Box::new(bo.e), Box::new(ie)), pos))
            }
            TypeData::Array(n, elem) => {
                let ie = self.index_value(i, Some(n))?;
                let Some(ie) = ie else { return Ok(Operand::invalid(pos)) };
                let mut r = Operand::value(elem, E::Index(SeqKind::Array, Box::new(bo.e), Box::new(ie.clone())), pos);
                r.addressable = bo.addressable;
                r.what = if r.addressable { "variable" } else { "value" };
                if want_place {
                    r.place = bo.place.map(|mut p| {
                        p.steps.push(Step::Index(ie));
                        p
                    });
                }
                Ok(r)
            }
            TypeData::Slice(elem) => {
                let ie = self.index_value(i, None)?;
                let Some(ie) = ie else { return Ok(Operand::invalid(pos)) };
                let mut r = Operand::value(elem, E::Index(SeqKind::Slice, Box::new(bo.e.clone()), Box::new(ie.clone())), pos);
                r.addressable = true;
                r.what = "variable";
                if want_place {
                    r.place = Some(Place { root: Root::SliceElem { slice: bo.e, idx: ie }, steps: Vec::new() });
                }
                Ok(r)
            }
            TypeData::Pointer(e) if matches!(self.tt.under(e), TypeData::Array(..)) => {
                self.value(i)?;
                self.unsup(pos, "pointer-to-array-index")
            }
            _ => {
                self.value(i)?;
                let d = self.describe(&bo);
                Ok(self.err_at(pos, "bad-index", &format!("invalid operation: cannot index {}", d)))
            }
        }
    }

    pub(crate) fn lvalue(&mut self, x: &Expr) -> R<Option<(LV, TypeId)>> {
        let inner = unparen(x);
        if let ExprKind::Ident(n) = &inner.kind {
            return Ok(match self.lookup(n, inner.pos)? {
                Ref::Local(i) => {
                    let l = &self.locals[i];
                    if l.ty == T_INVALID {
                        None
                    } else {
                        Some((LV::Local(l.slot), l.ty))
                    }
                }
                Ref::NotFound => {
                    self.err(inner.pos, "undeclared", format!("undefined: {}", n));
                    None
                }
                Ref::Uni(Uni::Unsup(w)) => return self.unsup(inner.pos, w),
                _ => {
                    self.err(
                        inner.pos,
                        "not-addressable",
                        format!("cannot assign to {} (neither addressable nor a map index expression)", n),
                    );
                    None
                }
            });
        }
        let o = self.expr_ex(inner, true)?;
        let o = self.require_value(o, inner)?;
        if o.mode == Mode::Invalid {
            return Ok(None);
        }
        match (o.mode == Mode::Value && o.addressable, o.place) {
            (true, Some(p)) => Ok(Some((LV::Path { root: p.root, steps: p.steps }, o.ty))),
            _ => {
                self.err(
                    inner.pos,
                    "not-addressable",
                    "cannot assign to expression (neither addressable nor a map index expression)".into(),
                );
                Ok(None)
            }
        }
    }

    // ------------------------------------------------------------ composite literals

    fn composite(&mut self, ty: &Option<Box<Expr>>, elems: &[Element], pos: Pos) -> R<Operand> {
        let Some(ty) = ty else { return self.unsup(pos, "elided-literal-type") };
        let t = self.resolve_type(ty)?;
        if t == T_INVALID {
            for el in elems {
                if !matches!(el.value.kind, ExprKind::CompositeLit { ty: None, .. }) {
                    self.expr(&el.value)?;
                }
            }
            return Ok(Operand::invalid(pos));
        }
        match self.tt.under(t).clone() {
            TypeData::Struct(fields) => {
                let zero = self.zero_value(t, pos)?;
                let mut inits: Vec<(u32, E)> = Vec::new();
                if elems.is_empty() {
                    return Ok(Operand::value(t, E::StructLit { zero, inits }, pos));
                }
                let keyed = elems.iter().filter(|e| e.key.is_some()).count();
                if keyed != 0 && keyed != elems.len() {
                    for el in elems {
                        self.value(&el.value)?;
                    }
                    return Ok(self.err_at(pos, "bad-literal", "mixture of field:value and value elements in struct literal"));
                }
                let mut ok = true;
                if keyed > 0 {
                    let mut seen: Vec<u32> = Vec::new();
                    for el in elems {
                        let key = el.key.as_ref().unwrap();
                        let v = self.value(&el.value)?;
                        let ExprKind::Ident(fname) = &key.kind else {
                            self.err(key.pos, "bad-literal", "invalid field name in struct literal".into());
                            ok = false;
                            continue;
                        };
                        let Some(idx) = fields.iter().position(|(n, _)| n == fname) else {
                            self.err(
                                key.pos,
                                "unknown-field",
                                format!("unknown field {} in struct literal of type {}", fname, self.ts(t)),
                            );
                            ok = false;
                            continue;
                        };
                        if seen.contains(&(idx as u32)) {
                            self.err(key.pos, "dup-field", format!("duplicate field name {} in struct literal", fname));
                            ok = false;
                            continue;
                        }
                        seen.push(idx as u32);
                        let e = self.assign_to(v, fields[idx].1, "assign-mismatch", "struct literal")?;
                        inits.push((idx as u32, e));
                    }
                } else {
                    for (i, el) in elems.iter().enumerate() {
                        let v = self.value(&el.value)?;
                        if i >= fields.len() {
                            if i == fields.len() {
                                self.err(el.value.pos, "bad-literal", "too many values in struct literal".into());
                            }
                            ok = false;
                            continue;
                        }
                        let e = self.assign_to(v, fields[i].1, "assign-mismatch", "struct literal")?;
                        inits.push((i as u32, e));
                    }
                    if elems.len() < fields.len() {
                        self.err(pos, "bad-literal", "too few values in struct literal".into());
                        ok = false;
                    }
                }
                if !ok {
                    return Ok(Operand::invalid(pos));
                }
                Ok(Operand::value(t, E::StructLit { zero, inits }, pos))
            }
            TypeData::Array(n, elem) => {
                let mut es = Vec::new();
                let mut ok = true;
                for (i, el) in elems.iter().enumerate() {
                    if el.key.is_some() {
                        return self.unsup(pos, "keyed-array-literal");
                    }
                    let v = self.value(&el.value)?;
                    if i as u64 >= n {
                        if i as u64 == n {
                            self.err(el.value.pos, "const-index", format!("index {} out of bounds (array length {})", i, n));
                        }
                        ok = false;
                        continue;
                    }
                    es.push(self.assign_to(v, elem, "assign-mismatch", "array or slice literal")?);
                }
                if !ok {
                    return Ok(Operand::invalid(pos));
                }
                let zero_elem = if n > 0 { self.zero_value(elem, pos)? } else { K::Nil };
                // make sure the whole array is within budget
                self.zero_value(t, pos)?;
                Ok(Operand::value(t, E::ArrayLit { len: n, zero_elem, elems: es }, pos))
            }
            TypeData::Slice(elem) => {
                let mut es = Vec::new();
                for el in elems {
                    if el.key.is_some() {
                        return self.unsup(pos, "keyed-array-literal");
                    }
                    let v = self.value(&el.value)?;
                    es.push(self.assign_to(v, elem, "assign-mismatch", "array or slice literal")?);
                }
                Ok(Operand::value(t, E::SliceLit { elems: es }, pos))
            }
            _ => {
                for el in elems {
                    if !matches!(el.value.kind, ExprKind::CompositeLit { ty: None, .. }) {
                        self.expr(&el.value)?;
                    }
                }
                Ok(self.err_at(pos, "bad-literal", &format!("invalid composite literal type {}", self.ts(t))))
            }
        }
    }
}
