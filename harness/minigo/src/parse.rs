//! Recursive-descent parser following the structure of Go's own parser
//! (cmd/compile/internal/syntax), including the `xnest` (exprLev) rule for composite
//! literals in statement headers.

use crate::ast::*;
use crate::lex::{Pos, Tok, Token};
use crate::{ErrKind, GoError};

const MAX_DEPTH: u32 = 2000;

type PResult<T> = Result<T, GoError>;

struct Parser<'a> {
    toks: &'a [Token],
    i: usize,
    xnest: i32,
    depth: u32,
}

#[derive(PartialEq, Clone, Copy)]
enum Header {
    If,
    Switch,
    For,
}

enum Simple {
    Stmt(Stmt),
    /// `[bind :=] x.(type)` in a switch header
    Guard { bind: Option<(String, Pos)>, x: Expr },
}

impl<'a> Parser<'a> {
    fn tok(&self) -> &Tok {
        &self.toks[self.i].tok
    }
    fn pos(&self) -> Pos {
        self.toks[self.i].pos
    }
    fn peek(&self, n: usize) -> &Tok {
        let j = (self.i + n).min(self.toks.len() - 1);
        &self.toks[j].tok
    }
    fn next(&mut self) {
        if self.i + 1 < self.toks.len() {
            self.i += 1;
        }
    }
    fn syntax<T>(&self, pos: Pos, msg: String) -> PResult<T> {
        Err(GoError::new(ErrKind::Parse, pos, "syntax", format!("syntax error: {}", msg)))
    }
    fn unexpected<T>(&self, expecting: &str) -> PResult<T> {
        let m = if expecting.is_empty() {
            format!("unexpected {}", self.tok().describe())
        } else {
            format!("unexpected {}, expecting {}", self.tok().describe(), expecting)
        };
        self.syntax(self.pos(), m)
    }
    fn unsup<T>(&self, pos: Pos, what: &str) -> PResult<T> {
        Err(GoError::unsupported(pos, what))
    }
    fn got(&mut self, t: &Tok) -> bool {
        if self.tok() == t {
            self.next();
            true
        } else {
            false
        }
    }
    fn got_semi(&mut self) -> bool {
        if matches!(self.tok(), Tok::Semi { .. }) {
            self.next();
            true
        } else {
            false
        }
    }
    fn want(&mut self, t: Tok) -> PResult<()> {
        if self.tok() == &t {
            self.next();
            Ok(())
        } else {
            self.unexpected(&t.describe())
        }
    }
    fn enter(&mut self) -> PResult<()> {
        self.depth += 1;
        if self.depth > MAX_DEPTH {
            return self.unsup(self.pos(), "nesting-depth");
        }
        Ok(())
    }
    fn leave(&mut self) {
        self.depth -= 1;
    }
    fn ident(&mut self) -> PResult<(String, Pos)> {
        let pos = self.pos();
        if let Tok::Ident(s) = self.tok() {
            let s = s.clone();
            self.next();
            Ok((s, pos))
        } else {
            self.unexpected("name")
        }
    }

    /// can the token start an expression (or type)?
    fn starts_expr(t: &Tok) -> bool {
        matches!(
            t,
            Tok::Ident(_)
                | Tok::Int(_)
                | Tok::Float(_)
                | Tok::Char(_)
                | Tok::Str(_)
                | Tok::Func
                | Tok::LParen
                | Tok::LBrack
                | Tok::Struct
                | Tok::Map
                | Tok::Chan
                | Tok::Interface
                | Tok::Add
                | Tok::Sub
                | Tok::Mul
                | Tok::And
                | Tok::Xor
                | Tok::Not
                | Tok::Arrow
        )
    }

    // ---------------------------------------------------------------- file

    fn file(&mut self) -> PResult<File> {
        let pkg_pos = self.pos();
        if self.tok() != &Tok::Package {
            return self.syntax(self.pos(), "package statement must be first".into());
        }
        self.next();
        let (name, npos) = self.ident()?;
        if name == "_" {
            return self.syntax(npos, "invalid package name _".into());
        }
        if name != "main" {
            return self.unsup(npos, "package-name");
        }
        if self.tok() != &Tok::Eof && !self.got_semi() {
            return self.unexpected("semicolon or newline");
        }
        let mut imports = Vec::new();
        while self.tok() == &Tok::Import {
            self.next();
            if self.got(&Tok::LParen) {
                while self.tok() != &Tok::RParen && self.tok() != &Tok::Eof {
                    imports.push(self.import_spec()?);
                    if !self.got_semi() && self.tok() != &Tok::RParen {
                        return self.unexpected("semicolon, newline, or )");
                    }
                }
                self.want(Tok::RParen)?;
            } else {
                imports.push(self.import_spec()?);
            }
            if self.tok() != &Tok::Eof && !self.got_semi() {
                return self.unexpected("semicolon or newline after top level declaration");
            }
        }
        let mut decls = Vec::new();
        while self.tok() != &Tok::Eof {
            let pos = self.pos();
            match self.tok() {
                Tok::Import => {
                    return self.syntax(pos, "imports must appear before other declarations".into())
                }
                Tok::Type => {
                    self.next();
                    decls.push(self.type_decl()?);
                }
                Tok::Func => {
                    self.next();
                    decls.push(self.func_decl()?);
                }
                Tok::Var => return self.unsup(pos, "package-var"),
                Tok::Const => return self.unsup(pos, "const-decl"),
                Tok::Semi { .. } => {
                    // Go: empty top-level declaration is a syntax error only for literal ';'
                    return self.syntax(pos, "non-declaration statement outside function body".into());
                }
                _ => return self.syntax(pos, "non-declaration statement outside function body".into()),
            }
            if self.tok() != &Tok::Eof && !self.got_semi() {
                return self.syntax(
                    self.pos(),
                    format!("unexpected {} after top level declaration", self.tok().describe()),
                );
            }
        }
        Ok(File { pkg_pos, imports, decls })
    }

    fn import_spec(&mut self) -> PResult<ImportSpec> {
        let pos = self.pos();
        let mut alias = None;
        match self.tok().clone() {
            Tok::Ident(s) => {
                if s == "_" {
                    return self.unsup(pos, "blank-import");
                }
                alias = Some(s);
                self.next();
            }
            Tok::Period => return self.unsup(pos, "dot-import"),
            _ => {}
        }
        match self.tok().clone() {
            Tok::Str(p) => {
                self.next();
                Ok(ImportSpec { pos, alias, path: p })
            }
            _ => self.syntax(self.pos(), "missing import path; require quoted string".into()),
        }
    }

    fn type_decl(&mut self) -> PResult<Decl> {
        if self.tok() == &Tok::LParen {
            return self.unsup(self.pos(), "type-group");
        }
        let (name, pos) = self.ident()?;
        if self.tok() == &Tok::LBrack {
            return self.unsup(self.pos(), "type-decl-bracket");
        }
        let alias = self.got(&Tok::Assign);
        let ty = self.parse_type()?;
        Ok(Decl::Type { name, pos, alias, ty })
    }

    fn func_decl(&mut self) -> PResult<Decl> {
        let mut recv = None;
        if self.tok() == &Tok::LParen {
            let rpos = self.pos();
            let mut ps = self.param_list()?;
            if ps.is_empty() {
                return self.syntax(rpos, "method has no receiver".into());
            }
            if ps.len() > 1 {
                return self.syntax(rpos, "method has multiple receivers".into());
            }
            recv = ps.pop();
        }
        let (name, pos) = self.ident()?;
        if self.tok() == &Tok::LBrack {
            return self.unsup(self.pos(), "generic-func");
        }
        let sig = self.signature(pos)?;
        let mut body = None;
        if self.tok() == &Tok::LBrace {
            let outer = self.xnest;
            self.xnest = 0;
            body = Some(self.block()?);
            self.xnest = outer;
        }
        Ok(Decl::Func { recv, name, pos, sig, body })
    }

    fn signature(&mut self, pos: Pos) -> PResult<Signature> {
        if self.tok() != &Tok::LParen {
            return self.unexpected("(");
        }
        let params = self.param_list()?;
        let mut result = None;
        match self.tok() {
            Tok::LParen => {
                let rpos = self.pos();
                let rs = self.param_list()?;
                if rs.len() > 1 {
                    return self.unsup(rpos, "multi-result");
                }
                if let Some(r) = rs.into_iter().next() {
                    if r.name.is_some() {
                        return self.unsup(rpos, "named-result");
                    }
                    result = Some(Box::new(r.ty));
                }
            }
            Tok::Ident(_) | Tok::Mul | Tok::LBrack | Tok::Struct | Tok::Func | Tok::Interface | Tok::Map
            | Tok::Chan | Tok::Arrow => {
                result = Some(Box::new(self.parse_type()?));
            }
            _ => {}
        }
        Ok(Signature { pos, params, result })
    }

    /// parses "(" params ")" following Go's grouping rules
    fn param_list(&mut self) -> PResult<Vec<Param>> {
        self.want(Tok::LParen)?;
        self.enter()?;
        let outer = self.xnest;
        self.xnest += 1;
        let mut entries: Vec<(Option<(String, Pos)>, Option<Expr>)> = Vec::new();
        while self.tok() != &Tok::RParen && self.tok() != &Tok::Eof {
            let pos = self.pos();
            match self.tok().clone() {
                Tok::Ident(n) => {
                    match self.peek(1) {
                        Tok::Period => {
                            let t = self.parse_type()?;
                            entries.push((None, Some(t)));
                        }
                        Tok::Comma | Tok::RParen => {
                            self.next();
                            entries.push((Some((n, pos)), None));
                        }
                        Tok::Ellipsis => return self.unsup(pos, "variadic"),
                        Tok::LBrack => {
                            // either `name []T` / `name [N]T` or generic instantiation `T[...]`
                            self.next();
                            let t = self.parse_type()?;
                            entries.push((Some((n, pos)), Some(t)));
                        }
                        _ => {
                            self.next();
                            let t = self.parse_type()?;
                            entries.push((Some((n, pos)), Some(t)));
                        }
                    }
                }
                Tok::Ellipsis => return self.unsup(pos, "variadic"),
                _ => {
                    let t = self.parse_type()?;
                    entries.push((None, Some(t)));
                }
            }
            if !self.got(&Tok::Comma) {
                break;
            }
        }
        if self.tok() != &Tok::RParen {
            return self.unexpected("comma or )");
        }
        self.next();
        self.xnest = outer;
        self.leave();
        let any_named = entries.iter().any(|(n, t)| n.is_some() && t.is_some());
        let mut out = Vec::with_capacity(entries.len());
        if any_named {
            let mut cur: Option<Expr> = None;
            let mut rev = Vec::with_capacity(entries.len());
            for (n, t) in entries.into_iter().rev() {
                match (n, t) {
                    (Some(n), Some(t)) => {
                        cur = Some(t.clone());
                        rev.push(Param { name: Some(n), ty: t });
                    }
                    (Some(n), None) => match &cur {
                        Some(t) => rev.push(Param { name: Some(n), ty: t.clone() }),
                        None => {
                            return self.syntax(n.1, "mixed named and unnamed parameters".into());
                        }
                    },
                    (None, Some(t)) => {
                        return self.syntax(t.pos, "mixed named and unnamed parameters".into());
                    }
                    (None, None) => {}
                }
            }
            rev.reverse();
            out = rev;
        } else {
            for (n, t) in entries {
                match (n, t) {
                    (Some((n, p)), None) => out.push(Param { name: None, ty: Expr { pos: p, kind: ExprKind::Ident(n) } }),
                    (None, Some(t)) => out.push(Param { name: None, ty: t }),
                    _ => {}
                }
            }
        }
        Ok(out)
    }

    // ---------------------------------------------------------------- types

    fn parse_type(&mut self) -> PResult<Expr> {
        self.enter()?;
        let r = self.parse_type_inner();
        self.leave();
        r
    }

    fn parse_type_inner(&mut self) -> PResult<Expr> {
        let pos = self.pos();
        match self.tok() {
            Tok::Ident(n) => {
                let n = n.clone();
                self.next();
                let mut x = Expr { pos, kind: ExprKind::Ident(n) };
                if self.tok() == &Tok::Period {
                    self.next();
                    let (sel, spos) = self.ident()?;
                    x = Expr { pos, kind: ExprKind::Selector(Box::new(x), sel, spos) };
                }
                if self.tok() == &Tok::LBrack {
                    return self.unsup(self.pos(), "generic-instantiation");
                }
                Ok(x)
            }
            Tok::Mul => {
                self.next();
                let t = self.parse_type()?;
                Ok(Expr { pos, kind: ExprKind::Unary(UnOp::Deref, Box::new(t)) })
            }
            Tok::LParen => {
                self.next();
                let t = self.parse_type()?;
                self.want(Tok::RParen)?;
                Ok(Expr { pos, kind: ExprKind::Paren(Box::new(t)) })
            }
            Tok::LBrack => {
                self.next();
                if self.got(&Tok::RBrack) {
                    let elem = self.parse_type()?;
                    return Ok(Expr { pos, kind: ExprKind::SliceType(Box::new(elem)) });
                }
                if self.tok() == &Tok::Ellipsis {
                    return self.unsup(pos, "array-ellipsis");
                }
                let outer = self.xnest;
                self.xnest += 1;
                let len = self.expr()?;
                self.xnest = outer;
                self.want(Tok::RBrack)?;
                let elem = self.parse_type()?;
                Ok(Expr { pos, kind: ExprKind::ArrayType { len: Box::new(len), elem: Box::new(elem) } })
            }
            Tok::Struct => {
                self.next();
                self.want(Tok::LBrace)?;
                let mut fields = Vec::new();
                while self.tok() != &Tok::RBrace && self.tok() != &Tok::Eof {
                    let fpos = self.pos();
                    match self.tok().clone() {
                        Tok::Ident(n) => {
                            if matches!(self.peek(1), Tok::Semi { .. } | Tok::RBrace | Tok::Period | Tok::Str(_)) {
                                return self.unsup(fpos, "embedded-field");
                            }
                            self.next();
                            let mut names = vec![(n, fpos)];
                            while self.got(&Tok::Comma) {
                                names.push(self.ident()?);
                            }
                            let ty = self.parse_type()?;
                            if matches!(self.tok(), Tok::Str(_)) {
                                return self.unsup(self.pos(), "struct-tag");
                            }
                            for (name, p) in names {
                                fields.push(FieldDecl { name, pos: p, ty: ty.clone() });
                            }
                        }
                        Tok::Mul | Tok::LParen => return self.unsup(fpos, "embedded-field"),
                        _ => return self.unexpected("field name or embedded type"),
                    }
                    if !self.got_semi() && self.tok() != &Tok::RBrace {
                        return self.unexpected("semicolon, newline, or }");
                    }
                }
                self.want(Tok::RBrace)?;
                Ok(Expr { pos, kind: ExprKind::StructType(fields) })
            }
            Tok::Func => {
                self.next();
                let sig = self.signature(pos)?;
                Ok(Expr { pos, kind: ExprKind::FuncType(sig) })
            }
            Tok::Interface => {
                self.next();
                self.want(Tok::LBrace)?;
                let mut methods = Vec::new();
                while self.tok() != &Tok::RBrace && self.tok() != &Tok::Eof {
                    let mpos = self.pos();
                    match self.tok().clone() {
                        Tok::Ident(n) if self.peek(1) == &Tok::LParen => {
                            self.next();
                            let sig = self.signature(mpos)?;
                            methods.push(MethodSpec { name: n, pos: mpos, sig });
                        }
                        Tok::Ident(_) | Tok::Tilde | Tok::Mul | Tok::LBrack | Tok::Struct | Tok::Func
                        | Tok::Interface | Tok::Map | Tok::Chan | Tok::LParen | Tok::Arrow => {
                            return self.unsup(mpos, "interface-embedding")
                        }
                        _ => return self.unexpected("method or embedded element"),
                    }
                    if !self.got_semi() && self.tok() != &Tok::RBrace {
                        return self.unexpected("semicolon, newline, or }");
                    }
                }
                self.want(Tok::RBrace)?;
                Ok(Expr { pos, kind: ExprKind::InterfaceType(methods) })
            }
            Tok::Map => {
                if self.peek(1) != &Tok::LBrack {
                    self.next();
                    return self.unexpected("[");
                }
                self.unsup(pos, "map-type")
            }
            Tok::Chan => {
                if !matches!(
                    self.peek(1),
                    Tok::Ident(_) | Tok::Mul | Tok::LBrack | Tok::Struct | Tok::Func | Tok::Interface | Tok::Map | Tok::Chan
                        | Tok::Arrow | Tok::LParen
                ) {
                    self.next();
                    return self.unexpected("type");
                }
                self.unsup(pos, "chan-type")
            }
            Tok::Arrow => {
                if self.peek(1) != &Tok::Chan {
                    self.next();
                    return self.unexpected("chan");
                }
                self.unsup(pos, "chan-type")
            }
            _ => self.unexpected("type"),
        }
    }

    // ---------------------------------------------------------------- expressions

    fn expr(&mut self) -> PResult<Expr> {
        self.binary(1)
    }

    fn binop(&self) -> Option<(BinOp, u8)> {
        Some(match self.tok() {
            Tok::LOr => (BinOp::LOr, 1),
            Tok::LAnd => (BinOp::LAnd, 2),
            Tok::Eql => (BinOp::Eq, 3),
            Tok::Neq => (BinOp::Ne, 3),
            Tok::Lss => (BinOp::Lt, 3),
            Tok::Leq => (BinOp::Le, 3),
            Tok::Gtr => (BinOp::Gt, 3),
            Tok::Geq => (BinOp::Ge, 3),
            Tok::Add => (BinOp::Add, 4),
            Tok::Sub => (BinOp::Sub, 4),
            Tok::Or => (BinOp::Or, 4),
            Tok::Xor => (BinOp::Xor, 4),
            Tok::Mul => (BinOp::Mul, 5),
            Tok::Quo => (BinOp::Div, 5),
            Tok::Rem => (BinOp::Rem, 5),
            Tok::Shl => (BinOp::Shl, 5),
            Tok::Shr => (BinOp::Shr, 5),
            Tok::And => (BinOp::And, 5),
            Tok::AndNot => (BinOp::AndNot, 5),
            _ => return None,
        })
    }

    fn binary(&mut self, prec1: u8) -> PResult<Expr> {
        self.enter()?;
        let saved = self.depth;
        let r = self.binary_inner(prec1);
        self.depth = saved;
        self.leave();
        r
    }

    fn binary_inner(&mut self, prec1: u8) -> PResult<Expr> {
        let mut x = self.unary()?;
        while let Some((op, prec)) = self.binop() {
            if prec < prec1 {
                break;
            }
            let pos = self.pos();
            self.next();
            // each iteration deepens the (left-leaning) tree by one
            self.enter()?;
            let y = self.binary(prec + 1)?;
            x = Expr { pos, kind: ExprKind::Binary(op, Box::new(x), Box::new(y)) };
        }
        Ok(x)
    }

    fn unary(&mut self) -> PResult<Expr> {
        let pos = self.pos();
        let op = match self.tok() {
            Tok::Add => UnOp::Plus,
            Tok::Sub => UnOp::Neg,
            Tok::Not => UnOp::Not,
            Tok::Xor => UnOp::Xor,
            Tok::And => UnOp::Addr,
            Tok::Mul => UnOp::Deref,
            Tok::Arrow => return self.unsup(pos, "channel-receive"),
            Tok::Tilde => return self.unexpected("expression"),
            _ => return self.primary(),
        };
        self.next();
        self.enter()?;
        let x = self.unary();
        self.leave();
        let x = x?;
        Ok(Expr { pos, kind: ExprKind::Unary(op, Box::new(x)) })
    }

    fn operand(&mut self) -> PResult<Expr> {
        let pos = self.pos();
        match self.tok() {
            Tok::Int(s) => {
                let s = s.clone();
                self.next();
                Ok(Expr { pos, kind: ExprKind::IntLit(s) })
            }
            Tok::Float(s) => {
                let s = s.clone();
                self.next();
                Ok(Expr { pos, kind: ExprKind::FloatLit(s) })
            }
            Tok::Char(c) => {
                let c = *c;
                self.next();
                Ok(Expr { pos, kind: ExprKind::CharLit(c) })
            }
            Tok::Str(s) => {
                let s = s.clone();
                self.next();
                Ok(Expr { pos, kind: ExprKind::StrLit(s) })
            }
            Tok::Ident(n) => {
                let n = n.clone();
                self.next();
                Ok(Expr { pos, kind: ExprKind::Ident(n) })
            }
            Tok::LParen => {
                self.next();
                let outer = self.xnest;
                self.xnest += 1;
                self.enter()?;
                let x = self.expr();
                self.leave();
                let x = x?;
                self.xnest = outer;
                self.want(Tok::RParen)?;
                Ok(Expr { pos, kind: ExprKind::Paren(Box::new(x)) })
            }
            Tok::Func => {
                self.next();
                let sig = self.signature(pos)?;
                if self.tok() == &Tok::LBrace {
                    return self.unsup(pos, "func-literal");
                }
                Ok(Expr { pos, kind: ExprKind::FuncType(sig) })
            }
            Tok::LBrack | Tok::Struct | Tok::Interface | Tok::Map | Tok::Chan => self.parse_type(),
            _ => self.unexpected("expression"),
        }
    }

    fn primary(&mut self) -> PResult<Expr> {
        let saved = self.depth;
        let r = self.primary_inner();
        self.depth = saved;
        r
    }

    fn primary_inner(&mut self) -> PResult<Expr> {
        let mut x = self.operand()?;
        loop {
            let pos = self.pos();
            match self.tok() {
                Tok::Period => {
                    self.next();
                    match self.tok().clone() {
                        Tok::Ident(n) => {
                            let spos = self.pos();
                            self.next();
                            x = Expr { pos: x.pos, kind: ExprKind::Selector(Box::new(x), n, spos) };
                        }
                        Tok::LParen => {
                            self.next();
                            if self.got(&Tok::Type) {
                                self.want(Tok::RParen)?;
                                x = Expr { pos: x.pos, kind: ExprKind::TypeSwitchGuard(Box::new(x)) };
                            } else {
                                let t = self.parse_type()?;
                                self.want(Tok::RParen)?;
                                x = Expr { pos: x.pos, kind: ExprKind::TypeAssert(Box::new(x), Box::new(t)) };
                            }
                        }
                        _ => return self.unexpected("name or ("),
                    }
                }
                Tok::LBrack => {
                    self.next();
                    let outer = self.xnest;
                    self.xnest += 1;
                    if self.tok() == &Tok::Colon {
                        return self.unsup(pos, "slice-expr");
                    }
                    let idx = self.expr()?;
                    if self.tok() == &Tok::Colon {
                        return self.unsup(pos, "slice-expr");
                    }
                    if self.tok() == &Tok::Comma {
                        return self.unsup(pos, "generic-instantiation");
                    }
                    self.xnest = outer;
                    self.want(Tok::RBrack)?;
                    x = Expr { pos: x.pos, kind: ExprKind::Index(Box::new(x), Box::new(idx)) };
                }
                Tok::LParen => {
                    self.next();
                    let outer = self.xnest;
                    self.xnest += 1;
                    let mut args = Vec::new();
                    while self.tok() != &Tok::RParen && self.tok() != &Tok::Eof {
                        args.push(self.expr()?);
                        if self.tok() == &Tok::Ellipsis {
                            return self.unsup(self.pos(), "spread-call");
                        }
                        if !self.got(&Tok::Comma) {
                            break;
                        }
                    }
                    self.xnest = outer;
                    if self.tok() != &Tok::RParen {
                        return self.unexpected("comma or )");
                    }
                    self.next();
                    x = Expr { pos: x.pos, kind: ExprKind::Call { f: Box::new(x), args } };
                }
                Tok::LBrace => {
                    // determine whether '{' belongs to a composite literal or a block
                    let mut t = &x;
                    let mut parenthesized = false;
                    while let ExprKind::Paren(inner) = &t.kind {
                        t = inner;
                        parenthesized = true;
                    }
                    let ok = match &t.kind {
                        ExprKind::Ident(_) | ExprKind::Selector(..) => self.xnest >= 0,
                        ExprKind::Index(..) => {
                            if self.xnest >= 0 {
                                return self.unsup(pos, "generic-composite-literal");
                            }
                            false
                        }
                        ExprKind::ArrayType { .. } | ExprKind::SliceType(_) | ExprKind::StructType(_) => true,
                        _ => false,
                    };
                    if !ok {
                        break;
                    }
                    if parenthesized {
                        return self.syntax(x.pos, "cannot parenthesize type in composite literal".into());
                    }
                    let elems = self.complit_body()?;
                    x = Expr { pos: x.pos, kind: ExprKind::CompositeLit { ty: Some(Box::new(x)), elems } };
                }
                _ => break,
            }
            // every postfix operation deepens the tree
            self.enter()?;
        }
        Ok(x)
    }

    fn complit_body(&mut self) -> PResult<Vec<Element>> {
        self.want(Tok::LBrace)?;
        self.enter()?;
        let outer = self.xnest;
        self.xnest += 1;
        let mut elems = Vec::new();
        while self.tok() != &Tok::RBrace && self.tok() != &Tok::Eof {
            let v = self.complit_elem()?;
            if self.got(&Tok::Colon) {
                let value = self.complit_elem()?;
                elems.push(Element { key: Some(v), value });
            } else {
                elems.push(Element { key: None, value: v });
            }
            if !self.got(&Tok::Comma) {
                break;
            }
        }
        self.xnest = outer;
        self.leave();
        if self.tok() != &Tok::RBrace {
            if matches!(self.tok(), Tok::Semi { auto: true }) {
                return self.syntax(
                    self.pos(),
                    "unexpected newline in composite literal; possibly missing comma or }".into(),
                );
            }
            return self.unexpected("comma or }");
        }
        self.next();
        Ok(elems)
    }

    fn complit_elem(&mut self) -> PResult<Expr> {
        if self.tok() == &Tok::LBrace {
            let pos = self.pos();
            let elems = self.complit_body()?;
            return Ok(Expr { pos, kind: ExprKind::CompositeLit { ty: None, elems } });
        }
        self.expr()
    }

    // ---------------------------------------------------------------- statements

    fn block(&mut self) -> PResult<Block> {
        let lbrace = self.pos();
        self.want(Tok::LBrace)?;
        self.enter()?;
        let stmts = self.stmt_list()?;
        self.leave();
        let rbrace = self.pos();
        if self.tok() != &Tok::RBrace {
            return self.unexpected("}");
        }
        self.next();
        Ok(Block { lbrace, rbrace, stmts })
    }

    fn stmt_list(&mut self) -> PResult<Vec<Stmt>> {
        let mut out = Vec::new();
        while !matches!(self.tok(), Tok::Eof | Tok::RBrace | Tok::Case | Tok::Default) {
            let s = self.stmt()?;
            if !matches!(s.kind, StmtKind::Empty) {
                out.push(s);
            }
            if !self.got_semi() && self.tok() != &Tok::RBrace {
                return self.syntax(
                    self.pos(),
                    format!("unexpected {} at end of statement", self.tok().describe()),
                );
            }
        }
        Ok(out)
    }

    fn stmt(&mut self) -> PResult<Stmt> {
        self.enter()?;
        let r = self.stmt_inner();
        self.leave();
        r
    }

    fn stmt_inner(&mut self) -> PResult<Stmt> {
        let pos = self.pos();
        match self.tok() {
            Tok::Semi { .. } => Ok(Stmt { pos, kind: StmtKind::Empty }),
            Tok::Var => {
                self.next();
                if self.tok() == &Tok::LParen {
                    return self.unsup(pos, "var-group");
                }
                let (name, name_pos) = self.ident()?;
                if self.tok() == &Tok::Comma {
                    return self.unsup(pos, "multi-var");
                }
                let mut ty = None;
                if self.tok() != &Tok::Assign {
                    ty = Some(self.parse_type()?);
                }
                let mut value = None;
                if self.got(&Tok::Assign) {
                    value = Some(self.expr()?);
                    if self.tok() == &Tok::Comma {
                        return self.unsup(pos, "multi-var");
                    }
                }
                Ok(Stmt { pos, kind: StmtKind::VarDecl { name, name_pos, ty, value } })
            }
            Tok::Const | Tok::Type => {
                let is_const = self.tok() == &Tok::Const;
                if !matches!(self.peek(1), Tok::Ident(_) | Tok::LParen) {
                    self.next();
                    return self.unexpected("name or (");
                }
                self.unsup(pos, if is_const { "const-decl" } else { "local-type-decl" })
            }
            Tok::Return => {
                self.next();
                let mut xs = Vec::new();
                if !matches!(self.tok(), Tok::Semi { .. } | Tok::RBrace) {
                    xs.push(self.expr()?);
                    while self.got(&Tok::Comma) {
                        xs.push(self.expr()?);
                    }
                }
                Ok(Stmt { pos, kind: StmtKind::Return(xs) })
            }
            Tok::If => self.if_stmt(),
            Tok::For => self.for_stmt(),
            Tok::Switch => self.switch_stmt(),
            Tok::Go => {
                self.next();
                if !Self::starts_expr(self.tok()) {
                    return self.unexpected("expression");
                }
                let x = self.expr()?;
                match &x.kind {
                    ExprKind::Call { .. } => {}
                    ExprKind::Paren(_) => return self.unsup(pos, "go-parenthesized"),
                    _ => return self.syntax(x.pos, "expression in go must be function call".into()),
                }
                Ok(Stmt { pos, kind: StmtKind::Go(x) })
            }
            Tok::Break | Tok::Continue => {
                let is_break = self.tok() == &Tok::Break;
                self.next();
                if matches!(self.tok(), Tok::Ident(_)) {
                    return self.unsup(pos, "label");
                }
                Ok(Stmt { pos, kind: if is_break { StmtKind::Break } else { StmtKind::Continue } })
            }
            Tok::LBrace => {
                let b = self.block()?;
                Ok(Stmt { pos, kind: StmtKind::Block(b) })
            }
            Tok::Defer => {
                if !Self::starts_expr(self.peek(1)) {
                    self.next();
                    return self.unexpected("expression");
                }
                self.unsup(pos, "defer")
            }
            Tok::Goto => {
                if !matches!(self.peek(1), Tok::Ident(_)) {
                    self.next();
                    return self.unexpected("name");
                }
                self.unsup(pos, "goto")
            }
            Tok::Select => {
                if self.peek(1) != &Tok::LBrace {
                    self.next();
                    return self.unexpected("{ after select clause");
                }
                self.unsup(pos, "select")
            }
            Tok::Fallthrough => {
                if !matches!(self.peek(1), Tok::Semi { .. } | Tok::RBrace) {
                    self.next();
                    return self.syntax(self.pos(), format!("unexpected {} at end of statement", self.tok().describe()));
                }
                self.unsup(pos, "fallthrough")
            }
            Tok::Ident(_) if self.peek(1) == &Tok::Colon => self.unsup(pos, "label"),
            Tok::Ident(_)
            | Tok::Int(_)
            | Tok::Float(_)
            | Tok::Char(_)
            | Tok::Str(_)
            | Tok::Func
            | Tok::LParen
            | Tok::LBrack
            | Tok::Struct
            | Tok::Map
            | Tok::Chan
            | Tok::Interface
            | Tok::Add
            | Tok::Sub
            | Tok::Mul
            | Tok::And
            | Tok::Xor
            | Tok::Not
            | Tok::Arrow
            | Tok::Tilde => match self.simple_stmt(None)? {
                Simple::Stmt(s) => Ok(s),
                Simple::Guard { x, .. } => self.syntax(x.pos, "use of .(type) outside type switch".into()),
            },
            _ => self.unexpected("}"),
        }
    }

    fn simple_stmt(&mut self, header: Option<Header>) -> PResult<Simple> {
        let pos = self.pos();
        if self.tok() == &Tok::Range {
            if header != Some(Header::For) {
                return self.unexpected("expression");
            }
            return self.unsup(pos, "range");
        }
        let mut lhs = vec![self.expr()?];
        while self.got(&Tok::Comma) {
            lhs.push(self.expr()?);
        }
        let tpos = self.pos();
        match self.tok() {
            Tok::Define => {
                self.next();
                if self.tok() == &Tok::Range {
                    if header != Some(Header::For) {
                        return self.unexpected("expression");
                    }
                    return self.unsup(tpos, "range");
                }
                let mut rhs = vec![self.expr()?];
                while self.got(&Tok::Comma) {
                    rhs.push(self.expr()?);
                }
                // type switch guard?
                if rhs.len() == 1 {
                    if let ExprKind::TypeSwitchGuard(_) = &rhs[0].kind {
                        if lhs.len() != 1 {
                            return self.syntax(pos, "expected 1 expression".into());
                        }
                        let l = lhs.pop().unwrap();
                        let ExprKind::Ident(n) = l.kind else {
                            return self.syntax(l.pos, "invalid variable name in type switch".into());
                        };
                        let ExprKind::TypeSwitchGuard(x) = rhs.pop().unwrap().kind else { unreachable!() };
                        if header != Some(Header::Switch) {
                            return self.syntax(x.pos, "use of .(type) outside type switch".into());
                        }
                        return Ok(Simple::Guard { bind: Some((n, l.pos)), x: *x });
                    }
                }
                for l in &lhs {
                    if !matches!(l.kind, ExprKind::Ident(_)) {
                        return self.syntax(l.pos, "non-name on left side of :=".into());
                    }
                }
                if lhs.len() != 1 || rhs.len() != 1 {
                    return self.unsup(pos, "multi-define");
                }
                let l = lhs.pop().unwrap();
                let ExprKind::Ident(name) = l.kind else { unreachable!() };
                Ok(Simple::Stmt(Stmt {
                    pos,
                    kind: StmtKind::ShortVar { name, name_pos: l.pos, value: rhs.pop().unwrap() },
                }))
            }
            Tok::Assign => {
                self.next();
                if self.tok() == &Tok::Range {
                    if header != Some(Header::For) {
                        return self.unexpected("expression");
                    }
                    return self.unsup(tpos, "range");
                }
                let mut rhs = vec![self.expr()?];
                while self.got(&Tok::Comma) {
                    rhs.push(self.expr()?);
                }
                if lhs.len() != 1 || rhs.len() != 1 {
                    return self.unsup(pos, "tuple-assign");
                }
                Ok(Simple::Stmt(Stmt {
                    pos,
                    kind: StmtKind::Assign { lhs: lhs.pop().unwrap(), rhs: rhs.pop().unwrap() },
                }))
            }
            Tok::AssignOp(_) => {
                self.next();
                let _ = self.expr()?;
                if lhs.len() != 1 {
                    return self.unexpected(":= or = or comma");
                }
                Ok(Simple::Stmt(Stmt { pos, kind: StmtKind::Unsupported("op-assign") }))
            }
            Tok::Inc | Tok::Dec => {
                self.next();
                if lhs.len() != 1 {
                    return self.unexpected(":= or = or comma");
                }
                Ok(Simple::Stmt(Stmt { pos, kind: StmtKind::Unsupported("incdec") }))
            }
            Tok::Arrow => self.unsup(tpos, "channel-send"),
            _ => {
                if lhs.len() != 1 {
                    return self.unexpected(":= or = or comma");
                }
                let x = lhs.pop().unwrap();
                if let ExprKind::TypeSwitchGuard(inner) = x.kind {
                    if header != Some(Header::Switch) {
                        return self.syntax(inner.pos, "use of .(type) outside type switch".into());
                    }
                    return Ok(Simple::Guard { bind: None, x: *inner });
                }
                Ok(Simple::Stmt(Stmt { pos, kind: StmtKind::Expr(x) }))
            }
        }
    }

    fn simple_as_stmt(&mut self, header: Header) -> PResult<Stmt> {
        match self.simple_stmt(Some(header))? {
            Simple::Stmt(s) => Ok(s),
            Simple::Guard { x, .. } => self.syntax(x.pos, "use of .(type) outside type switch".into()),
        }
    }

    fn stmt_as_cond(&self, s: Stmt) -> PResult<Expr> {
        match s.kind {
            StmtKind::Expr(x) => Ok(x),
            StmtKind::Unsupported(w) => self.unsup(s.pos, w),
            _ => self.syntax(s.pos, "cannot use statement as value".into()),
        }
    }

    fn if_stmt(&mut self) -> PResult<Stmt> {
        let pos = self.pos();
        self.want(Tok::If)?;
        if self.tok() == &Tok::LBrace {
            return self.syntax(self.pos(), "missing condition in if statement".into());
        }
        let outer = self.xnest;
        self.xnest = -1;
        let mut init = None;
        let cond;
        if matches!(self.tok(), Tok::Semi { .. }) {
            // empty init
            if matches!(self.tok(), Tok::Semi { auto: true }) {
                return self.unexpected("{ after if clause");
            }
            self.next();
            if self.tok() == &Tok::LBrace {
                return self.syntax(self.pos(), "missing condition in if statement".into());
            }
            let c = self.simple_as_stmt(Header::If)?;
            cond = self.stmt_as_cond(c)?;
        } else {
            let first = self.simple_as_stmt(Header::If)?;
            if self.tok() == &Tok::LBrace {
                cond = self.stmt_as_cond(first)?;
            } else if let Tok::Semi { auto } = self.tok().clone() {
                if auto {
                    return self.unexpected("{ after if clause");
                }
                self.next();
                if self.tok() == &Tok::LBrace {
                    return self.syntax(self.pos(), "missing condition in if statement".into());
                }
                init = Some(Box::new(first));
                let c = self.simple_as_stmt(Header::If)?;
                cond = self.stmt_as_cond(c)?;
            } else {
                return self.unexpected("{ after if clause");
            }
        }
        self.xnest = outer;
        if self.tok() != &Tok::LBrace {
            return self.unexpected("{ after if clause");
        }
        let then = self.block()?;
        let mut els = None;
        if self.got(&Tok::Else) {
            let epos = self.pos();
            match self.tok() {
                Tok::If => {
                    self.enter()?;
                    let s = self.if_stmt();
                    self.leave();
                    els = Some(Box::new(s?));
                }
                Tok::LBrace => {
                    let b = self.block()?;
                    els = Some(Box::new(Stmt { pos: epos, kind: StmtKind::Block(b) }));
                }
                _ => return self.syntax(epos, "else must be followed by if or statement block".into()),
            }
        }
        Ok(Stmt { pos, kind: StmtKind::If { init, cond, then, els } })
    }

    fn for_stmt(&mut self) -> PResult<Stmt> {
        let pos = self.pos();
        self.want(Tok::For)?;
        let outer = self.xnest;
        self.xnest = -1;
        let mut init = None;
        let mut cond = None;
        let mut post = None;
        if self.tok() != &Tok::LBrace {
            let mut first = None;
            if !matches!(self.tok(), Tok::Semi { .. }) {
                first = Some(self.simple_as_stmt(Header::For)?);
            }
            if self.tok() == &Tok::LBrace {
                // single condition
                if let Some(f) = first {
                    cond = Some(self.stmt_as_cond(f)?);
                }
            } else {
                if !matches!(self.tok(), Tok::Semi { .. }) {
                    return self.unexpected("{ after for clause");
                }
                if matches!(self.tok(), Tok::Semi { auto: true }) {
                    return self.unexpected("{ after for clause");
                }
                self.next();
                init = first.map(Box::new);
                if !matches!(self.tok(), Tok::Semi { .. }) {
                    if self.tok() == &Tok::LBrace {
                        return self.syntax(self.pos(), "expected for loop condition".into());
                    }
                    let c = self.simple_as_stmt(Header::For)?;
                    cond = Some(self.stmt_as_cond(c)?);
                }
                if !matches!(self.tok(), Tok::Semi { auto: false }) {
                    return self.unexpected("semicolon");
                }
                self.next();
                if self.tok() != &Tok::LBrace {
                    let p = self.simple_as_stmt(Header::For)?;
                    if matches!(p.kind, StmtKind::ShortVar { .. }) {
                        return self.syntax(p.pos, "cannot declare in post statement of for loop".into());
                    }
                    post = Some(Box::new(p));
                }
            }
        }
        self.xnest = outer;
        if self.tok() != &Tok::LBrace {
            return self.unexpected("{ after for clause");
        }
        let body = self.block()?;
        Ok(Stmt { pos, kind: StmtKind::For { init, cond, post, body } })
    }

    fn switch_stmt(&mut self) -> PResult<Stmt> {
        let pos = self.pos();
        self.want(Tok::Switch)?;
        let outer = self.xnest;
        self.xnest = -1;
        let mut init = None;
        let mut tag: Option<Simple> = None;
        if self.tok() != &Tok::LBrace {
            let mut first = None;
            if !matches!(self.tok(), Tok::Semi { .. }) {
                first = Some(self.simple_stmt(Some(Header::Switch))?);
            }
            if self.tok() == &Tok::LBrace {
                tag = first;
            } else {
                if !matches!(self.tok(), Tok::Semi { auto: false }) {
                    return self.unexpected("{ after switch clause");
                }
                self.next();
                match first {
                    Some(Simple::Stmt(s)) => init = Some(Box::new(s)),
                    Some(Simple::Guard { x, .. }) => {
                        return self.syntax(x.pos, "use of .(type) outside type switch".into())
                    }
                    None => {}
                }
                if self.tok() != &Tok::LBrace {
                    tag = Some(self.simple_stmt(Some(Header::Switch))?);
                }
            }
        }
        self.xnest = outer;
        if self.tok() != &Tok::LBrace {
            return self.unexpected("{ after switch clause");
        }
        self.next();
        self.enter()?;
        let mut clauses = Vec::new();
        while self.tok() != &Tok::RBrace && self.tok() != &Tok::Eof {
            let cpos = self.pos();
            let exprs = match self.tok() {
                Tok::Case => {
                    self.next();
                    let mut xs = vec![self.expr()?];
                    while self.got(&Tok::Comma) {
                        xs.push(self.expr()?);
                    }
                    Some(xs)
                }
                Tok::Default => {
                    self.next();
                    None
                }
                _ => return self.unexpected("case or default or }"),
            };
            self.want(Tok::Colon)?;
            let body = self.stmt_list()?;
            clauses.push(CaseClause { pos: cpos, exprs, body });
        }
        self.leave();
        let rbrace = self.pos();
        self.want(Tok::RBrace)?;
        match tag {
            Some(Simple::Guard { bind, x }) => {
                Ok(Stmt { pos, kind: StmtKind::TypeSwitch { init, bind, x, clauses, rbrace } })
            }
            Some(Simple::Stmt(s)) => {
                let t = self.stmt_as_cond(s)?;
                Ok(Stmt { pos, kind: StmtKind::Switch { init, tag: Some(t), clauses, rbrace } })
            }
            None => Ok(Stmt { pos, kind: StmtKind::Switch { init, tag: None, clauses, rbrace } }),
        }
    }
}

pub fn parse(toks: &[Token]) -> Result<File, GoError> {
    let mut p = Parser { toks, i: 0, xnest: 0, depth: 0 };
    p.file()
}
