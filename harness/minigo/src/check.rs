//! Type checker: declarations, scopes and statements.  Expressions live in check_expr.rs.

use crate::ast::*;
use crate::consts::CV;
use crate::ir::*;
use crate::lex::Pos;
use crate::types::*;
use crate::{ErrKind, GoError};
use std::collections::HashMap;

pub(crate) type R<T> = Result<T, GoError>;

#[derive(Clone, Copy, Debug, PartialEq, Eq)]
pub(crate) enum Builtin {
    Len,
    Append,
    Panic,
    Println,
    Print,
    Other(&'static str),
}

#[derive(Clone, Copy, Debug, PartialEq, Eq)]
pub(crate) enum FmtFn {
    Println,
    Print,
    Sprintf,
}

#[derive(Clone, Debug)]
pub(crate) enum Uni {
    Type(TypeId),
    True,
    False,
    Nil,
    Builtin(Builtin),
    Unsup(&'static str),
}

#[derive(Clone, Debug)]
pub(crate) enum Obj {
    Func(u32),
    Type(TypeId),
    Alias(usize),
    Import(usize),
}

pub(crate) enum Ref {
    Local(usize),
    Func(u32),
    Type(TypeId),
    Import(usize),
    Uni(Uni),
    NotFound,
}

pub(crate) struct Local {
    pub name: String,
    pub ty: TypeId,
    pub used: bool,
    pub pos: Pos,
    pub slot: u32,
    pub is_param: bool,
    /// type-switch clause symbol (unused reporting handled by the switch)
    pub implicit: bool,
}

pub(crate) struct Scope {
    pub names: FxMap<String, usize>,
    pub declared: Vec<usize>,
}

pub(crate) struct ImportInfo {
    pub name: String,
    pub path: String,
    pub used: bool,
    pub pos: Pos,
}

#[derive(Clone)]
pub(crate) struct FuncInfo {
    pub name: String,
    pub sig: TypeId,
    pub params: Vec<(Option<(String, Pos)>, TypeId)>,
    pub result: Option<TypeId>,
    pub recv: Option<(Option<(String, Pos)>, TypeId)>,
    pub decl: usize,
    pub pos: Pos,
}

enum AliasState {
    Unresolved,
    InProgress,
    Done(TypeId),
}

pub(crate) enum Ctx {
    For { has_break: bool },
    Switch { has_break: bool },
}

pub(crate) struct Checker<'a> {
    pub file: &'a File,
    pub tt: TypeTable,
    pub errors: Vec<GoError>,
    pub pkg: FxMap<String, Obj>,
    pub universe: FxMap<&'static str, Uni>,
    pub imports: Vec<ImportInfo>,
    pub funcs: Vec<FuncInfo>,
    alias_state: Vec<AliasState>,
    // per function
    pub scopes: Vec<Scope>,
    pub locals: Vec<Local>,
    pub nslots: u32,
    pub cur_result: Option<TypeId>,
    pub ctx: Vec<Ctx>,
    pub idents: Vec<(String, &'static str, u32)>,
}

pub(crate) fn unparen(mut x: &Expr) -> &Expr {
    while let ExprKind::Paren(i) = &x.kind {
        x = i;
    }
    x
}

const MAX_ZERO_SLOTS: u64 = 1 << 20;

impl<'a> Checker<'a> {
    fn new(file: &'a File) -> Checker<'a> {
        let mut universe: FxMap<&'static str, Uni> = FxMap::default();
        for (n, t) in [
            ("bool", T_BOOL),
            ("int8", T_I8),
            ("int16", T_I16),
            ("int32", T_I32),
            ("int64", T_I64),
            ("uint8", T_U8),
            ("uint16", T_U16),
            ("uint32", T_U32),
            ("uint64", T_U64),
            ("int", T_INT),
            ("uint", T_UINT),
            ("uintptr", T_UINTPTR),
            ("float32", T_F32),
            ("float64", T_F64),
            ("string", T_STRING),
            ("byte", T_U8),
            ("rune", T_I32),
            ("any", T_ANY),
        ] {
            universe.insert(n, Uni::Type(t));
        }
        for n in ["complex64", "complex128", "error", "comparable", "iota"] {
            universe.insert(n, Uni::Unsup(n));
        }
        universe.insert("true", Uni::True);
        universe.insert("false", Uni::False);
        universe.insert("nil", Uni::Nil);
        universe.insert("len", Uni::Builtin(Builtin::Len));
        universe.insert("append", Uni::Builtin(Builtin::Append));
        universe.insert("panic", Uni::Builtin(Builtin::Panic));
        universe.insert("println", Uni::Builtin(Builtin::Println));
        universe.insert("print", Uni::Builtin(Builtin::Print));
        for n in [
            "cap", "make", "new", "copy", "delete", "min", "max", "clear", "close", "complex", "real", "imag",
            "recover",
        ] {
            universe.insert(n, Uni::Builtin(Builtin::Other(n)));
        }
        Checker {
            file,
            tt: TypeTable::new(),
            errors: Vec::new(),
            pkg: FxMap::default(),
            universe,
            imports: Vec::new(),
            funcs: Vec::new(),
            alias_state: Vec::new(),
            scopes: Vec::new(),
            locals: Vec::new(),
            nslots: 0,
            cur_result: None,
            ctx: Vec::new(),
            idents: Vec::new(),
        }
    }

    pub(crate) fn err(&mut self, pos: Pos, rule: &str, msg: String) {
        self.errors.push(GoError::new(ErrKind::Type, pos, rule, msg));
    }

    pub(crate) fn unsup<T>(&self, pos: Pos, what: &str) -> R<T> {
        Err(GoError::unsupported(pos, what))
    }

    pub(crate) fn ts(&self, t: TypeId) -> String {
        self.tt.type_string(t)
    }

    // ------------------------------------------------------------ lookup

    pub(crate) fn lookup(&mut self, name: &str, pos: Pos) -> R<Ref> {
        for s in self.scopes.iter().rev() {
            if let Some(&i) = s.names.get(name) {
                return Ok(Ref::Local(i));
            }
        }
        if let Some(o) = self.pkg.get(name).cloned() {
            return Ok(match o {
                Obj::Func(i) => Ref::Func(i),
                Obj::Type(t) => Ref::Type(t),
                Obj::Import(i) => Ref::Import(i),
                Obj::Alias(d) => match self.resolve_alias(d, pos)? {
                    Some(t) => Ref::Type(t),
                    None => Ref::Type(T_INVALID),
                },
            });
        }
        if let Some(u) = self.universe.get(name) {
            return Ok(Ref::Uni(u.clone()));
        }
        Ok(Ref::NotFound)
    }

    fn resolve_alias(&mut self, decl: usize, use_pos: Pos) -> R<Option<TypeId>> {
        match self.alias_state[decl] {
            AliasState::Done(t) => return Ok(Some(t)),
            AliasState::InProgress => {
                self.err(use_pos, "invalid-recursive-type", "invalid recursive type".into());
                return Ok(None);
            }
            AliasState::Unresolved => {}
        }
        self.alias_state[decl] = AliasState::InProgress;
        let Decl::Type { ty, .. } = &self.file.decls[decl] else { return Ok(None) };
        // aliases are resolved in package scope: hide local scopes temporarily
        let saved = std::mem::take(&mut self.scopes);
        let r = self.resolve_type(ty);
        self.scopes = saved;
        let t = r?;
        self.alias_state[decl] = AliasState::Done(t);
        Ok(Some(t))
    }

    // ------------------------------------------------------------ types

    pub(crate) fn resolve_type(&mut self, x: &Expr) -> R<TypeId> {
        match &x.kind {
            ExprKind::Ident(n) => {
                if n == "_" {
                    self.err(x.pos, "blank-value", "cannot use _ as value or type".into());
                    return Ok(T_INVALID);
                }
                match self.lookup(n, x.pos)? {
                    Ref::Type(t) => Ok(t),
                    Ref::Uni(Uni::Type(t)) => Ok(t),
                    Ref::Uni(Uni::Unsup(w)) => self.unsup(x.pos, w),
                    Ref::NotFound => {
                        self.err(x.pos, "undeclared", format!("undefined: {}", n));
                        Ok(T_INVALID)
                    }
                    Ref::Local(i) => {
                        self.locals[i].used = true;
                        self.err(x.pos, "not-a-type", format!("{} is not a type", n));
                        Ok(T_INVALID)
                    }
                    _ => {
                        self.err(x.pos, "not-a-type", format!("{} is not a type", n));
                        Ok(T_INVALID)
                    }
                }
            }
            ExprKind::Paren(i) => self.resolve_type(i),
            ExprKind::Selector(b, name, _) => {
                if let ExprKind::Ident(p) = &b.kind {
                    match self.lookup(p, b.pos)? {
                        Ref::Import(i) => {
                            self.imports[i].used = true;
                            return self.unsup(x.pos, &format!("package:{}.{}", self.imports[i].name, name));
                        }
                        Ref::NotFound => {
                            self.err(b.pos, "undeclared", format!("undefined: {}", p));
                            return Ok(T_INVALID);
                        }
                        _ => {}
                    }
                }
                self.err(x.pos, "not-a-type", "selector is not a type".into());
                Ok(T_INVALID)
            }
            ExprKind::Unary(UnOp::Deref, e) => {
                let t = self.resolve_type(e)?;
                if t == T_INVALID {
                    return Ok(T_INVALID);
                }
                Ok(self.tt.intern(TypeData::Pointer(t)))
            }
            ExprKind::SliceType(e) => {
                let t = self.resolve_type(e)?;
                if t == T_INVALID {
                    return Ok(T_INVALID);
                }
                Ok(self.tt.intern(TypeData::Slice(t)))
            }
            ExprKind::ArrayType { len, elem } => {
                let lo = self.value(len)?;
                let t = self.resolve_type(elem)?;
                if lo.mode == Mode::Invalid {
                    return Ok(T_INVALID);
                }
                let n = match (&lo.mode, &lo.cv) {
                    (Mode::Const, Some(cv)) => {
                        let iv = match cv {
                            CV::Int(i) if self.tt.is_integer(lo.ty) => Some(*i),
                            CV::Float(f) if lo.ty == T_UFLOAT => crate::consts::fc_to_int(*f).ok(),
                            _ => None,
                        };
                        match iv {
                            Some(i) if i < 0 => {
                                self.err(len.pos, "bad-array-length", "invalid array length".into());
                                return Ok(T_INVALID);
                            }
                            Some(i) => i,
                            None => {
                                self.err(len.pos, "bad-array-length", "array length must be integer".into());
                                return Ok(T_INVALID);
                            }
                        }
                    }
                    _ => {
                        self.err(len.pos, "bad-array-length", "array length must be a constant".into());
                        return Ok(T_INVALID);
                    }
                };
                if n > i64::MAX as i128 {
                    // Go: "array length N (untyped int constant) must be integer" / overflows int
                    self.err(len.pos, "bad-array-length", format!("invalid array length {} (overflows int)", n));
                    return Ok(T_INVALID);
                }
                if n > MAX_ZERO_SLOTS as i128 {
                    return self.unsup(len.pos, "huge-array");
                }
                if t == T_INVALID {
                    return Ok(T_INVALID);
                }
                Ok(self.tt.intern(TypeData::Array(n as u64, t)))
            }
            ExprKind::StructType(fs) => {
                if fs.is_empty() {
                    Ok(T_UNIT)
                } else {
                    self.unsup(x.pos, "anonymous-struct")
                }
            }
            ExprKind::InterfaceType(ms) => {
                if ms.is_empty() {
                    Ok(T_ANY)
                } else {
                    self.unsup(x.pos, "anonymous-interface")
                }
            }
            ExprKind::FuncType(sig) => {
                let (ps, r) = self.resolve_sig(sig)?;
                if ps.iter().any(|(_, t)| *t == T_INVALID) || r == Some(T_INVALID) {
                    return Ok(T_INVALID);
                }
                Ok(self.tt.intern(TypeData::Func(ps.iter().map(|(_, t)| *t).collect(), r)))
            }
            _ => {
                // some other expression in type position
                let o = self.expr(x)?;
                if o.mode == Mode::Type {
                    return Ok(o.ty);
                }
                if o.mode != Mode::Invalid {
                    self.err(x.pos, "not-a-type", "expression is not a type".into());
                }
                Ok(T_INVALID)
            }
        }
    }

    #[allow(clippy::type_complexity)]
    pub(crate) fn resolve_sig(&mut self, sig: &Signature) -> R<(Vec<(Option<(String, Pos)>, TypeId)>, Option<TypeId>)> {
        let mut ps = Vec::new();
        let mut seen: Vec<&str> = Vec::new();
        for p in &sig.params {
            let t = self.resolve_type(&p.ty)?;
            if let Some((n, pos)) = &p.name {
                if n != "_" {
                    if seen.contains(&n.as_str()) {
                        self.err(*pos, "redeclared", format!("{} redeclared in this block", n));
                    }
                    seen.push(n);
                }
            }
            ps.push((p.name.clone(), t));
        }
        let r = match &sig.result {
            Some(r) => Some(self.resolve_type(r)?),
            None => None,
        };
        Ok((ps, r))
    }

    pub(crate) fn zero_value(&self, t: TypeId, pos: Pos) -> R<K> {
        let mut budget = MAX_ZERO_SLOTS;
        self.zero_rec(t, pos, &mut budget)
    }

    fn zero_rec(&self, t: TypeId, pos: Pos, budget: &mut u64) -> R<K> {
        if *budget == 0 {
            return self.unsup(pos, "huge-value");
        }
        *budget -= 1;
        Ok(match self.tt.under(t) {
            TypeData::Bool => K::Bool(false),
            TypeData::Int(_) => K::Int(0),
            TypeData::Float32 => K::F32(0.0),
            TypeData::Float64 => K::F64(0.0),
            TypeData::String => K::Str(Vec::new()),
            TypeData::Pointer(_) | TypeData::Func(..) | TypeData::Slice(_) | TypeData::Interface(_) => K::Nil,
            TypeData::Array(n, e) => {
                if *n > *budget {
                    return self.unsup(pos, "huge-value");
                }
                let mut v = Vec::with_capacity(*n as usize);
                for _ in 0..*n {
                    v.push(self.zero_rec(*e, pos, budget)?);
                }
                K::Agg(v)
            }
            TypeData::Struct(fs) => {
                let mut v = Vec::with_capacity(fs.len());
                for (_, ft) in fs {
                    v.push(self.zero_rec(*ft, pos, budget)?);
                }
                K::Agg(v)
            }
            _ => K::Nil,
        })
    }

    // ------------------------------------------------------------ package level

    fn declare_pkg(&mut self, name: &str, pos: Pos, obj: Obj) {
        if name == "_" {
            return;
        }
        if let Some(prev) = self.pkg.get(name) {
            let msg = match prev {
                Obj::Import(_) => format!("{} already declared through import of package", name),
                _ => format!("{} redeclared in this block", name),
            };
            self.err(pos, "redeclared", msg);
            return;
        }
        self.pkg.insert(name.to_string(), obj);
    }

    fn run(&mut self) -> R<()> {
        let file = self.file;
        // imports
        for imp in &file.imports {
            let path = match String::from_utf8(imp.path.clone()) {
                Ok(p) => p,
                Err(_) => return self.unsup(imp.pos, "import-path"),
            };
            if path.is_empty() {
                self.err(imp.pos, "bad-import", "invalid import path (empty string)".into());
                continue;
            }
            if path != "fmt" {
                if !path.chars().all(|c| c.is_ascii_alphanumeric() || matches!(c, '/' | '_' | '.' | '-')) {
                    return self.unsup(imp.pos, "import-path");
                }
                let first = path.split('/').next().unwrap_or("");
                if first.contains('.') || path.starts_with('/') || path.ends_with('/') || path.contains("//") {
                    return self.unsup(imp.pos, "non-std-import");
                }
            }
            let name = match &imp.alias {
                Some(a) => a.clone(),
                None => path.rsplit('/').next().unwrap_or(&path).to_string(),
            };
            let idx = self.imports.len();
            if self.pkg.contains_key(&name) {
                self.err(imp.pos, "redeclared", format!("{} redeclared in this block", name));
                // keep going; treat as used to avoid a second error
                self.imports.push(ImportInfo { name, path, used: true, pos: imp.pos });
                continue;
            }
            self.imports.push(ImportInfo { name: name.clone(), path, used: false, pos: imp.pos });
            self.pkg.insert(name, Obj::Import(idx));
        }
        // collect names
        self.alias_state = file.decls.iter().map(|_| AliasState::Unresolved).collect();
        let mut named_ids: Vec<Option<TypeId>> = vec![None; file.decls.len()];
        for (i, d) in file.decls.iter().enumerate() {
            match d {
                Decl::Type { name, pos, alias, .. } => {
                    self.idents.push((name.clone(), "type", pos.line));
                    if *alias {
                        self.declare_pkg(name, *pos, Obj::Alias(i));
                    } else {
                        let id = self.tt.new_named(name);
                        named_ids[i] = Some(id);
                        self.declare_pkg(name, *pos, Obj::Type(id));
                    }
                }
                Decl::Func { recv, name, pos, sig, .. } => {
                    if recv.is_none() {
                        if name == "init" {
                            // Go spec: init functions take no arguments and return nothing
                            if !sig.params.is_empty() || sig.result.is_some() {
                                self.err(*pos, "bad-init", "func init must have no arguments and no return values".into());
                                continue;
                            }
                            return self.unsup(*pos, "init-func");
                        }
                        self.idents.push((name.clone(), "func", pos.line));
                        self.declare_pkg(name, *pos, Obj::Func(i as u32));
                    } else {
                        self.idents.push((name.clone(), "method", pos.line));
                    }
                }
            }
        }
        // resolve named type bodies
        for (i, d) in file.decls.iter().enumerate() {
            let Decl::Type { name: _, pos, alias, ty } = d else { continue };
            if *alias {
                self.resolve_alias(i, *pos)?;
                continue;
            }
            let id = named_ids[i].unwrap();
            let under = match &ty.kind {
                ExprKind::StructType(fs) => {
                    let mut fields: Vec<(String, TypeId)> = Vec::new();
                    for f in fs {
                        if f.name == "_" {
                            return self.unsup(f.pos, "blank-field");
                        }
                        self.idents.push((f.name.clone(), "field", f.pos.line));
                        let ft = self.resolve_type(&f.ty)?;
                        if fields.iter().any(|(n, _)| *n == f.name) {
                            self.err(f.pos, "redeclared", format!("{} redeclared", f.name));
                            continue;
                        }
                        fields.push((f.name.clone(), ft));
                    }
                    self.tt.intern(TypeData::Struct(fields))
                }
                ExprKind::InterfaceType(ms) => {
                    let mut methods: Vec<(String, TypeId)> = Vec::new();
                    for m in ms {
                        if m.name == "_" {
                            self.err(m.pos, "blank-method", "methods must have a unique non-blank name".into());
                            continue;
                        }
                        self.idents.push((m.name.clone(), "method", m.pos.line));
                        let (ps, r) = self.resolve_sig(&m.sig)?;
                        let sig = self.tt.intern(TypeData::Func(ps.iter().map(|(_, t)| *t).collect(), r));
                        if methods.iter().any(|(n, _)| *n == m.name) {
                            self.err(m.pos, "redeclared", format!("duplicate method {}", m.name));
                            continue;
                        }
                        methods.push((m.name.clone(), sig));
                    }
                    methods.sort_by(|a, b| a.0.cmp(&b.0));
                    self.tt.intern(TypeData::Interface(methods))
                }
                _ => return self.unsup(ty.pos, "defined-type"),
            };
            if let TypeData::Named(n) = self.tt.get(id).clone() {
                self.tt.named[n as usize].underlying = under;
            }
        }
        self.check_recursive_types(&named_ids);
        // function signatures
        for (i, d) in file.decls.iter().enumerate() {
            match d {
                Decl::Func { recv, name, pos, sig, .. } => {
                    let (params, result) = self.resolve_sig(sig)?;
                    let sig_ty = self.tt.intern(TypeData::Func(params.iter().map(|(_, t)| *t).collect(), result));
                    let mut recv_info = None;
                    if let Some(r) = recv {
                        let base_expr = unparen(&r.ty);
                        if let ExprKind::Unary(UnOp::Deref, _) = &base_expr.kind {
                            return self.unsup(base_expr.pos, "pointer-receiver");
                        }
                        let rt = self.resolve_type(&r.ty)?;
                        recv_info = Some((r.name.clone(), rt));
                        if rt != T_INVALID {
                            match self.tt.get(rt).clone() {
                                TypeData::Named(n) => {
                                    if self.tt.is_interface(rt) {
                                        self.err(r.ty.pos, "bad-receiver", format!("invalid receiver type {}", self.ts(rt)));
                                    } else if name != "_" {
                                        let dup = self.tt.named[n as usize].methods.iter().any(|m| m.name == *name);
                                        let field_clash = self
                                            .tt
                                            .struct_fields(rt)
                                            .map(|fs| fs.iter().any(|(f, _)| f == name))
                                            .unwrap_or(false);
                                        if dup {
                                            self.err(*pos, "redeclared", format!("method {}.{} already declared", self.ts(rt), name));
                                        } else if field_clash {
                                            self.err(*pos, "redeclared", format!("field and method with the same name {}", name));
                                        } else {
                                            self.tt.named[n as usize].methods.push(MethodInfo {
                                                name: name.clone(),
                                                sig: sig_ty,
                                                func: i as u32,
                                            });
                                        }
                                    }
                                }
                                _ => {
                                    self.err(
                                        r.ty.pos,
                                        "bad-receiver",
                                        format!("cannot define new methods on non-local type {}", self.ts(rt)),
                                    );
                                }
                            }
                        }
                    } else if name == "main" {
                        if !params.is_empty() || result.is_some() {
                            self.err(*pos, "bad-main", "func main must have no arguments and no return values".into());
                        }
                    } else if name == "init" {
                        // Go spec: package-level init functions take nothing, return nothing (and
                        // cannot be referred to; goml never emits an init of its own)
                        if !params.is_empty() || result.is_some() {
                            self.err(*pos, "bad-init", "func init must have no arguments and no return values".into());
                        }
                    }
                    self.funcs.push(FuncInfo {
                        name: name.clone(),
                        sig: sig_ty,
                        params,
                        result,
                        recv: recv_info,
                        decl: i,
                        pos: *pos,
                    });
                }
                Decl::Type { .. } => {
                    // keep indices aligned: placeholder
                    self.funcs.push(FuncInfo {
                        name: String::new(),
                        sig: T_INVALID,
                        params: Vec::new(),
                        result: None,
                        recv: None,
                        decl: i,
                        pos: Pos::default(),
                    });
                }
            }
        }
        match self.pkg.get("main") {
            Some(Obj::Func(_)) => {}
            Some(_) => {
                let p = file.pkg_pos;
                self.err(p, "missing-main", "cannot declare main - must be func".into());
            }
            None => {
                self.err(file.pkg_pos, "missing-main", "function main is undeclared in the main package".into());
            }
        }
        Ok(())
    }

    fn check_recursive_types(&mut self, named_ids: &[Option<TypeId>]) {
        // state: 0 = unvisited, 1 = on stack, 2 = done
        let mut state: HashMap<TypeId, u8> = HashMap::new();
        let mut bad: Vec<TypeId> = Vec::new();
        fn walk(tt: &TypeTable, t: TypeId, state: &mut HashMap<TypeId, u8>, bad: &mut Vec<TypeId>, depth: u32) {
            if depth > 5000 {
                return;
            }
            match tt.get(t) {
                TypeData::Named(_) => {
                    if tt.is_interface(t) {
                        return;
                    }
                    match state.get(&t).copied().unwrap_or(0) {
                        1 => {
                            bad.push(t);
                            return;
                        }
                        2 => return,
                        _ => {}
                    }
                    state.insert(t, 1);
                    walk(tt, tt.underlying(t), state, bad, depth + 1);
                    state.insert(t, 2);
                }
                TypeData::Array(_, e) => walk(tt, *e, state, bad, depth + 1),
                TypeData::Struct(fs) => {
                    for (_, ft) in fs {
                        walk(tt, *ft, state, bad, depth + 1);
                    }
                }
                _ => {}
            }
        }
        for id in named_ids.iter().flatten() {
            walk(&self.tt, *id, &mut state, &mut bad, 0);
        }
        bad.sort();
        bad.dedup();
        for t in bad {
            // find decl position
            let name = self.ts(t);
            let pos = self
                .file
                .decls
                .iter()
                .find_map(|d| match d {
                    Decl::Type { name: n, pos, alias: false, .. } if *n == name => Some(*pos),
                    _ => None,
                })
                .unwrap_or_default();
            self.err(pos, "invalid-recursive-type", format!("invalid recursive type {}", name));
        }
    }

    // ------------------------------------------------------------ scopes

    pub(crate) fn open_scope(&mut self) {
        self.scopes.push(Scope { names: FxMap::default(), declared: Vec::new() });
    }

    pub(crate) fn close_scope(&mut self) {
        if let Some(s) = self.scopes.pop() {
            for i in s.declared {
                let l = &self.locals[i];
                if !l.used && !l.is_param && !l.implicit {
                    let (pos, name) = (l.pos, l.name.clone());
                    self.err(pos, "unused-var", format!("declared and not used: {}", name));
                }
            }
        }
    }

    pub(crate) fn new_slot(&mut self) -> u32 {
        let s = self.nslots;
        self.nslots += 1;
        s
    }

    pub(crate) fn declare_local(&mut self, name: &str, pos: Pos, ty: TypeId, is_param: bool, implicit: bool) -> u32 {
        let slot = self.new_slot();
        if name == "_" {
            return slot;
        }
        let scope = self.scopes.last_mut().expect("scope");
        if scope.names.contains_key(name) {
            self.err(pos, "redeclared", format!("{} redeclared in this block", name));
            return slot;
        }
        let idx = self.locals.len();
        self.locals.push(Local { name: name.to_string(), ty, used: false, pos, slot, is_param, implicit });
        let scope = self.scopes.last_mut().unwrap();
        scope.names.insert(name.to_string(), idx);
        scope.declared.push(idx);
        if !implicit {
            self.idents.push((name.to_string(), if is_param { "param" } else { "var" }, pos.line));
        }
        slot
    }

    // ------------------------------------------------------------ functions

    fn check_func(&mut self, fi: &FuncInfo) -> R<FuncIR> {
        let Decl::Func { body, name, pos, .. } = &self.file.decls[fi.decl] else { unreachable!() };
        self.scopes.clear();
        self.locals.clear();
        self.nslots = 0;
        self.ctx.clear();
        self.cur_result = fi.result;
        self.open_scope();
        let mut nparams = 0;
        if let Some((rn, rt)) = &fi.recv {
            let (n, p) = match rn {
                Some((n, p)) => (n.as_str(), *p),
                None => ("_", *pos),
            };
            self.declare_local(n, p, *rt, true, false);
            nparams += 1;
        }
        for (pn, pt) in &fi.params {
            let (n, p) = match pn {
                Some((n, p)) => (n.as_str(), *p),
                None => ("_", *pos),
            };
            self.declare_local(n, p, *pt, true, false);
            nparams += 1;
        }
        let mut out = Vec::new();
        match body {
            Some(b) => {
                let term = self.stmts(&b.stmts, &mut out)?;
                if fi.result.is_some() && !term {
                    self.err(b.rbrace, "missing-return", "missing return".into());
                }
            }
            None => {
                self.err(*pos, "missing-body", format!("missing function body for {}", name));
            }
        }
        self.close_scope();
        Ok(FuncIR { name: name.clone(), nparams, nlocals: self.nslots, has_result: fi.result.is_some(), body: out })
    }

    /// checks a statement list in the current scope; returns whether it is terminating
    pub(crate) fn stmts(&mut self, list: &[Stmt], out: &mut Vec<S>) -> R<bool> {
        let mut term = false;
        for s in list {
            term = self.stmt(s, out)?;
        }
        Ok(term)
    }

    fn block(&mut self, b: &Block, out: &mut Vec<S>) -> R<bool> {
        self.open_scope();
        let t = self.stmts(&b.stmts, out);
        self.close_scope();
        t
    }

    fn default_value(&mut self, x: &Expr, ctx: &str) -> R<Option<(E, TypeId)>> {
        let o = self.value(x)?;
        if o.mode == Mode::Invalid {
            return Ok(None);
        }
        if o.ty == T_UNIL {
            self.err(x.pos, "untyped-nil", format!("use of untyped nil in {}", ctx));
            return Ok(None);
        }
        let t = self.tt.default_type(o.ty);
        let e = self.assign_to(o, t, "assign-mismatch", ctx)?;
        Ok(Some((e, t)))
    }

    fn stmt(&mut self, s: &Stmt, out: &mut Vec<S>) -> R<bool> {
        match &s.kind {
            StmtKind::Empty => Ok(false),
            StmtKind::Unsupported(w) => self.unsup(s.pos, w),
            StmtKind::Expr(x) => {
                let inner = unparen(x);
                if let ExprKind::Call { .. } = &inner.kind {
                    let o = self.expr(inner)?;
                    match o.mode {
                        Mode::Invalid => return Ok(false),
                        Mode::NoValue | Mode::Value | Mode::Const => {}
                        _ => {
                            self.err(x.pos, "unused-value", "expression is not used".into());
                            return Ok(false);
                        }
                    }
                    if !o.stmt_ok {
                        self.err(x.pos, "unused-value", "expression evaluated but not used".into());
                        return Ok(false);
                    }
                    let has_value = o.mode != Mode::NoValue;
                    out.push(S::Expr { e: o.e, has_value });
                    Ok(o.is_panic)
                } else {
                    let o = self.expr(x)?;
                    if o.mode != Mode::Invalid {
                        self.err(x.pos, "unused-value", "expression evaluated but not used".into());
                    }
                    Ok(false)
                }
            }
            StmtKind::Go(x) => {
                let o = self.expr(x)?;
                if o.mode == Mode::Invalid {
                    return Ok(false);
                }
                if o.is_conversion {
                    self.err(x.pos, "bad-go", "go requires function call, not conversion".into());
                    return Ok(false);
                }
                if !o.stmt_ok {
                    self.err(x.pos, "unused-value", "go discards result of builtin call".into());
                    return Ok(false);
                }
                match o.e {
                    E::Call { callee, args } => out.push(S::Go { callee, args }),
                    _ => return self.unsup(x.pos, "go-builtin"),
                }
                Ok(false)
            }
            StmtKind::VarDecl { name, name_pos, ty, value } => {
                let (e, t) = match (ty, value) {
                    (Some(ty), Some(v)) => {
                        let t = self.resolve_type(ty)?;
                        let o = self.value(v)?;
                        let e = self.assign_to(o, t, "assign-mismatch", "variable declaration")?;
                        (e, t)
                    }
                    (Some(ty), None) => {
                        let t = self.resolve_type(ty)?;
                        let z = if t == T_INVALID { K::Nil } else { self.zero_value(t, ty.pos)? };
                        (E::Const(z), t)
                    }
                    (None, Some(v)) => match self.default_value(v, "variable declaration")? {
                        Some(r) => r,
                        None => (E::Const(K::Nil), T_INVALID),
                    },
                    (None, None) => (E::Const(K::Nil), T_INVALID),
                };
                let slot = self.declare_local(name, *name_pos, t, false, false);
                out.push(S::Assign { lv: LV::Local(slot), e });
                Ok(false)
            }
            StmtKind::ShortVar { name, name_pos, value } => {
                let (e, t) = match self.default_value(value, "assignment")? {
                    Some(r) => r,
                    None => (E::Const(K::Nil), T_INVALID),
                };
                let exists = name == "_" || self.scopes.last().map(|sc| sc.names.contains_key(name)).unwrap_or(false);
                if exists {
                    self.err(*name_pos, "no-new-vars", "no new variables on left side of :=".into());
                    return Ok(false);
                }
                let slot = self.declare_local(name, *name_pos, t, false, false);
                out.push(S::Assign { lv: LV::Local(slot), e });
                Ok(false)
            }
            StmtKind::Assign { lhs, rhs } => {
                if let ExprKind::Ident(n) = &unparen(lhs).kind {
                    if n == "_" {
                        if let Some((e, _)) = self.default_value(rhs, "assignment")? {
                            out.push(S::Assign { lv: LV::Blank, e });
                        }
                        return Ok(false);
                    }
                }
                let lv = self.lvalue(lhs)?;
                let o = self.value(rhs)?;
                if let Some((lv, t)) = lv {
                    let e = self.assign_to(o, t, "assign-mismatch", "assignment")?;
                    out.push(S::Assign { lv, e });
                }
                Ok(false)
            }
            StmtKind::Return(xs) => {
                match (self.cur_result, xs.len()) {
                    (None, 0) => out.push(S::Return(None)),
                    (None, _) => {
                        for x in xs {
                            self.expr(x)?;
                        }
                        self.err(xs[0].pos, "return-mismatch", "too many return values".into());
                    }
                    (Some(_), 0) => {
                        self.err(s.pos, "return-mismatch", "not enough return values".into());
                    }
                    (Some(t), 1) => {
                        let o = self.value(&xs[0])?;
                        let e = self.assign_to(o, t, "return-mismatch", "return statement")?;
                        out.push(S::Return(Some(e)));
                    }
                    (Some(_), _) => {
                        for x in xs {
                            self.expr(x)?;
                        }
                        self.err(xs[1].pos, "return-mismatch", "too many return values".into());
                    }
                }
                Ok(true)
            }
            StmtKind::If { init, cond, then, els } => {
                self.open_scope();
                let r = self.if_stmt(init, cond, then, els, out);
                self.close_scope();
                r
            }
            StmtKind::For { init, cond, post, body } => {
                self.open_scope();
                let r = self.for_stmt(init, cond, post, body, out);
                self.close_scope();
                r
            }
            StmtKind::Break => {
                match self.ctx.last_mut() {
                    Some(Ctx::For { has_break }) | Some(Ctx::Switch { has_break }) => {
                        *has_break = true;
                        out.push(S::Break);
                    }
                    None => self.err(s.pos, "bad-break", "break is not in a loop, switch, or select".into()),
                }
                Ok(false)
            }
            StmtKind::Continue => {
                if self.ctx.iter().any(|c| matches!(c, Ctx::For { .. })) {
                    out.push(S::Continue);
                } else {
                    self.err(s.pos, "bad-break", "continue is not in a loop".into());
                }
                Ok(false)
            }
            StmtKind::Block(b) => {
                let mut inner = Vec::new();
                let t = self.block(b, &mut inner)?;
                out.push(S::Block(inner));
                Ok(t)
            }
            StmtKind::Switch { init, tag, clauses, .. } => {
                self.open_scope();
                let r = self.switch_stmt(s.pos, init, tag, clauses, out);
                self.close_scope();
                r
            }
            StmtKind::TypeSwitch { init, bind, x, clauses, .. } => {
                self.open_scope();
                let r = self.type_switch_stmt(init, bind, x, clauses, out);
                self.close_scope();
                r
            }
        }
    }

    fn cond_expr(&mut self, cond: &Expr, what: &str) -> R<E> {
        let o = self.value(cond)?;
        if o.mode == Mode::Invalid {
            return Ok(E::Const(K::Bool(false)));
        }
        if !self.tt.is_boolean(o.ty) {
            self.err(cond.pos, "non-bool-cond", format!("non-boolean condition in {} statement", what));
            return Ok(E::Const(K::Bool(false)));
        }
        let t = self.tt.default_type(o.ty);
        self.assign_to(o, t, "assign-mismatch", "condition")
    }

    fn if_stmt(
        &mut self,
        init: &Option<Box<Stmt>>,
        cond: &Expr,
        then: &Block,
        els: &Option<Box<Stmt>>,
        out: &mut Vec<S>,
    ) -> R<bool> {
        if let Some(i) = init {
            self.stmt(i, out)?;
        }
        let c = self.cond_expr(cond, "if")?;
        let mut tb = Vec::new();
        let tt = self.block(then, &mut tb)?;
        let mut eb = Vec::new();
        let mut et = false;
        if let Some(e) = els {
            match &e.kind {
                StmtKind::Block(b) => et = self.block(b, &mut eb)?,
                _ => et = self.stmt(e, &mut eb)?,
            }
        }
        out.push(S::If { cond: c, then: tb, els: eb });
        Ok(els.is_some() && tt && et)
    }

    fn for_stmt(
        &mut self,
        init: &Option<Box<Stmt>>,
        cond: &Option<Expr>,
        post: &Option<Box<Stmt>>,
        body: &Block,
        out: &mut Vec<S>,
    ) -> R<bool> {
        if let Some(i) = init {
            self.stmt(i, out)?;
        }
        let c = match cond {
            Some(c) => Some(self.cond_expr(c, "for")?),
            None => None,
        };
        let mut pb = Vec::new();
        if let Some(p) = post {
            self.stmt(p, &mut pb)?;
        }
        self.ctx.push(Ctx::For { has_break: false });
        let mut bb = Vec::new();
        let r = self.block(body, &mut bb);
        let ctx = self.ctx.pop();
        r?;
        let has_break = matches!(ctx, Some(Ctx::For { has_break: true }));
        out.push(S::Loop { cond: c, post: pb, body: bb });
        Ok(cond.is_none() && !has_break)
    }

    fn switch_stmt(
        &mut self,
        pos: Pos,
        init: &Option<Box<Stmt>>,
        tag: &Option<Expr>,
        clauses: &[CaseClause],
        out: &mut Vec<S>,
    ) -> R<bool> {
        if let Some(i) = init {
            self.stmt(i, out)?;
        }
        // tag
        let mut tag_op: Option<Operand> = None;
        if let Some(t) = tag {
            if let Some((e, ty)) = self.default_value(t, "switch expression")? {
                let slot = self.new_slot();
                out.push(S::Assign { lv: LV::Local(slot), e });
                let mut o = Operand::value(ty, E::Local(slot), t.pos);
                o.addressable = false;
                tag_op = Some(o);
            }
        }
        let tag_valid = tag.is_none() || tag_op.is_some();
        let ndefault = clauses.iter().filter(|c| c.exprs.is_none()).count();
        if ndefault > 1 {
            let second = clauses.iter().filter(|c| c.exprs.is_none()).nth(1).unwrap();
            self.err(second.pos, "dup-case", "multiple defaults in switch".into());
        }
        self.ctx.push(Ctx::Switch { has_break: false });
        let mut ir_clauses = Vec::new();
        let mut default = None;
        let mut all_term = true;
        let mut seen: Vec<(DupKey, TypeId)> = Vec::new();
        let mut res: R<()> = Ok(());
        for c in clauses {
            let mut conds = Vec::new();
            if let Some(xs) = &c.exprs {
                for x in xs {
                    let v = match self.value(x) {
                        Ok(v) => v,
                        Err(e) => {
                            res = Err(e);
                            break;
                        }
                    };
                    if v.mode == Mode::Invalid || !tag_valid {
                        continue;
                    }
                    let lhs = match &tag_op {
                        Some(t) => t.clone(),
                        None => Operand::constant(T_UBOOL, CV::Bool(true), x.pos),
                    };
                    let r = match self.comparison(BinOp::Eq, lhs, v, x.pos) {
                        Ok(r) => r,
                        Err(e) => {
                            res = Err(e);
                            break;
                        }
                    };
                    if r.mode == Mode::Invalid {
                        continue;
                    }
                    // duplicate detection
                    if tag_op.is_some() {
                        if let Some((k, kt)) = &r.case_key {
                            if seen.iter().any(|(sk, st)| sk == k && st == kt) {
                                self.err(x.pos, "dup-case", "duplicate case in expression switch".into());
                            } else {
                                seen.push((k.clone(), *kt));
                            }
                        }
                    }
                    let e = match self.materialize_bool(r) {
                        Ok(e) => e,
                        Err(e) => {
                            res = Err(e);
                            break;
                        }
                    };
                    conds.push(e);
                }
                if res.is_err() {
                    break;
                }
            }
            let mut body = Vec::new();
            self.open_scope();
            let t = self.stmts(&c.body, &mut body);
            self.close_scope();
            match t {
                Ok(t) => all_term &= t,
                Err(e) => {
                    res = Err(e);
                    break;
                }
            }
            if c.exprs.is_some() {
                ir_clauses.push(SwitchClause { conds, body });
            } else {
                default = Some(body);
            }
        }
        let ctx = self.ctx.pop();
        res?;
        let has_break = matches!(ctx, Some(Ctx::Switch { has_break: true }));
        let _ = pos;
        out.push(S::Switch { clauses: ir_clauses, default });
        Ok(ndefault > 0 && all_term && !has_break)
    }

    fn type_switch_stmt(
        &mut self,
        init: &Option<Box<Stmt>>,
        bind: &Option<(String, Pos)>,
        x: &Expr,
        clauses: &[CaseClause],
        out: &mut Vec<S>,
    ) -> R<bool> {
        if let Some(i) = init {
            self.stmt(i, out)?;
        }
        let xo = self.value(x)?;
        let mut x_ty = T_INVALID;
        if xo.mode != Mode::Invalid {
            if self.tt.is_interface(xo.ty) {
                x_ty = xo.ty;
            } else {
                self.err(x.pos, "bad-assertion", format!("{} is not an interface", self.describe(&xo)));
            }
        }
        if let Some((n, p)) = bind {
            if n == "_" {
                self.err(*p, "no-new-vars", "no new variable on left side of :=".into());
            }
        }
        let ndefault = clauses.iter().filter(|c| c.exprs.is_none()).count();
        if ndefault > 1 {
            let second = clauses.iter().filter(|c| c.exprs.is_none()).nth(1).unwrap();
            self.err(second.pos, "dup-case", "multiple defaults in switch".into());
        }
        self.ctx.push(Ctx::Switch { has_break: false });
        let mut ir_clauses = Vec::new();
        let mut default = None;
        let mut all_term = true;
        let mut seen: Vec<TypeId> = Vec::new();
        let mut seen_nil = false;
        let mut any_used = false;
        let mut res: R<()> = Ok(());
        'outer: for c in clauses {
            let mut cases = Vec::new();
            let mut single: Option<TypeId> = None;
            if let Some(xs) = &c.exprs {
                for cx in xs {
                    // nil?
                    if let ExprKind::Ident(n) = &unparen(cx).kind {
                        if n == "nil" {
                            match self.lookup(n, cx.pos) {
                                Ok(Ref::Uni(Uni::Nil)) => {
                                    if seen_nil {
                                        self.err(cx.pos, "dup-case", "multiple nil cases in type switch".into());
                                    }
                                    seen_nil = true;
                                    cases.push(TCase::Nil);
                                    continue;
                                }
                                Ok(_) => {}
                                Err(e) => {
                                    res = Err(e);
                                    break 'outer;
                                }
                            }
                        }
                    }
                    let t = match self.resolve_type(cx) {
                        Ok(t) => t,
                        Err(e) => {
                            res = Err(e);
                            break 'outer;
                        }
                    };
                    if t == T_INVALID {
                        continue;
                    }
                    if xs.len() == 1 {
                        single = Some(t);
                    }
                    if seen.contains(&t) {
                        self.err(cx.pos, "dup-case", format!("duplicate case {} in type switch", self.ts(t)));
                        continue;
                    }
                    seen.push(t);
                    if self.tt.is_interface(t) {
                        cases.push(TCase::Iface(t));
                    } else {
                        if x_ty != T_INVALID {
                            if let Some((m, wrong)) = self.tt.missing_method(t, x_ty) {
                                self.err(
                                    cx.pos,
                                    "impossible-case",
                                    format!(
                                        "impossible type switch case: {} cannot have dynamic type {} ({} method {})",
                                        self.ts(x_ty),
                                        self.ts(t),
                                        if wrong { "wrong type for" } else { "missing" },
                                        m
                                    ),
                                );
                                continue;
                            }
                        }
                        cases.push(TCase::Concrete(t));
                    }
                }
            }
            self.open_scope();
            let mut bind_info = None;
            let mut local_idx = None;
            if let Some((n, p)) = bind {
                if n != "_" {
                    let (vt, unwrap) = match single {
                        Some(t) if !self.tt.is_interface(t) => (t, true),
                        Some(t) => (t, false),
                        None => (x_ty, false),
                    };
                    let slot = self.declare_local(n, *p, vt, false, true);
                    local_idx = self.scopes.last().and_then(|s| s.names.get(n).copied());
                    bind_info = Some((slot, unwrap));
                }
            }
            let mut body = Vec::new();
            let t = self.stmts(&c.body, &mut body);
            if let Some(i) = local_idx {
                any_used |= self.locals[i].used;
            }
            self.close_scope();
            match t {
                Ok(t) => all_term &= t,
                Err(e) => {
                    res = Err(e);
                    break;
                }
            }
            if c.exprs.is_some() {
                ir_clauses.push(TSClause { cases, bind: bind_info, body });
            } else {
                default = Some((bind_info.map(|b| b.0), body));
            }
        }
        let ctx = self.ctx.pop();
        res?;
        if let Some((n, p)) = bind {
            if n != "_" && !any_used {
                self.err(*p, "unused-var", format!("declared and not used: {}", n));
            }
            if n != "_" {
                self.idents.push((n.clone(), "var", p.line));
            }
        }
        let has_break = matches!(ctx, Some(Ctx::Switch { has_break: true }));
        out.push(S::TypeSwitch { x: xo.e, clauses: ir_clauses, default });
        Ok(ndefault > 0 && all_term && !has_break)
    }
}

/// key for duplicate-case detection
#[derive(Clone, Debug, PartialEq)]
pub(crate) enum DupKey {
    Int(i128),
    Float(u64),
    Str(Vec<u8>),
}

#[derive(Clone, Debug, PartialEq)]
pub(crate) enum Mode {
    Invalid,
    NoValue,
    Builtin(Builtin),
    FmtFunc(FmtFn),
    Package(usize),
    Type,
    Const,
    Value,
    Method,
}

#[derive(Clone, Debug)]
pub(crate) enum MethodRef {
    Static(u32),
    Iface(String),
}

#[derive(Clone, Debug)]
pub(crate) struct Place {
    pub root: Root,
    pub steps: Vec<Step>,
}

#[derive(Clone, Debug)]
pub(crate) struct Operand {
    pub mode: Mode,
    pub ty: TypeId,
    pub cv: Option<CV>,
    pub e: E,
    pub pos: Pos,
    pub addressable: bool,
    pub place: Option<Place>,
    pub method: Option<MethodRef>,
    /// may be used as an expression statement
    pub stmt_ok: bool,
    pub is_panic: bool,
    pub is_conversion: bool,
    /// call returning more than one value
    pub multi: bool,
    /// for comparisons `tag == const`: the constant (for duplicate case detection)
    pub case_key: Option<(DupKey, TypeId)>,
    /// short description for messages
    pub what: &'static str,
}

impl Operand {
    pub fn invalid(pos: Pos) -> Operand {
        Operand {
            mode: Mode::Invalid,
            ty: T_INVALID,
            cv: None,
            e: E::Const(K::Nil),
            pos,
            addressable: false,
            place: None,
            method: None,
            stmt_ok: false,
            is_panic: false,
            is_conversion: false,
            multi: false,
            case_key: None,
            what: "value",
        }
    }
    pub fn value(ty: TypeId, e: E, pos: Pos) -> Operand {
        Operand { mode: Mode::Value, ty, e, ..Operand::invalid(pos) }
    }
    pub fn constant(ty: TypeId, cv: CV, pos: Pos) -> Operand {
        Operand { mode: Mode::Const, ty, cv: Some(cv), what: "constant", ..Operand::invalid(pos) }
    }
    pub fn with_mode(mode: Mode, ty: TypeId, pos: Pos) -> Operand {
        Operand { mode, ty, ..Operand::invalid(pos) }
    }
}

pub fn check(file: &File) -> Result<Checked, Vec<GoError>> {
    let mut c = Checker::new(file);
    if let Err(stop) = c.run() {
        return Err(vec![stop]);
    }
    // bodies
    let infos: Vec<FuncInfo> = c.funcs.clone();
    let mut funcs = Vec::with_capacity(infos.len());
    for fi in &infos {
        if fi.sig == T_INVALID && fi.name.is_empty() {
            // placeholder for a type declaration
            funcs.push(FuncIR { name: String::new(), nparams: 0, nlocals: 0, has_result: false, body: Vec::new() });
            continue;
        }
        match c.check_func(fi) {
            Ok(f) => funcs.push(f),
            Err(stop) => return Err(vec![stop]),
        }
    }
    // unused imports
    let unused: Vec<(Pos, String)> =
        c.imports.iter().filter(|i| !i.used).map(|i| (i.pos, i.path.clone())).collect();
    for (pos, path) in unused {
        c.err(pos, "unused-import", format!("\"{}\" imported and not used", path));
    }
    if !c.errors.is_empty() {
        return Err(c.errors);
    }
    let main = match c.pkg.get("main") {
        Some(Obj::Func(i)) => *i,
        _ => return Err(vec![GoError::unsupported(Pos::default(), "internal-no-main")]),
    };
    Ok(Checked { types: c.tt, funcs, main, idents: c.idents })
}
