//! Go-compatible formatting: fmt.Print/Println/Sprintf for the supported kinds.

use crate::interp::Value;
use crate::types::{IntKind, TypeData, TypeId, TypeTable};

/// (digits, decimal exponent of first digit) of the shortest representation
fn shortest_digits(repr_e: &str) -> (Vec<u8>, i32) {
    // repr_e looks like "1.2345e-7" or "1e21"
    let (mant, exp) = repr_e.split_once('e').unwrap_or((repr_e, "0"));
    let digits: Vec<u8> = mant.bytes().filter(|b| b.is_ascii_digit()).collect();
    (digits, exp.parse::<i32>().unwrap_or(0))
}

fn format_g(neg: bool, digits: &[u8], exp: i32, out: &mut Vec<u8>) {
    // %e is used if exp < -4 || exp >= eprec, where eprec is 6 for the shortest
    // representation (strconv.FormatFloat(v, 'g', -1, bits))
    let eprec = 6;
    if neg {
        out.push(b'-');
    }
    if exp < -4 || exp >= eprec {
        out.push(digits[0]);
        if digits.len() > 1 {
            out.push(b'.');
            out.extend_from_slice(&digits[1..]);
        }
        out.push(b'e');
        out.push(if exp < 0 { b'-' } else { b'+' });
        let a = exp.unsigned_abs();
        if a < 10 {
            out.push(b'0');
        }
        out.extend_from_slice(a.to_string().as_bytes());
        return;
    }
    if exp < 0 {
        out.extend_from_slice(b"0.");
        for _ in 0..(-exp - 1) {
            out.push(b'0');
        }
        out.extend_from_slice(digits);
        return;
    }
    let int_len = exp as usize + 1;
    if digits.len() <= int_len {
        out.extend_from_slice(digits);
        for _ in 0..(int_len - digits.len()) {
            out.push(b'0');
        }
    } else {
        out.extend_from_slice(&digits[..int_len]);
        out.push(b'.');
        out.extend_from_slice(&digits[int_len..]);
    }
}

pub fn fmt_f64(v: f64, out: &mut Vec<u8>) {
    if v.is_nan() {
        out.extend_from_slice(b"NaN");
        return;
    }
    if v.is_infinite() {
        out.extend_from_slice(if v > 0.0 { b"+Inf" } else { b"-Inf" });
        return;
    }
    let neg = v.is_sign_negative();
    let a = v.abs();
    if a == 0.0 {
        if neg {
            out.push(b'-');
        }
        out.push(b'0');
        return;
    }
    let s = format!("{:e}", a);
    let (d, e) = shortest_digits(&s);
    format_g(neg, &d, e, out);
}

pub fn fmt_f32(v: f32, out: &mut Vec<u8>) {
    if v.is_nan() {
        out.extend_from_slice(b"NaN");
        return;
    }
    if v.is_infinite() {
        out.extend_from_slice(if v > 0.0 { b"+Inf" } else { b"-Inf" });
        return;
    }
    let neg = v.is_sign_negative();
    let a = v.abs();
    if a == 0.0 {
        if neg {
            out.push(b'-');
        }
        out.push(b'0');
        return;
    }
    let s = format!("{:e}", a);
    let (d, e) = shortest_digits(&s);
    format_g(neg, &d, e, out);
}

/// builtin print/println float format: +1.500000e+000
pub fn fmt_builtin_float(v: f64, out: &mut Vec<u8>) {
    if v.is_nan() {
        out.extend_from_slice(b"NaN");
        return;
    }
    if v.is_infinite() {
        out.extend_from_slice(if v > 0.0 { b"+Inf" } else { b"-Inf" });
        return;
    }
    let s = format!("{:.6e}", v.abs());
    let (mant, exp) = s.split_once('e').unwrap_or((&s, "0"));
    let e: i32 = exp.parse().unwrap_or(0);
    out.push(if v.is_sign_negative() { b'-' } else { b'+' });
    out.extend_from_slice(mant.as_bytes());
    out.push(b'e');
    out.push(if e < 0 { b'-' } else { b'+' });
    out.extend_from_slice(format!("{:03}", e.abs()).as_bytes());
}

pub fn fmt_int(kind: IntKind, v: i64, out: &mut Vec<u8>) {
    if kind.is_u64() {
        out.extend_from_slice((v as u64).to_string().as_bytes());
    } else {
        out.extend_from_slice(v.to_string().as_bytes());
    }
}

enum Printable {
    Yes,
    No,
    Unknown,
}

fn is_print(c: char) -> Printable {
    let u = c as u32;
    if u < 0x80 {
        return if (0x20..=0x7e).contains(&u) { Printable::Yes } else { Printable::No };
    }
    if c.is_control() {
        return Printable::No;
    }
    match u {
        0xA0 | 0xAD | 0x1680 | 0x2000..=0x200F | 0x2028..=0x202F | 0x205F..=0x206F | 0x3000 | 0xFEFF
        | 0xFFF9..=0xFFFB => return Printable::No,
        0xE000..=0xF8FF | 0xF0000..=0x10FFFF => return Printable::No, // private use
        0xFFFE | 0xFFFF => return Printable::No,
        _ => {}
    }
    match u {
        0xA1..=0xAC | 0xAE..=0xBF | 0xD7 | 0xF7 => return Printable::Yes,
        0x2010..=0x2027 | 0x2030..=0x205E => return Printable::Yes,
        0x20A0..=0x20BF => return Printable::Yes,
        0x2190..=0x21FF | 0x2200..=0x22FF | 0x2500..=0x257F | 0x25A0..=0x25FF | 0x2600..=0x26FF => {
            return Printable::Yes
        }
        0x1F300..=0x1F5FF | 0x1F600..=0x1F64F => return Printable::Yes,
        _ => {}
    }
    // letters / digits in well-established blocks
    if (c.is_alphabetic() || c.is_numeric()) && u < 0x3400 {
        // Rust's tables may be newer than Go's; restrict to old, stable blocks
        match u {
            0xC0..=0x24F | 0x370..=0x3FF | 0x400..=0x4FF | 0x5D0..=0x5EA | 0x620..=0x64A | 0x3041..=0x3096
            | 0x30A1..=0x30FA => {
                if c.is_alphabetic() && !matches!(u, 0x378 | 0x379 | 0x380..=0x383 | 0x38B | 0x38D | 0x3A2) {
                    return Printable::Yes;
                }
            }
            _ => {}
        }
        return Printable::Unknown;
    }
    match u {
        0x4E00..=0x9FA5 | 0xAC00..=0xD7A3 => Printable::Yes,
        _ => Printable::Unknown,
    }
}

/// strconv.Quote
pub fn quote(s: &[u8], out: &mut Vec<u8>) -> Result<(), String> {
    const HEX: &[u8; 16] = b"0123456789abcdef";
    out.push(b'"');
    let mut i = 0;
    while i < s.len() {
        let b = s[i];
        if b < 0x80 {
            i += 1;
            match b {
                b'"' => out.extend_from_slice(b"\\\""),
                b'\\' => out.extend_from_slice(b"\\\\"),
                7 => out.extend_from_slice(b"\\a"),
                8 => out.extend_from_slice(b"\\b"),
                12 => out.extend_from_slice(b"\\f"),
                b'\n' => out.extend_from_slice(b"\\n"),
                b'\r' => out.extend_from_slice(b"\\r"),
                b'\t' => out.extend_from_slice(b"\\t"),
                11 => out.extend_from_slice(b"\\v"),
                0x20..=0x7e => out.push(b),
                _ => {
                    out.extend_from_slice(b"\\x");
                    out.push(HEX[(b >> 4) as usize]);
                    out.push(HEX[(b & 15) as usize]);
                }
            }
            continue;
        }
        // decode one UTF-8 sequence
        let width = match b {
            0xC2..=0xDF => 2,
            0xE0..=0xEF => 3,
            0xF0..=0xF4 => 4,
            _ => 0,
        };
        let decoded = if width > 0 && i + width <= s.len() {
            std::str::from_utf8(&s[i..i + width]).ok().and_then(|t| t.chars().next())
        } else {
            None
        };
        match decoded {
            None => {
                // invalid byte
                out.extend_from_slice(b"\\x");
                out.push(HEX[(b >> 4) as usize]);
                out.push(HEX[(b & 15) as usize]);
                i += 1;
            }
            Some(c) => {
                i += width;
                if c == '\u{fffd}' {
                    // valid encoding of U+FFFD: printable symbol
                    out.extend_from_slice("\u{fffd}".as_bytes());
                    continue;
                }
                match is_print(c) {
                    Printable::Yes => {
                        let mut buf = [0u8; 4];
                        out.extend_from_slice(c.encode_utf8(&mut buf).as_bytes());
                    }
                    Printable::No => {
                        let u = c as u32;
                        if u < 0x10000 {
                            out.extend_from_slice(format!("\\u{:04x}", u).as_bytes());
                        } else {
                            out.extend_from_slice(format!("\\U{:08x}", u).as_bytes());
                        }
                    }
                    Printable::Unknown => return Err(format!("%q rune U+{:04X}", c as u32)),
                }
            }
        }
    }
    out.push(b'"');
    Ok(())
}

/// strconv.QuoteToASCII: as `quote`, but every non-ASCII rune is written \uXXXX / \UXXXXXXXX
pub fn quote_ascii(s: &[u8], out: &mut Vec<u8>) -> Result<(), String> {
    let mut tmp = Vec::new();
    // ASCII part and invalid bytes exactly as quote() does; printable non-ASCII runes escaped
    match std::str::from_utf8(s) {
        Ok(text) => {
            out.push(b'"');
            for c in text.chars() {
                if (c as u32) < 0x80 {
                    tmp.clear();
                    let mut b = [0u8; 4];
                    quote(c.encode_utf8(&mut b).as_bytes(), &mut tmp)?;
                    out.extend_from_slice(&tmp[1..tmp.len() - 1]);
                } else if (c as u32) < 0x10000 {
                    out.extend_from_slice(format!("\\u{:04x}", c as u32).as_bytes());
                } else {
                    out.extend_from_slice(format!("\\U{:08x}", c as u32).as_bytes());
                }
            }
            out.push(b'"');
            Ok(())
        }
        Err(_) => Err("%+q of invalid utf-8".into()),
    }
}

#[derive(Clone, Copy, PartialEq)]
enum ArgKind {
    Str,
    Int,
    Bool,
    Float,
    Other,
}

fn arg_kind(types: &TypeTable, v: &Value) -> (ArgKind, TypeId) {
    match v {
        Value::Iface(t, inner) => {
            let k = match (types.under(*t), &inner.0) {
                (TypeData::String, Value::Str(_)) => ArgKind::Str,
                (TypeData::Int(_), Value::Int(_)) => ArgKind::Int,
                (TypeData::Bool, Value::Bool(_)) => ArgKind::Bool,
                (TypeData::Float32, Value::F32(_)) | (TypeData::Float64, Value::F64(_)) => ArgKind::Float,
                _ => ArgKind::Other,
            };
            // named types with basic underlying are not modelled; only predeclared types reach here
            (k, *t)
        }
        _ => (ArgKind::Other, 0),
    }
}

/// %v of a supported argument
fn fmt_v(types: &TypeTable, v: &Value, out: &mut Vec<u8>) -> Result<(), String> {
    match v {
        Value::Iface(t, inner) => match (types.under(*t), &inner.0) {
            (TypeData::String, Value::Str(s)) => out.extend_from_slice(s),
            (TypeData::Int(k), Value::Int(i)) => fmt_int(*k, *i, out),
            (TypeData::Bool, Value::Bool(b)) => out.extend_from_slice(if *b { b"true" } else { b"false" }),
            (TypeData::Float32, Value::F32(f)) => fmt_f32(*f, out),
            (TypeData::Float64, Value::F64(f)) => fmt_f64(*f, out),
            _ => return Err(format!("fmt %v of {}", types.runtime_type_string(*t))),
        },
        Value::Nil => return Err("fmt %v of nil".into()),
        _ => return Err("fmt %v of non-interface".into()),
    }
    Ok(())
}

pub fn fmt_print(types: &TypeTable, args: &[Value], newline: bool, out: &mut Vec<u8>) -> Result<(), String> {
    let mut prev_string = true;
    for (i, a) in args.iter().enumerate() {
        let (k, _) = arg_kind(types, a);
        if k == ArgKind::Other {
            return Err("fmt.Print argument kind".into());
        }
        let is_string = k == ArgKind::Str;
        if i > 0 && (newline || (!is_string && !prev_string)) {
            out.push(b' ');
        }
        fmt_v(types, a, out)?;
        prev_string = is_string;
    }
    if newline {
        out.push(b'\n');
    }
    Ok(())
}

fn bad_verb(types: &TypeTable, verb: char, a: &Value, out: &mut Vec<u8>) -> Result<(), String> {
    let (_, t) = arg_kind(types, a);
    out.extend_from_slice(b"%!");
    let mut buf = [0u8; 4];
    out.extend_from_slice(verb.encode_utf8(&mut buf).as_bytes());
    out.push(b'(');
    out.extend_from_slice(types.runtime_type_string(t).as_bytes());
    out.push(b'=');
    fmt_v(types, a, out)?;
    out.push(b')');
    Ok(())
}

pub fn sprintf(types: &TypeTable, format: &[u8], args: &[Value]) -> Result<Vec<u8>, String> {
    let mut out = Vec::with_capacity(format.len() + 16);
    let mut argi = 0;
    let mut i = 0;
    while i < format.len() {
        let b = format[i];
        if b != b'%' {
            out.push(b);
            i += 1;
            continue;
        }
        i += 1;
        if i >= format.len() {
            out.extend_from_slice(b"%!(NOVERB)");
            break;
        }
        // the `+` flag (only with %q: strconv.QuoteToASCII)
        let plus = format[i] == b'+';
        if plus {
            i += 1;
            if i >= format.len() {
                out.extend_from_slice(b"%!(NOVERB)");
                break;
            }
        }
        // decode verb (may be multi-byte)
        let rest = &format[i..];
        let verb = match std::str::from_utf8(&rest[..rest.len().min(4)]) {
            Ok(s) => s.chars().next(),
            Err(e) => std::str::from_utf8(&rest[..e.valid_up_to()]).ok().and_then(|s| s.chars().next()),
        };
        let Some(verb) = verb else { return Err("sprintf: invalid utf-8 verb".into()) };
        i += verb.len_utf8();
        if verb == '%' {
            out.push(b'%');
            continue;
        }
        if !matches!(verb, 'd' | 'v' | 's' | 'q' | 't') {
            return Err(format!("sprintf verb %{}", verb));
        }
        if plus && verb != 'q' {
            return Err(format!("sprintf verb %+{}", verb));
        }
        if argi >= args.len() {
            out.extend_from_slice(b"%!");
            out.push(verb as u8);
            out.extend_from_slice(b"(MISSING)");
            continue;
        }
        let a = &args[argi];
        argi += 1;
        let (k, _) = arg_kind(types, a);
        if k == ArgKind::Other {
            return Err("sprintf argument kind".into());
        }
        match verb {
            'v' => fmt_v(types, a, &mut out)?,
            'd' => match k {
                ArgKind::Int => fmt_v(types, a, &mut out)?,
                _ => bad_verb(types, verb, a, &mut out)?,
            },
            's' => match k {
                ArgKind::Str => fmt_v(types, a, &mut out)?,
                _ => bad_verb(types, verb, a, &mut out)?,
            },
            't' => match k {
                ArgKind::Bool => fmt_v(types, a, &mut out)?,
                _ => bad_verb(types, verb, a, &mut out)?,
            },
            'q' => match (k, a) {
                (ArgKind::Str, Value::Iface(_, inner)) => {
                    if let Value::Str(s) = &inner.0 {
                        if plus {
                            quote_ascii(s, &mut out)?;
                        } else {
                            quote(s, &mut out)?;
                        }
                    }
                }
                (ArgKind::Int, _) => return Err("sprintf %q of integer".into()),
                _ => bad_verb(types, verb, a, &mut out)?,
            },
            _ => return Err(format!("sprintf verb %{}", verb)),
        }
    }
    if argi < args.len() {
        out.extend_from_slice(b"%!(EXTRA ");
        for (j, a) in args[argi..].iter().enumerate() {
            if j > 0 {
                out.extend_from_slice(b", ");
            }
            let (k, t) = arg_kind(types, a);
            if k == ArgKind::Other {
                return Err("sprintf argument kind".into());
            }
            out.extend_from_slice(types.runtime_type_string(t).as_bytes());
            out.push(b'=');
            fmt_v(types, a, &mut out)?;
        }
        out.push(b')');
    }
    Ok(out)
}
