//! IR -> stack bytecode.

use crate::ir::*;
use crate::lex::Pos;
use crate::types::{TypeId, TypeTable};
use crate::GoError;
use std::collections::HashMap;

#[derive(Clone, Debug)]
pub enum Op {
    /// statement boundary: counts one step
    Stmt,
    Const(u32),
    Int(i64),
    Bool(bool),
    Nil,
    Load(u32),
    Store(u32),
    LoadFields(u32, u32),
    IndexLocal(u32, SeqKind),
    Pop,
    Neg(NumKind),
    Not,
    Arith(ArithOp, NumKind),
    Cmp(CmpOp, NumKind),
    Eq(bool),
    Jump(u32),
    JumpIfFalse(u32),
    JumpIfTrue(u32),
    Call(u32, u32),
    CallValue(u32),
    CallIface(u32, u32),
    Go(u32, u32),
    GoValue(u32),
    GoIface(u32, u32),
    Ret,
    RetVal,
    Len(SeqKind),
    Append(u32, u32),
    Panic,
    Print(bool, u32),
    FmtPrint(bool, u32),
    Sprintf(u32),
    Conv(ConvKind),
    MkIface(TypeId),
    Field(u32),
    PtrField(u32),
    Deref,
    Index(SeqKind),
    MakeStruct(u32),
    MakeArray(u32, u32),
    MakeSlice(u32),
    AddrOf,
    TypeAssert(TypeId, bool),
    StorePath(u32),
    /// peek interface on top of stack; if no case matches jump to target
    TypeCase(u32, u32),
    /// store (a copy of) the top of stack into slot; bool = unwrap the interface first
    Bind(u32, bool),
    /// ran off the end of a function with a result (cannot happen after checking)
    Trap,
}

#[derive(Clone, Debug)]
pub enum RootK {
    Local(u32),
    Ptr,
    SliceElem,
}

#[derive(Clone, Debug)]
pub enum StepK {
    Field(u32),
    Index,
}

#[derive(Clone, Debug)]
pub struct StoreDesc {
    pub root: RootK,
    pub steps: Vec<StepK>,
    pub nindex: u32,
}

#[derive(Clone, Debug)]
pub struct StructDesc {
    pub zero: u32,
    pub fields: Vec<u32>,
}

#[derive(Clone, Debug)]
pub struct ArrayDesc {
    pub len: u64,
    pub zero_elem: u32,
}

#[derive(Clone, Debug)]
pub struct AppendDesc {
    pub elem_size: u64,
    pub zero: u32,
}

#[derive(Clone, Debug)]
pub struct FuncCode {
    pub name: String,
    pub nparams: u32,
    pub nlocals: u32,
    pub has_result: bool,
    pub ops: Vec<Op>,
}

#[derive(Debug)]
pub struct Code {
    pub funcs: Vec<FuncCode>,
    pub consts: Vec<K>,
    pub paths: Vec<Vec<u32>>,
    pub stores: Vec<StoreDesc>,
    pub structs: Vec<StructDesc>,
    pub arrays: Vec<ArrayDesc>,
    pub appends: Vec<AppendDesc>,
    pub prints: Vec<Vec<TypeId>>,
    pub tcases: Vec<Vec<TCase>>,
    pub names: Vec<String>,
    /// (concrete type, method name index) -> function
    pub methods: HashMap<(TypeId, u32), u32>,
    pub types: TypeTable,
    pub main: u32,
}

struct LoopCtx {
    is_loop: bool,
    breaks: Vec<usize>,
    continues: Vec<usize>,
}

struct Gen<'a> {
    code: &'a mut Code,
    ops: Vec<Op>,
    ctx: Vec<LoopCtx>,
    name_idx: &'a mut HashMap<String, u32>,
}

impl<'a> Gen<'a> {
    fn konst(&mut self, k: &K) -> Op {
        match k {
            K::Int(i) => Op::Int(*i),
            K::Bool(b) => Op::Bool(*b),
            K::Nil => Op::Nil,
            _ => Op::Const(self.add_const(k)),
        }
    }

    fn add_const(&mut self, k: &K) -> u32 {
        // small linear dedup for short constants would be O(n^2); just append
        self.code.consts.push(k.clone());
        (self.code.consts.len() - 1) as u32
    }

    fn name(&mut self, n: &str) -> u32 {
        if let Some(&i) = self.name_idx.get(n) {
            return i;
        }
        let i = self.code.names.len() as u32;
        self.code.names.push(n.to_string());
        self.name_idx.insert(n.to_string(), i);
        i
    }

    fn here(&self) -> u32 {
        self.ops.len() as u32
    }

    fn emit(&mut self, op: Op) -> usize {
        self.ops.push(op);
        self.ops.len() - 1
    }

    fn patch(&mut self, at: usize, target: u32) {
        match &mut self.ops[at] {
            Op::Jump(t) | Op::JumpIfFalse(t) | Op::JumpIfTrue(t) => *t = target,
            Op::TypeCase(_, t) => *t = target,
            _ => {}
        }
    }

    fn expr(&mut self, e: &E) {
        match e {
            E::Const(k) => {
                let op = self.konst(k);
                self.emit(op);
            }
            E::Local(s) => {
                self.emit(Op::Load(*s));
            }
            E::Neg(nk, x) => {
                self.expr(x);
                self.emit(Op::Neg(*nk));
            }
            E::Not(x) => {
                self.expr(x);
                self.emit(Op::Not);
            }
            E::Arith(op, nk, l, r) => {
                self.expr(l);
                self.expr(r);
                self.emit(Op::Arith(*op, *nk));
            }
            E::Cmp(op, nk, l, r) => {
                self.expr(l);
                self.expr(r);
                self.emit(Op::Cmp(*op, *nk));
            }
            E::Eq { neg, l, r } => {
                self.expr(l);
                self.expr(r);
                self.emit(Op::Eq(*neg));
            }
            E::And(l, r) => {
                self.expr(l);
                let j = self.emit(Op::JumpIfFalse(0));
                self.expr(r);
                let j2 = self.emit(Op::Jump(0));
                let h = self.here();
                self.patch(j, h);
                self.emit(Op::Bool(false));
                let h = self.here();
                self.patch(j2, h);
            }
            E::Or(l, r) => {
                self.expr(l);
                let j = self.emit(Op::JumpIfTrue(0));
                self.expr(r);
                let j2 = self.emit(Op::Jump(0));
                let h = self.here();
                self.patch(j, h);
                self.emit(Op::Bool(true));
                let h = self.here();
                self.patch(j2, h);
            }
            E::Call { callee, args } => self.call(callee, args, false),
            E::Len(k, x) => {
                self.expr(x);
                self.emit(Op::Len(*k));
            }
            E::Append { slice, elems, elem_size, zero } => {
                self.expr(slice);
                for x in elems {
                    self.expr(x);
                }
                let z = self.add_const(zero);
                self.code.appends.push(AppendDesc { elem_size: *elem_size, zero: z });
                let d = (self.code.appends.len() - 1) as u32;
                self.emit(Op::Append(elems.len() as u32, d));
            }
            E::Panic(x) => {
                self.expr(x);
                self.emit(Op::Panic);
            }
            E::Print { newline, args } => {
                for (_, x) in args {
                    self.expr(x);
                }
                self.code.prints.push(args.iter().map(|(t, _)| *t).collect());
                let d = (self.code.prints.len() - 1) as u32;
                self.emit(Op::Print(*newline, d));
            }
            E::FmtPrint { newline, args } => {
                for x in args {
                    self.expr(x);
                }
                self.emit(Op::FmtPrint(*newline, args.len() as u32));
            }
            E::Sprintf { format, args } => {
                self.expr(format);
                for x in args {
                    self.expr(x);
                }
                self.emit(Op::Sprintf(args.len() as u32));
            }
            E::Conv(k, x) => {
                self.expr(x);
                self.emit(Op::Conv(*k));
            }
            E::MkIface(t, x) => {
                self.expr(x);
                self.emit(Op::MkIface(*t));
            }
            E::Field(x, idx) => {
                // chain of fields rooted at a local?
                let mut path = vec![*idx];
                let mut cur: &E = x;
                loop {
                    match cur {
                        E::Field(inner, i) => {
                            path.push(*i);
                            cur = inner;
                        }
                        E::Local(slot) => {
                            path.reverse();
                            self.code.paths.push(path);
                            let p = (self.code.paths.len() - 1) as u32;
                            self.emit(Op::LoadFields(*slot, p));
                            return;
                        }
                        _ => break,
                    }
                }
                self.expr(x);
                self.emit(Op::Field(*idx));
            }
            E::PtrField(x, idx) => {
                self.expr(x);
                self.emit(Op::PtrField(*idx));
            }
            E::Deref(x) => {
                self.expr(x);
                self.emit(Op::Deref);
            }
            E::Index(k, x, i) => {
                if let E::Local(slot) = &**x {
                    self.expr(i);
                    self.emit(Op::IndexLocal(*slot, *k));
                } else {
                    self.expr(x);
                    self.expr(i);
                    self.emit(Op::Index(*k));
                }
            }
            E::StructLit { zero, inits } => {
                for (_, x) in inits {
                    self.expr(x);
                }
                let z = self.add_const(zero);
                self.code.structs.push(StructDesc { zero: z, fields: inits.iter().map(|(i, _)| *i).collect() });
                let d = (self.code.structs.len() - 1) as u32;
                self.emit(Op::MakeStruct(d));
            }
            E::ArrayLit { len, zero_elem, elems } => {
                for x in elems {
                    self.expr(x);
                }
                let z = self.add_const(zero_elem);
                self.code.arrays.push(ArrayDesc { len: *len, zero_elem: z });
                let d = (self.code.arrays.len() - 1) as u32;
                self.emit(Op::MakeArray(elems.len() as u32, d));
            }
            E::SliceLit { elems } => {
                for x in elems {
                    self.expr(x);
                }
                self.emit(Op::MakeSlice(elems.len() as u32));
            }
            E::AddrOf(x) => {
                self.expr(x);
                self.emit(Op::AddrOf);
            }
            E::TypeAssert { x, ty, to_iface } => {
                self.expr(x);
                self.emit(Op::TypeAssert(*ty, *to_iface));
            }
        }
    }

    fn call(&mut self, callee: &Callee, args: &[E], go: bool) {
        let n = args.len() as u32;
        match callee {
            Callee::Static(i) => {
                for a in args {
                    self.expr(a);
                }
                self.emit(if go { Op::Go(*i, n) } else { Op::Call(*i, n) });
            }
            Callee::Value(f) => {
                self.expr(f);
                for a in args {
                    self.expr(a);
                }
                self.emit(if go { Op::GoValue(n) } else { Op::CallValue(n) });
            }
            Callee::Iface(name) => {
                for a in args {
                    self.expr(a);
                }
                let ni = self.name(name);
                self.emit(if go { Op::GoIface(ni, n) } else { Op::CallIface(ni, n) });
            }
        }
    }

    fn stmts(&mut self, list: &[S]) {
        for s in list {
            self.stmt(s);
        }
    }

    fn stmt(&mut self, s: &S) {
        match s {
            S::Block(b) => self.stmts(b),
            S::Expr { e, has_value } => {
                self.emit(Op::Stmt);
                self.expr(e);
                if *has_value {
                    self.emit(Op::Pop);
                }
            }
            S::Go { callee, args } => {
                self.emit(Op::Stmt);
                self.call(callee, args, true);
            }
            S::Assign { lv, e } => {
                self.emit(Op::Stmt);
                match lv {
                    LV::Blank => {
                        self.expr(e);
                        self.emit(Op::Pop);
                    }
                    LV::Local(slot) => {
                        self.expr(e);
                        self.emit(Op::Store(*slot));
                    }
                    LV::Path { root, steps } => {
                        let rk = match root {
                            Root::Local(s) => RootK::Local(*s),
                            Root::Ptr(p) => {
                                self.expr(p);
                                RootK::Ptr
                            }
                            Root::SliceElem { slice, idx } => {
                                self.expr(slice);
                                self.expr(idx);
                                RootK::SliceElem
                            }
                        };
                        let mut sk = Vec::with_capacity(steps.len());
                        let mut nindex = 0;
                        for st in steps {
                            match st {
                                Step::Field(i) => sk.push(StepK::Field(*i)),
                                Step::Index(x) => {
                                    self.expr(x);
                                    nindex += 1;
                                    sk.push(StepK::Index);
                                }
                            }
                        }
                        self.expr(e);
                        self.code.stores.push(StoreDesc { root: rk, steps: sk, nindex });
                        let d = (self.code.stores.len() - 1) as u32;
                        self.emit(Op::StorePath(d));
                    }
                }
            }
            S::Return(e) => {
                self.emit(Op::Stmt);
                match e {
                    Some(e) => {
                        self.expr(e);
                        self.emit(Op::RetVal);
                    }
                    None => {
                        self.emit(Op::Ret);
                    }
                }
            }
            S::If { cond, then, els } => {
                self.emit(Op::Stmt);
                self.expr(cond);
                let j = self.emit(Op::JumpIfFalse(0));
                self.stmts(then);
                if els.is_empty() {
                    let h = self.here();
                    self.patch(j, h);
                } else {
                    let j2 = self.emit(Op::Jump(0));
                    let h = self.here();
                    self.patch(j, h);
                    self.stmts(els);
                    let h = self.here();
                    self.patch(j2, h);
                }
            }
            S::Loop { cond, post, body } => {
                let start = self.here();
                self.emit(Op::Stmt);
                let mut exit = None;
                if let Some(c) = cond {
                    self.expr(c);
                    exit = Some(self.emit(Op::JumpIfFalse(0)));
                }
                self.ctx.push(LoopCtx { is_loop: true, breaks: Vec::new(), continues: Vec::new() });
                self.stmts(body);
                let ctx = self.ctx.pop().unwrap();
                let cont = self.here();
                self.stmts(post);
                self.emit(Op::Jump(start));
                let end = self.here();
                if let Some(x) = exit {
                    self.patch(x, end);
                }
                for b in ctx.breaks {
                    self.patch(b, end);
                }
                for c in ctx.continues {
                    self.patch(c, cont);
                }
            }
            S::Break => {
                self.emit(Op::Stmt);
                let j = self.emit(Op::Jump(0));
                if let Some(c) = self.ctx.last_mut() {
                    c.breaks.push(j);
                }
            }
            S::Continue => {
                self.emit(Op::Stmt);
                let j = self.emit(Op::Jump(0));
                if let Some(c) = self.ctx.iter_mut().rev().find(|c| c.is_loop) {
                    c.continues.push(j);
                }
            }
            S::Switch { clauses, default } => {
                self.emit(Op::Stmt);
                let mut body_jumps: Vec<Vec<usize>> = Vec::new();
                for c in clauses {
                    let mut js = Vec::new();
                    for cond in &c.conds {
                        self.expr(cond);
                        js.push(self.emit(Op::JumpIfTrue(0)));
                    }
                    body_jumps.push(js);
                }
                let to_default = self.emit(Op::Jump(0));
                self.ctx.push(LoopCtx { is_loop: false, breaks: Vec::new(), continues: Vec::new() });
                let mut end_jumps = Vec::new();
                for (c, js) in clauses.iter().zip(body_jumps) {
                    let h = self.here();
                    for j in js {
                        self.patch(j, h);
                    }
                    self.stmts(&c.body);
                    end_jumps.push(self.emit(Op::Jump(0)));
                }
                let h = self.here();
                self.patch(to_default, h);
                if let Some(d) = default {
                    self.stmts(d);
                }
                let ctx = self.ctx.pop().unwrap();
                let end = self.here();
                for j in end_jumps {
                    self.patch(j, end);
                }
                for b in ctx.breaks {
                    self.patch(b, end);
                }
                // `continue` inside a switch belongs to the enclosing loop
                if let Some(outer) = self.ctx.iter_mut().rev().find(|c| c.is_loop) {
                    outer.continues.extend(ctx.continues);
                }
            }
            S::TypeSwitch { x, clauses, default } => {
                self.emit(Op::Stmt);
                self.expr(x);
                self.ctx.push(LoopCtx { is_loop: false, breaks: Vec::new(), continues: Vec::new() });
                let mut end_jumps = Vec::new();
                for c in clauses {
                    self.code.tcases.push(c.cases.clone());
                    let d = (self.code.tcases.len() - 1) as u32;
                    let tc = self.emit(Op::TypeCase(d, 0));
                    if let Some((slot, unwrap)) = c.bind {
                        self.emit(Op::Bind(slot, unwrap));
                    }
                    self.emit(Op::Pop);
                    self.stmts(&c.body);
                    end_jumps.push(self.emit(Op::Jump(0)));
                    let h = self.here();
                    self.patch(tc, h);
                }
                match default {
                    Some((bind, body)) => {
                        if let Some(slot) = bind {
                            self.emit(Op::Bind(*slot, false));
                        }
                        self.emit(Op::Pop);
                        self.stmts(body);
                    }
                    None => {
                        self.emit(Op::Pop);
                    }
                }
                let ctx = self.ctx.pop().unwrap();
                let end = self.here();
                for j in end_jumps {
                    self.patch(j, end);
                }
                for b in ctx.breaks {
                    self.patch(b, end);
                }
                if let Some(outer) = self.ctx.iter_mut().rev().find(|c| c.is_loop) {
                    outer.continues.extend(ctx.continues);
                }
            }
        }
    }
}

pub fn generate(checked: Checked) -> Result<Code, GoError> {
    let Checked { types, funcs, main, .. } = checked;
    let mut code = Code {
        funcs: Vec::with_capacity(funcs.len()),
        consts: Vec::new(),
        paths: Vec::new(),
        stores: Vec::new(),
        structs: Vec::new(),
        arrays: Vec::new(),
        appends: Vec::new(),
        prints: Vec::new(),
        tcases: Vec::new(),
        names: Vec::new(),
        methods: HashMap::new(),
        types,
        main,
    };
    let mut name_idx: HashMap<String, u32> = HashMap::new();
    for f in &funcs {
        let mut g = Gen { code: &mut code, ops: Vec::new(), ctx: Vec::new(), name_idx: &mut name_idx };
        g.stmts(&f.body);
        if f.has_result {
            g.emit(Op::Trap);
        } else {
            g.emit(Op::Ret);
        }
        let ops = g.ops;
        if ops.len() > (u32::MAX / 2) as usize {
            return Err(GoError::unsupported(Pos::default(), "function-too-large"));
        }
        code.funcs.push(FuncCode {
            name: f.name.clone(),
            nparams: f.nparams,
            nlocals: f.nlocals.max(f.nparams),
            has_result: f.has_result,
            ops,
        });
    }
    // method table
    let mut entries = Vec::new();
    for (id, d) in code.types.data.iter().enumerate() {
        if let crate::types::TypeData::Named(n) = d {
            for m in &code.types.named[*n as usize].methods {
                entries.push((id as TypeId, m.name.clone(), m.func));
            }
        }
    }
    for (tid, name, func) in entries {
        let ni = match name_idx.get(&name) {
            Some(&i) => i,
            None => {
                let i = code.names.len() as u32;
                code.names.push(name.clone());
                name_idx.insert(name, i);
                i
            }
        };
        code.methods.insert((tid, ni), func);
    }
    Ok(code)
}
