//! Go tokeniser with automatic semicolon insertion.

use crate::{ErrKind, GoError};

#[derive(Debug, Clone, Copy, PartialEq, Eq, Default)]
pub struct Pos {
    pub line: u32,
    pub col: u32,
}

#[derive(Debug, Clone, PartialEq)]
pub enum Tok {
    Ident(String),
    Int(String),
    Float(String),
    Char(u32),
    Str(Vec<u8>),
    // keywords
    Break,
    Case,
    Chan,
    Const,
    Continue,
    Default,
    Defer,
    Else,
    Fallthrough,
    For,
    Func,
    Go,
    Goto,
    If,
    Import,
    Interface,
    Map,
    Package,
    Range,
    Return,
    Select,
    Struct,
    Switch,
    Type,
    Var,
    // operators / punctuation
    Add,      // +
    Sub,      // -
    Mul,      // *
    Quo,      // /
    Rem,      // %
    And,      // &
    Or,       // |
    Xor,      // ^
    Shl,      // <<
    Shr,      // >>
    AndNot,   // &^
    AssignOp(Box<Tok>), // += -= etc: the underlying binary operator
    LAnd,     // &&
    LOr,      // ||
    Arrow,    // <-
    Inc,      // ++
    Dec,      // --
    Eql,      // ==
    Lss,      // <
    Gtr,      // >
    Assign,   // =
    Not,      // !
    Tilde,    // ~
    Neq,      // !=
    Leq,      // <=
    Geq,      // >=
    Define,   // :=
    Ellipsis, // ...
    LParen,
    LBrack,
    LBrace,
    Comma,
    Period,
    RParen,
    RBrack,
    RBrace,
    /// `auto` is true when inserted automatically at a newline / EOF
    Semi { auto: bool },
    Colon,
    Eof,
}

impl Tok {
    pub fn describe(&self) -> String {
        match self {
            Tok::Ident(s) => format!("name {}", s),
            Tok::Int(s) | Tok::Float(s) => format!("literal {}", s),
            Tok::Char(_) => "rune literal".to_string(),
            Tok::Str(_) => "string literal".to_string(),
            Tok::Semi { auto: true } => "newline".to_string(),
            Tok::Semi { auto: false } => "semicolon".to_string(),
            Tok::Eof => "EOF".to_string(),
            Tok::Break => "keyword break".into(),
            Tok::Case => "keyword case".into(),
            Tok::Chan => "keyword chan".into(),
            Tok::Const => "keyword const".into(),
            Tok::Continue => "keyword continue".into(),
            Tok::Default => "keyword default".into(),
            Tok::Defer => "keyword defer".into(),
            Tok::Else => "keyword else".into(),
            Tok::Fallthrough => "keyword fallthrough".into(),
            Tok::For => "keyword for".into(),
            Tok::Func => "keyword func".into(),
            Tok::Go => "keyword go".into(),
            Tok::Goto => "keyword goto".into(),
            Tok::If => "keyword if".into(),
            Tok::Import => "keyword import".into(),
            Tok::Interface => "keyword interface".into(),
            Tok::Map => "keyword map".into(),
            Tok::Package => "keyword package".into(),
            Tok::Range => "keyword range".into(),
            Tok::Return => "keyword return".into(),
            Tok::Select => "keyword select".into(),
            Tok::Struct => "keyword struct".into(),
            Tok::Switch => "keyword switch".into(),
            Tok::Type => "keyword type".into(),
            Tok::Var => "keyword var".into(),
            Tok::Add => "+".into(),
            Tok::Sub => "-".into(),
            Tok::Mul => "*".into(),
            Tok::Quo => "/".into(),
            Tok::Rem => "%".into(),
            Tok::And => "&".into(),
            Tok::Or => "|".into(),
            Tok::Xor => "^".into(),
            Tok::Shl => "<<".into(),
            Tok::Shr => ">>".into(),
            Tok::AndNot => "&^".into(),
            Tok::AssignOp(t) => format!("{}=", t.describe()),
            Tok::LAnd => "&&".into(),
            Tok::LOr => "||".into(),
            Tok::Arrow => "<-".into(),
            Tok::Inc => "++".into(),
            Tok::Dec => "--".into(),
            Tok::Eql => "==".into(),
            Tok::Lss => "<".into(),
            Tok::Gtr => ">".into(),
            Tok::Assign => "=".into(),
            Tok::Not => "!".into(),
            Tok::Tilde => "~".into(),
            Tok::Neq => "!=".into(),
            Tok::Leq => "<=".into(),
            Tok::Geq => ">=".into(),
            Tok::Define => ":=".into(),
            Tok::Ellipsis => "...".into(),
            Tok::LParen => "(".into(),
            Tok::LBrack => "[".into(),
            Tok::LBrace => "{".into(),
            Tok::Comma => "comma".into(),
            Tok::Period => ".".into(),
            Tok::RParen => ")".into(),
            Tok::RBrack => "]".into(),
            Tok::RBrace => "}".into(),
            Tok::Colon => ":".into(),
        }
    }
}

#[derive(Debug, Clone)]
pub struct Token {
    pub tok: Tok,
    pub pos: Pos,
}

fn keyword(s: &str) -> Option<Tok> {
    Some(match s {
        "break" => Tok::Break,
        "case" => Tok::Case,
        "chan" => Tok::Chan,
        "const" => Tok::Const,
        "continue" => Tok::Continue,
        "default" => Tok::Default,
        "defer" => Tok::Defer,
        "else" => Tok::Else,
        "fallthrough" => Tok::Fallthrough,
        "for" => Tok::For,
        "func" => Tok::Func,
        "go" => Tok::Go,
        "goto" => Tok::Goto,
        "if" => Tok::If,
        "import" => Tok::Import,
        "interface" => Tok::Interface,
        "map" => Tok::Map,
        "package" => Tok::Package,
        "range" => Tok::Range,
        "return" => Tok::Return,
        "select" => Tok::Select,
        "struct" => Tok::Struct,
        "switch" => Tok::Switch,
        "type" => Tok::Type,
        "var" => Tok::Var,
        _ => return None,
    })
}

struct Lexer<'a> {
    src: &'a [u8],
    text: &'a str,
    i: usize,
    line: u32,
    col: u32,
    out: Vec<Token>,
}

/// Letters we are certain about (ASCII plus a few well-known Unicode letter ranges).
fn is_letter(c: char) -> bool {
    if c.is_ascii() {
        return c == '_' || c.is_ascii_alphabetic();
    }
    let u = c as u32;
    matches!(u,
        0xAA | 0xB5 | 0xBA
        | 0xC0..=0xD6 | 0xD8..=0xF6 | 0xF8..=0x24F
        | 0x391..=0x3A1 | 0x3A3..=0x3C9
        | 0x400..=0x45F
        | 0x3041..=0x3096 | 0x30A1..=0x30FA
        | 0x4E00..=0x9FA5
        | 0xAC00..=0xD7A3)
}

/// Unicode digit (category Nd) test.  Only ASCII digits are certain; other numerics are
/// treated as "unknown" by the caller.
fn is_ascii_digit(c: char) -> bool {
    c.is_ascii_digit()
}

impl<'a> Lexer<'a> {
    fn pos(&self) -> Pos {
        Pos { line: self.line, col: self.col }
    }
    fn err(&self, pos: Pos, msg: &str) -> GoError {
        GoError::new(ErrKind::Lex, pos, "syntax", msg.to_string())
    }
    #[inline]
    fn peek_char(&self) -> Option<char> {
        let b = *self.src.get(self.i)?;
        if b < 0x80 {
            Some(b as char)
        } else {
            self.text[self.i..].chars().next()
        }
    }
    fn peek_byte(&self, off: usize) -> u8 {
        *self.src.get(self.i + off).unwrap_or(&0)
    }
    fn at_end(&self) -> bool {
        self.i >= self.src.len()
    }
    #[inline]
    fn bump(&mut self) -> Option<char> {
        let c = self.peek_char()?;
        self.i += c.len_utf8();
        if c == '\n' {
            self.line += 1;
            self.col = 1;
        } else {
            // columns are byte based, like Go's
            self.col += c.len_utf8() as u32;
        }
        Some(c)
    }
    fn push(&mut self, tok: Tok, pos: Pos) {
        self.out.push(Token { tok, pos });
    }
    fn needs_semi(&self) -> bool {
        match self.out.last() {
            None => false,
            Some(t) => matches!(
                t.tok,
                Tok::Ident(_)
                    | Tok::Int(_)
                    | Tok::Float(_)
                    | Tok::Char(_)
                    | Tok::Str(_)
                    | Tok::Break
                    | Tok::Continue
                    | Tok::Fallthrough
                    | Tok::Return
                    | Tok::Inc
                    | Tok::Dec
                    | Tok::RParen
                    | Tok::RBrack
                    | Tok::RBrace
            ),
        }
    }

    fn run(&mut self) -> Result<(), GoError> {
        // optional BOM at the very start
        if self.text.starts_with('\u{feff}') {
            self.i += 3;
        }
        loop {
            // skip whitespace
            let mut saw_newline = false;
            let nl_pos;
            loop {
                match self.peek_byte(0) {
                    b' ' | b'\t' | b'\r' => {
                        self.i += 1;
                        self.col += 1;
                    }
                    b'\n' => {
                        saw_newline = true;
                        break;
                    }
                    _ => break,
                }
            }
            if saw_newline {
                nl_pos = self.pos();
                if self.needs_semi() {
                    self.push(Tok::Semi { auto: true }, nl_pos);
                }
                self.bump();
                continue;
            }
            if self.at_end() {
                let p = self.pos();
                if self.needs_semi() {
                    self.push(Tok::Semi { auto: true }, p);
                }
                self.push(Tok::Eof, p);
                return Ok(());
            }
            let pos = self.pos();
            let c = self.peek_char().unwrap();
            // comments
            if c == '/' && self.peek_byte(1) == b'/' {
                while !self.at_end() && self.peek_byte(0) != b'\n' {
                    self.bump();
                }
                continue;
            }
            if c == '/' && self.peek_byte(1) == b'*' {
                self.bump();
                self.bump();
                let mut had_nl = false;
                let mut closed = false;
                while !self.at_end() {
                    if self.peek_byte(0) == b'*' && self.peek_byte(1) == b'/' {
                        self.bump();
                        self.bump();
                        closed = true;
                        break;
                    }
                    if self.peek_byte(0) == b'\n' {
                        had_nl = true;
                    }
                    self.bump();
                }
                if !closed {
                    return Err(self.err(pos, "comment not terminated"));
                }
                if had_nl && self.needs_semi() {
                    self.push(Tok::Semi { auto: true }, pos);
                }
                continue;
            }
            if is_letter(c) {
                let start = self.i;
                while self.i < self.src.len() && (self.src[self.i].is_ascii_alphanumeric() || self.src[self.i] == b'_') {
                    self.i += 1;
                    self.col += 1;
                }
                while let Some(ch) = self.peek_char() {
                    if is_letter(ch) || is_ascii_digit(ch) {
                        self.bump();
                    } else if !ch.is_ascii() {
                        // unknown non-ASCII character inside an identifier: cannot tell whether
                        // Go treats it as letter/digit -> refuse to judge.
                        return Err(GoError::unsupported(pos, "non-ascii-character"));
                    } else {
                        break;
                    }
                }
                let s = &self.text[start..self.i];
                match keyword(s) {
                    Some(k) => self.push(k, pos),
                    None => self.push(Tok::Ident(s.to_string()), pos),
                }
                continue;
            }
            if c.is_ascii_digit() || (c == '.' && self.peek_byte(1).is_ascii_digit()) {
                self.number(pos)?;
                continue;
            }
            match c {
                '"' => {
                    self.bump();
                    let s = self.string_lit(pos)?;
                    self.push(Tok::Str(s), pos);
                }
                '`' => {
                    self.bump();
                    let mut s = Vec::new();
                    let mut closed = false;
                    while let Some(ch) = self.bump() {
                        if ch == '`' {
                            closed = true;
                            break;
                        }
                        if ch == '\r' {
                            continue;
                        }
                        let mut buf = [0u8; 4];
                        s.extend_from_slice(ch.encode_utf8(&mut buf).as_bytes());
                    }
                    if !closed {
                        return Err(self.err(pos, "string not terminated"));
                    }
                    self.push(Tok::Str(s), pos);
                }
                '\'' => {
                    self.bump();
                    let r = self.rune_lit(pos)?;
                    self.push(Tok::Char(r), pos);
                }
                _ => self.operator(c, pos)?,
            }
        }
    }

    fn operator(&mut self, c: char, pos: Pos) -> Result<(), GoError> {
        self.bump();
        let n = self.peek_byte(0);
        let eat = |l: &mut Lexer| {
            l.bump();
        };
        let tok = match c {
            '+' => {
                if n == b'+' {
                    eat(self);
                    Tok::Inc
                } else if n == b'=' {
                    eat(self);
                    Tok::AssignOp(Box::new(Tok::Add))
                } else {
                    Tok::Add
                }
            }
            '-' => {
                if n == b'-' {
                    eat(self);
                    Tok::Dec
                } else if n == b'=' {
                    eat(self);
                    Tok::AssignOp(Box::new(Tok::Sub))
                } else {
                    Tok::Sub
                }
            }
            '*' => {
                if n == b'=' {
                    eat(self);
                    Tok::AssignOp(Box::new(Tok::Mul))
                } else {
                    Tok::Mul
                }
            }
            '/' => {
                if n == b'=' {
                    eat(self);
                    Tok::AssignOp(Box::new(Tok::Quo))
                } else {
                    Tok::Quo
                }
            }
            '%' => {
                if n == b'=' {
                    eat(self);
                    Tok::AssignOp(Box::new(Tok::Rem))
                } else {
                    Tok::Rem
                }
            }
            '&' => {
                if n == b'&' {
                    eat(self);
                    Tok::LAnd
                } else if n == b'^' {
                    eat(self);
                    if self.peek_byte(0) == b'=' {
                        eat(self);
                        Tok::AssignOp(Box::new(Tok::AndNot))
                    } else {
                        Tok::AndNot
                    }
                } else if n == b'=' {
                    eat(self);
                    Tok::AssignOp(Box::new(Tok::And))
                } else {
                    Tok::And
                }
            }
            '|' => {
                if n == b'|' {
                    eat(self);
                    Tok::LOr
                } else if n == b'=' {
                    eat(self);
                    Tok::AssignOp(Box::new(Tok::Or))
                } else {
                    Tok::Or
                }
            }
            '^' => {
                if n == b'=' {
                    eat(self);
                    Tok::AssignOp(Box::new(Tok::Xor))
                } else {
                    Tok::Xor
                }
            }
            '<' => {
                if n == b'<' {
                    eat(self);
                    if self.peek_byte(0) == b'=' {
                        eat(self);
                        Tok::AssignOp(Box::new(Tok::Shl))
                    } else {
                        Tok::Shl
                    }
                } else if n == b'=' {
                    eat(self);
                    Tok::Leq
                } else if n == b'-' {
                    eat(self);
                    Tok::Arrow
                } else {
                    Tok::Lss
                }
            }
            '>' => {
                if n == b'>' {
                    eat(self);
                    if self.peek_byte(0) == b'=' {
                        eat(self);
                        Tok::AssignOp(Box::new(Tok::Shr))
                    } else {
                        Tok::Shr
                    }
                } else if n == b'=' {
                    eat(self);
                    Tok::Geq
                } else {
                    Tok::Gtr
                }
            }
            '=' => {
                if n == b'=' {
                    eat(self);
                    Tok::Eql
                } else {
                    Tok::Assign
                }
            }
            '!' => {
                if n == b'=' {
                    eat(self);
                    Tok::Neq
                } else {
                    Tok::Not
                }
            }
            ':' => {
                if n == b'=' {
                    eat(self);
                    Tok::Define
                } else {
                    Tok::Colon
                }
            }
            '.' => {
                if n == b'.' && self.peek_byte(1) == b'.' {
                    eat(self);
                    eat(self);
                    Tok::Ellipsis
                } else {
                    Tok::Period
                }
            }
            '~' => Tok::Tilde,
            '(' => Tok::LParen,
            ')' => Tok::RParen,
            '[' => Tok::LBrack,
            ']' => Tok::RBrack,
            '{' => Tok::LBrace,
            '}' => Tok::RBrace,
            ',' => Tok::Comma,
            ';' => Tok::Semi { auto: false },
            _ => {
                if !c.is_ascii() {
                    return Err(GoError::unsupported(pos, "non-ascii-character"));
                }
                return Err(self.err(pos, &format!("invalid character U+{:04X}", c as u32)));
            }
        };
        self.push(tok, pos);
        Ok(())
    }

    fn number(&mut self, pos: Pos) -> Result<(), GoError> {
        let start = self.i;
        let b0 = self.peek_byte(0);
        let b1 = self.peek_byte(1);
        if b0 == b'0' && matches!(b1, b'x' | b'X' | b'o' | b'O' | b'b' | b'B') {
            self.bump();
            self.bump();
            let dstart = self.i;
            while self.peek_byte(0).is_ascii_alphanumeric() || self.peek_byte(0) == b'_' || self.peek_byte(0) == b'.' {
                self.bump();
            }
            let digits = &self.text[dstart..self.i];
            if digits.contains('_') {
                return Err(GoError::unsupported(pos, "underscore-in-number"));
            }
            let radix = match b1 {
                b'x' | b'X' => 16,
                b'o' | b'O' => 8,
                _ => 2,
            };
            if radix == 16 && (digits.contains('.') || digits.contains('p') || digits.contains('P')) {
                return Err(GoError::unsupported(pos, "hex-float"));
            }
            if digits.is_empty() {
                return Err(self.err(pos, "number has no digits"));
            }
            if digits.ends_with('i') {
                return Err(GoError::unsupported(pos, "imaginary-literal"));
            }
            if !digits.chars().all(|c| c.is_digit(radix)) {
                return Err(self.err(pos, "invalid digit in number literal"));
            }
            let text = self.text[start..self.i].to_string();
            self.push(Tok::Int(text), pos);
            return Ok(());
        }
        // decimal int / float / legacy octal
        let mut is_float = false;
        while self.peek_byte(0).is_ascii_digit() || self.peek_byte(0) == b'_' {
            self.bump();
        }
        if self.peek_byte(0) == b'.' {
            is_float = true;
            self.bump();
            while self.peek_byte(0).is_ascii_digit() || self.peek_byte(0) == b'_' {
                self.bump();
            }
        }
        if matches!(self.peek_byte(0), b'e' | b'E') {
            is_float = true;
            self.bump();
            if matches!(self.peek_byte(0), b'+' | b'-') {
                self.bump();
            }
            if !self.peek_byte(0).is_ascii_digit() {
                return Err(self.err(pos, "exponent has no digits"));
            }
            while self.peek_byte(0).is_ascii_digit() || self.peek_byte(0) == b'_' {
                self.bump();
            }
        }
        let text = &self.text[start..self.i];
        if text.contains('_') {
            return Err(GoError::unsupported(pos, "underscore-in-number"));
        }
        if self.peek_byte(0) == b'i' {
            return Err(GoError::unsupported(pos, "imaginary-literal"));
        }
        if matches!(self.peek_byte(0), b'p' | b'P') {
            return Err(self.err(pos, "'p' exponent requires hexadecimal mantissa"));
        }
        if is_float {
            self.push(Tok::Float(text.to_string()), pos);
        } else {
            if text.len() > 1 && text.starts_with('0') {
                // legacy octal
                if !text.bytes().all(|b| (b'0'..=b'7').contains(&b)) {
                    return Err(self.err(pos, "invalid digit in octal literal"));
                }
            }
            self.push(Tok::Int(text.to_string()), pos);
        }
        Ok(())
    }

    fn hex_digits(&mut self, n: usize, pos: Pos) -> Result<u32, GoError> {
        let mut v: u32 = 0;
        for _ in 0..n {
            let b = self.peek_byte(0);
            let d = (b as char).to_digit(16);
            match d {
                Some(d) if !self.at_end() => {
                    v = v.wrapping_mul(16).wrapping_add(d);
                    self.bump();
                }
                _ => return Err(self.err(pos, "invalid character in escape sequence")),
            }
        }
        Ok(v)
    }

    /// parses an escape after the backslash; returns either a byte value (for \x and octal)
    /// or a rune.
    fn escape(&mut self, quote: char, pos: Pos) -> Result<(u32, bool /*is_byte*/), GoError> {
        let c = match self.bump() {
            Some(c) => c,
            None => return Err(self.err(pos, "escape sequence not terminated")),
        };
        Ok(match c {
            'a' => (7, false),
            'b' => (8, false),
            'f' => (12, false),
            'n' => (10, false),
            'r' => (13, false),
            't' => (9, false),
            'v' => (11, false),
            '\\' => (92, false),
            '\'' if quote == '\'' => (39, false),
            '"' if quote == '"' => (34, false),
            'x' => (self.hex_digits(2, pos)?, true),
            'u' => {
                let v = self.hex_digits(4, pos)?;
                if (0xD800..0xE000).contains(&v) {
                    return Err(self.err(pos, "escape is invalid Unicode code point"));
                }
                (v, false)
            }
            'U' => {
                let v = self.hex_digits(8, pos)?;
                if v > 0x10FFFF || (0xD800..0xE000).contains(&v) {
                    return Err(self.err(pos, "escape is invalid Unicode code point"));
                }
                (v, false)
            }
            '0'..='7' => {
                let mut v = c as u32 - '0' as u32;
                for _ in 0..2 {
                    let b = self.peek_byte(0);
                    if (b'0'..=b'7').contains(&b) {
                        v = v * 8 + (b - b'0') as u32;
                        self.bump();
                    } else {
                        return Err(self.err(pos, "invalid character in octal escape"));
                    }
                }
                if v > 255 {
                    return Err(self.err(pos, "octal escape value > 255"));
                }
                (v, true)
            }
            _ => return Err(self.err(pos, "unknown escape")),
        })
    }

    fn string_lit(&mut self, pos: Pos) -> Result<Vec<u8>, GoError> {
        let mut s = Vec::new();
        loop {
            let c = match self.peek_char() {
                Some(c) => c,
                None => return Err(self.err(pos, "string not terminated")),
            };
            if c == '\n' {
                return Err(self.err(pos, "newline in string"));
            }
            self.bump();
            if c == '"' {
                return Ok(s);
            }
            if c == '\\' {
                let (v, is_byte) = self.escape('"', pos)?;
                if is_byte {
                    s.push(v as u8);
                } else {
                    let ch = char::from_u32(v).unwrap_or('\u{fffd}');
                    let mut buf = [0u8; 4];
                    s.extend_from_slice(ch.encode_utf8(&mut buf).as_bytes());
                }
                continue;
            }
            if c == '\0' {
                return Err(self.err(pos, "invalid NUL character"));
            }
            let mut buf = [0u8; 4];
            s.extend_from_slice(c.encode_utf8(&mut buf).as_bytes());
        }
    }

    fn rune_lit(&mut self, pos: Pos) -> Result<u32, GoError> {
        let c = match self.peek_char() {
            Some(c) => c,
            None => return Err(self.err(pos, "rune literal not terminated")),
        };
        if c == '\n' {
            return Err(self.err(pos, "newline in rune literal"));
        }
        self.bump();
        let v = if c == '\'' {
            return Err(self.err(pos, "empty rune literal or unescaped ' in rune literal"));
        } else if c == '\\' {
            self.escape('\'', pos)?.0
        } else {
            c as u32
        };
        if self.peek_byte(0) != b'\'' {
            return Err(self.err(pos, "more than one character in rune literal"));
        }
        self.bump();
        Ok(v)
    }
}

pub fn lex(text: &str) -> Result<Vec<Token>, GoError> {
    let mut lx = Lexer { src: text.as_bytes(), text, i: 0, line: 1, col: 1, out: Vec::with_capacity(text.len() / 4 + 8) };
    if text.as_bytes().contains(&0) {
        // find position
        let mut line = 1;
        let mut col = 1;
        for &b in text.as_bytes() {
            if b == 0 {
                break;
            }
            if b == b'\n' {
                line += 1;
                col = 1;
            } else {
                col += 1;
            }
        }
        return Err(GoError::new(ErrKind::Lex, Pos { line, col }, "syntax", "invalid NUL character".into()));
    }
    // a byte order mark is only allowed as the very first character of the file
    let body = text.strip_prefix('\u{feff}').unwrap_or(text);
    if let Some(off) = body.find('\u{feff}') {
        let before = &body[..off];
        let line = before.matches('\n').count() as u32 + 1;
        let col = before.rsplit('\n').next().map(|l| l.len()).unwrap_or(0) as u32 + 1;
        return Err(GoError::new(ErrKind::Lex, Pos { line, col }, "syntax", "invalid BOM in the middle of the file".into()));
    }
    lx.run()?;
    Ok(lx.out)
}
