//! Interned type representation.  Identical types have equal `TypeId`s.

use std::collections::HashMap;

pub type TypeId = u32;

/// small, fast, non-cryptographic hasher (FxHash-like) for internal tables
#[derive(Default, Clone, Copy)]
pub struct FxHasher {
    hash: u64,
}

impl std::hash::Hasher for FxHasher {
    #[inline]
    fn write(&mut self, bytes: &[u8]) {
        for chunk in bytes.chunks(8) {
            let mut v = 0u64;
            for (i, b) in chunk.iter().enumerate() {
                v |= (*b as u64) << (8 * i);
            }
            self.write_u64(v);
        }
    }
    #[inline]
    fn write_u8(&mut self, i: u8) {
        self.write_u64(i as u64);
    }
    #[inline]
    fn write_u32(&mut self, i: u32) {
        self.write_u64(i as u64);
    }
    #[inline]
    fn write_u64(&mut self, i: u64) {
        self.hash = (self.hash.rotate_left(5) ^ i).wrapping_mul(0x51_7c_c1_b7_27_22_0a_95);
    }
    #[inline]
    fn write_usize(&mut self, i: usize) {
        self.write_u64(i as u64);
    }
    #[inline]
    fn finish(&self) -> u64 {
        self.hash
    }
}

pub type FxBuild = std::hash::BuildHasherDefault<FxHasher>;
pub type FxMap<K, V> = HashMap<K, V, FxBuild>;

#[derive(Clone, Copy, PartialEq, Eq, Hash, Debug)]
pub enum IntKind {
    I8,
    I16,
    I32,
    I64,
    U8,
    U16,
    U32,
    U64,
    Int,
    Uint,
    Uintptr,
}

impl IntKind {
    pub fn bits(self) -> u32 {
        match self {
            IntKind::I8 | IntKind::U8 => 8,
            IntKind::I16 | IntKind::U16 => 16,
            IntKind::I32 | IntKind::U32 => 32,
            _ => 64,
        }
    }
    pub fn signed(self) -> bool {
        matches!(self, IntKind::I8 | IntKind::I16 | IntKind::I32 | IntKind::I64 | IntKind::Int)
    }
    pub fn min(self) -> i128 {
        if self.signed() {
            -(1i128 << (self.bits() - 1))
        } else {
            0
        }
    }
    pub fn max(self) -> i128 {
        if self.signed() {
            (1i128 << (self.bits() - 1)) - 1
        } else {
            (1i128 << self.bits()) - 1
        }
    }
    pub fn name(self) -> &'static str {
        match self {
            IntKind::I8 => "int8",
            IntKind::I16 => "int16",
            IntKind::I32 => "int32",
            IntKind::I64 => "int64",
            IntKind::U8 => "uint8",
            IntKind::U16 => "uint16",
            IntKind::U32 => "uint32",
            IntKind::U64 => "uint64",
            IntKind::Int => "int",
            IntKind::Uint => "uint",
            IntKind::Uintptr => "uintptr",
        }
    }
    /// normalise an i64 bit pattern to this kind (sign- or zero-extended into the i64)
    #[inline]
    pub fn wrap(self, v: i64) -> i64 {
        match self {
            IntKind::I8 => v as i8 as i64,
            IntKind::I16 => v as i16 as i64,
            IntKind::I32 => v as i32 as i64,
            IntKind::U8 => v as u8 as i64,
            IntKind::U16 => v as u16 as i64,
            IntKind::U32 => v as u32 as i64,
            _ => v,
        }
    }
    /// is this a 64-bit unsigned kind (stored as bit pattern in i64)
    #[inline]
    pub fn is_u64(self) -> bool {
        matches!(self, IntKind::U64 | IntKind::Uint | IntKind::Uintptr)
    }
}

#[derive(Clone, PartialEq, Eq, Hash, Debug)]
pub enum TypeData {
    Invalid,
    Bool,
    Int(IntKind),
    Float32,
    Float64,
    String,
    UntypedBool,
    UntypedInt,
    UntypedRune,
    UntypedFloat,
    UntypedString,
    UntypedNil,
    /// "type" of a call to a function without result
    NoValue,
    Pointer(TypeId),
    Array(u64, TypeId),
    Slice(TypeId),
    Func(Vec<TypeId>, Option<TypeId>),
    /// anonymous struct
    Struct(Vec<(String, TypeId)>),
    /// anonymous interface: methods sorted by name, each with a Func type
    Interface(Vec<(String, TypeId)>),
    Named(u32),
}

pub const T_INVALID: TypeId = 0;
pub const T_BOOL: TypeId = 1;
pub const T_I8: TypeId = 2;
pub const T_I16: TypeId = 3;
pub const T_I32: TypeId = 4;
pub const T_I64: TypeId = 5;
pub const T_U8: TypeId = 6;
pub const T_U16: TypeId = 7;
pub const T_U32: TypeId = 8;
pub const T_U64: TypeId = 9;
pub const T_INT: TypeId = 10;
pub const T_UINT: TypeId = 11;
pub const T_UINTPTR: TypeId = 12;
pub const T_F32: TypeId = 13;
pub const T_F64: TypeId = 14;
pub const T_STRING: TypeId = 15;
pub const T_UBOOL: TypeId = 16;
pub const T_UINT_C: TypeId = 17; // untyped int
pub const T_URUNE: TypeId = 18;
pub const T_UFLOAT: TypeId = 19;
pub const T_USTRING: TypeId = 20;
pub const T_UNIL: TypeId = 21;
pub const T_NOVALUE: TypeId = 22;
pub const T_ANY: TypeId = 23; // interface{}
pub const T_UNIT: TypeId = 24; // struct{}

#[derive(Clone, Debug)]
pub struct MethodInfo {
    pub name: String,
    pub sig: TypeId,
    /// index of the implementing function (concrete types only)
    pub func: u32,
}

#[derive(Clone, Debug)]
pub struct NamedInfo {
    pub name: String,
    pub underlying: TypeId,
    pub methods: Vec<MethodInfo>,
}

#[derive(Clone, Debug)]
pub struct TypeTable {
    pub data: Vec<TypeData>,
    map: FxMap<TypeData, TypeId>,
    pub named: Vec<NamedInfo>,
}

impl Default for TypeTable {
    fn default() -> Self {
        Self::new()
    }
}

impl TypeTable {
    pub fn new() -> TypeTable {
        let mut t = TypeTable { data: Vec::new(), map: FxMap::default(), named: Vec::new() };
        let basics = [
            TypeData::Invalid,
            TypeData::Bool,
            TypeData::Int(IntKind::I8),
            TypeData::Int(IntKind::I16),
            TypeData::Int(IntKind::I32),
            TypeData::Int(IntKind::I64),
            TypeData::Int(IntKind::U8),
            TypeData::Int(IntKind::U16),
            TypeData::Int(IntKind::U32),
            TypeData::Int(IntKind::U64),
            TypeData::Int(IntKind::Int),
            TypeData::Int(IntKind::Uint),
            TypeData::Int(IntKind::Uintptr),
            TypeData::Float32,
            TypeData::Float64,
            TypeData::String,
            TypeData::UntypedBool,
            TypeData::UntypedInt,
            TypeData::UntypedRune,
            TypeData::UntypedFloat,
            TypeData::UntypedString,
            TypeData::UntypedNil,
            TypeData::NoValue,
            TypeData::Interface(Vec::new()),
            TypeData::Struct(Vec::new()),
        ];
        for b in basics {
            t.intern(b);
        }
        debug_assert_eq!(t.data[T_UNIT as usize], TypeData::Struct(Vec::new()));
        t
    }

    pub fn intern(&mut self, d: TypeData) -> TypeId {
        if let Some(&id) = self.map.get(&d) {
            return id;
        }
        let id = self.data.len() as TypeId;
        self.data.push(d.clone());
        self.map.insert(d, id);
        id
    }

    pub fn new_named(&mut self, name: &str) -> TypeId {
        let idx = self.named.len() as u32;
        self.named.push(NamedInfo { name: name.to_string(), underlying: T_INVALID, methods: Vec::new() });
        self.intern(TypeData::Named(idx))
    }

    #[inline]
    pub fn get(&self, id: TypeId) -> &TypeData {
        &self.data[id as usize]
    }

    pub fn named_info(&self, id: TypeId) -> Option<&NamedInfo> {
        match self.get(id) {
            TypeData::Named(n) => Some(&self.named[*n as usize]),
            _ => None,
        }
    }

    pub fn underlying(&self, id: TypeId) -> TypeId {
        match self.get(id) {
            TypeData::Named(n) => self.named[*n as usize].underlying,
            _ => id,
        }
    }

    pub fn under(&self, id: TypeId) -> &TypeData {
        self.get(self.underlying(id))
    }

    pub fn is_untyped(&self, id: TypeId) -> bool {
        matches!(
            self.get(id),
            TypeData::UntypedBool
                | TypeData::UntypedInt
                | TypeData::UntypedRune
                | TypeData::UntypedFloat
                | TypeData::UntypedString
                | TypeData::UntypedNil
        )
    }
    pub fn is_integer(&self, id: TypeId) -> bool {
        matches!(self.under(id), TypeData::Int(_) | TypeData::UntypedInt | TypeData::UntypedRune)
    }
    pub fn is_float(&self, id: TypeId) -> bool {
        matches!(self.under(id), TypeData::Float32 | TypeData::Float64 | TypeData::UntypedFloat)
    }
    pub fn is_numeric(&self, id: TypeId) -> bool {
        self.is_integer(id) || self.is_float(id)
    }
    pub fn is_string(&self, id: TypeId) -> bool {
        matches!(self.under(id), TypeData::String | TypeData::UntypedString)
    }
    pub fn is_boolean(&self, id: TypeId) -> bool {
        matches!(self.under(id), TypeData::Bool | TypeData::UntypedBool)
    }
    pub fn is_interface(&self, id: TypeId) -> bool {
        matches!(self.under(id), TypeData::Interface(_))
    }
    pub fn is_ordered(&self, id: TypeId) -> bool {
        self.is_numeric(id) || self.is_string(id)
    }
    /// can this type hold nil
    pub fn has_nil(&self, id: TypeId) -> bool {
        matches!(
            self.under(id),
            TypeData::Pointer(_) | TypeData::Func(..) | TypeData::Slice(_) | TypeData::Interface(_)
        )
    }

    pub fn comparable(&self, id: TypeId) -> bool {
        match self.under(id) {
            TypeData::Func(..) | TypeData::Slice(_) => false,
            TypeData::Array(_, e) => self.comparable(*e),
            TypeData::Struct(fs) => fs.iter().all(|(_, t)| self.comparable(*t)),
            TypeData::Invalid | TypeData::NoValue => false,
            _ => true,
        }
    }

    /// default type of an untyped type
    pub fn default_type(&self, id: TypeId) -> TypeId {
        match self.get(id) {
            TypeData::UntypedBool => T_BOOL,
            TypeData::UntypedInt => T_INT,
            TypeData::UntypedRune => T_I32,
            TypeData::UntypedFloat => T_F64,
            TypeData::UntypedString => T_STRING,
            _ => id,
        }
    }

    /// fields of a struct type (looking through a named type)
    pub fn struct_fields(&self, id: TypeId) -> Option<&Vec<(String, TypeId)>> {
        match self.under(id) {
            TypeData::Struct(fs) => Some(fs),
            _ => None,
        }
    }

    /// interface methods (name, sig), sorted by name
    pub fn iface_methods(&self, id: TypeId) -> Option<&Vec<(String, TypeId)>> {
        match self.under(id) {
            TypeData::Interface(ms) => Some(ms),
            _ => None,
        }
    }

    /// look up a concrete method on `id` (a named non-interface type or pointer to one)
    pub fn find_method(&self, id: TypeId, name: &str) -> Option<&MethodInfo> {
        let base = match self.get(id) {
            TypeData::Pointer(e) => *e,
            _ => id,
        };
        let info = self.named_info(base)?;
        if self.is_interface(base) {
            return None;
        }
        info.methods.iter().find(|m| m.name == name)
    }

    /// method signature visible on a value of type `id`: concrete method or interface method
    pub fn method_sig(&self, id: TypeId, name: &str) -> Option<TypeId> {
        if let Some(ms) = self.iface_methods(id) {
            return ms.iter().find(|(n, _)| n == name).map(|(_, s)| *s);
        }
        self.find_method(id, name).map(|m| m.sig)
    }

    /// Does `t` implement interface `iface`?  Err((method, wrong_signature))
    pub fn missing_method(&self, t: TypeId, iface: TypeId) -> Option<(String, bool)> {
        let ms = match self.iface_methods(iface) {
            Some(ms) => ms,
            None => return None,
        };
        for (name, sig) in ms {
            match self.method_sig(t, name) {
                None => return Some((name.clone(), false)),
                Some(s) if s != *sig => return Some((name.clone(), true)),
                _ => {}
            }
        }
        None
    }

    pub fn implements(&self, t: TypeId, iface: TypeId) -> bool {
        self.missing_method(t, iface).is_none()
    }

    pub fn size_align(&self, id: TypeId) -> (u64, u64) {
        match self.under(id) {
            TypeData::Bool => (1, 1),
            TypeData::Int(k) => {
                let b = (k.bits() / 8) as u64;
                (b, b)
            }
            TypeData::Float32 => (4, 4),
            TypeData::Float64 => (8, 8),
            TypeData::String => (16, 8),
            TypeData::Pointer(_) | TypeData::Func(..) => (8, 8),
            TypeData::Slice(_) => (24, 8),
            TypeData::Interface(_) => (16, 8),
            TypeData::Array(n, e) => {
                let (s, a) = self.size_align(*e);
                (s.saturating_mul(*n), a)
            }
            TypeData::Struct(fs) => {
                let mut off: u64 = 0;
                let mut maxa: u64 = 1;
                let mut last_zero = false;
                for (_, t) in fs {
                    let (s, a) = self.size_align(*t);
                    let a = a.max(1);
                    off = off.saturating_add(a - 1) / a * a;
                    off = off.saturating_add(s);
                    maxa = maxa.max(a);
                    last_zero = s == 0;
                }
                if last_zero && off > 0 {
                    off += 1;
                }
                off = off.saturating_add(maxa - 1) / maxa * maxa;
                (off, maxa)
            }
            _ => (8, 8),
        }
    }

    pub fn type_string(&self, id: TypeId) -> String {
        match self.get(id) {
            TypeData::Invalid => "invalid type".into(),
            TypeData::Bool => "bool".into(),
            TypeData::Int(k) => k.name().into(),
            TypeData::Float32 => "float32".into(),
            TypeData::Float64 => "float64".into(),
            TypeData::String => "string".into(),
            TypeData::UntypedBool => "untyped bool".into(),
            TypeData::UntypedInt => "untyped int".into(),
            TypeData::UntypedRune => "untyped rune".into(),
            TypeData::UntypedFloat => "untyped float".into(),
            TypeData::UntypedString => "untyped string".into(),
            TypeData::UntypedNil => "untyped nil".into(),
            TypeData::NoValue => "no value".into(),
            TypeData::Pointer(e) => format!("*{}", self.type_string(*e)),
            TypeData::Array(n, e) => format!("[{}]{}", n, self.type_string(*e)),
            TypeData::Slice(e) => format!("[]{}", self.type_string(*e)),
            TypeData::Func(ps, r) => {
                let p: Vec<String> = ps.iter().map(|t| self.type_string(*t)).collect();
                match r {
                    Some(r) => format!("func({}) {}", p.join(", "), self.type_string(*r)),
                    None => format!("func({})", p.join(", ")),
                }
            }
            TypeData::Struct(fs) => {
                if fs.is_empty() {
                    "struct {}".into()
                } else {
                    let f: Vec<String> = fs.iter().map(|(n, t)| format!("{} {}", n, self.type_string(*t))).collect();
                    format!("struct {{ {} }}", f.join("; "))
                }
            }
            TypeData::Interface(ms) => {
                if ms.is_empty() {
                    "interface {}".into()
                } else {
                    let f: Vec<String> = ms.iter().map(|(n, _)| format!("{}()", n)).collect();
                    format!("interface {{ {} }}", f.join("; "))
                }
            }
            TypeData::Named(n) => self.named[*n as usize].name.clone(),
        }
    }

    /// the name Go's runtime / fmt would print (`main.T` for named types)
    pub fn runtime_type_string(&self, id: TypeId) -> String {
        match self.get(id) {
            TypeData::Named(n) => format!("main.{}", self.named[*n as usize].name),
            TypeData::Pointer(e) => format!("*{}", self.runtime_type_string(*e)),
            TypeData::Array(n, e) => format!("[{}]{}", n, self.runtime_type_string(*e)),
            TypeData::Slice(e) => format!("[]{}", self.runtime_type_string(*e)),
            TypeData::Func(ps, r) => {
                let p: Vec<String> = ps.iter().map(|t| self.runtime_type_string(*t)).collect();
                match r {
                    Some(r) => format!("func({}) {}", p.join(", "), self.runtime_type_string(*r)),
                    None => format!("func({})", p.join(", ")),
                }
            }
            _ => self.type_string(id),
        }
    }
}
