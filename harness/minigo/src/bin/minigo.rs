use std::io::Write;

fn main() {
    let args: Vec<String> = std::env::args().collect();
    if args.len() < 3 {
        eprintln!("usage: minigo check FILE.go | minigo run FILE.go [max_steps] [sched-bytes-hex]");
        std::process::exit(2);
    }
    let text = match std::fs::read_to_string(&args[2]) {
        Ok(t) => t,
        Err(e) => {
            eprintln!("cannot read {}: {}", args[2], e);
            std::process::exit(2);
        }
    };
    match args[1].as_str() {
        "check" => match minigo::compile(&text) {
            Ok(_) => println!("ok"),
            Err(errs) => {
                for e in errs {
                    println!("{}", e);
                }
                std::process::exit(1);
            }
        },
        "run" => match minigo::compile(&text) {
            Ok(p) => {
                let max_steps = args.get(3).and_then(|s| s.parse().ok()).unwrap_or(100_000_000u64);
                let sched: Vec<u8> = args
                    .get(4)
                    .map(|h| {
                        (0..h.len() / 2).filter_map(|i| u8::from_str_radix(&h[2 * i..2 * i + 2], 16).ok()).collect()
                    })
                    .unwrap_or_default();
                let r = minigo::run(&p, &minigo::RunOpts { max_steps, sched, max_output: 1 << 26 });
                std::io::stdout().write_all(&r.stdout).ok();
                std::io::stderr().write_all(&r.stderr).ok();
                eprintln!(
                    "end: {:?} steps={} spawned={} choice_points={:?}",
                    r.end, r.steps, r.spawned, r.choice_points
                );
                if r.end != minigo::End::Exit0 {
                    std::process::exit(1);
                }
            }
            Err(errs) => {
                for e in errs {
                    println!("{}", e);
                }
                std::process::exit(1);
            }
        },
        _ => {
            eprintln!("unknown command");
            std::process::exit(2);
        }
    }
}
