#![no_main]
//! C04 oracle inside: compile returns; no panic; Err carries an error diagnostic; ranges in bounds.
use libfuzzer_sys::fuzz_target;

fuzz_target!(|data: &[u8]| {
    let Ok(text) = std::str::from_utf8(data) else { return };
    if text.len() > 2048 || verif::fuzzsupport::nesting_depth(text) > 200 {
        return;
    }
    let ctx = verif::fuzzsupport::ctx();
    let res = verif::goml::compile_single(ctx, text);
    if let Err((sig, detail)) = verif::props::c04::judge_compile(&res, Some(text)) {
        if verif::fuzzsupport::is_known(&sig) {
            return;
        }
        eprintln!("VIOLATION property=C04 signature={sig}\n{detail}");
        panic!("C04 oracle failed: {sig}");
    }
});
