#![no_main]
//! bytes -> type-directed program -> compile -> C02 (Go type-checks) and C01 (behaviour) oracles.
use libfuzzer_sys::fuzz_target;

fuzz_target!(|data: &[u8]| {
    if data.len() > 1500 {
        return;
    }
    if let Some((sig, detail)) = verif::fuzzsupport::prog_oracle(data) {
        if verif::fuzzsupport::is_known(&sig) {
            return;
        }
        eprintln!("VIOLATION property={} signature={sig}\n{detail}", &sig[..3]);
        panic!("program oracle failed: {sig}");
    }
});
