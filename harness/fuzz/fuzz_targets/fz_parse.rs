#![no_main]
//! C12 oracle inside: lossless CST, token tiling, ranges in bounds, parse twice equal.
use libfuzzer_sys::fuzz_target;

fuzz_target!(|data: &[u8]| {
    let Ok(text) = std::str::from_utf8(data) else { return };
    if text.len() > 4096 {
        return;
    }
    if let Err((sig, detail)) = verif::props::c12::lossless_oracle(text) {
        if verif::fuzzsupport::is_known(&sig) {
            return;
        }
        eprintln!("VIOLATION property=C12 signature={sig}\n{detail}");
        panic!("C12 oracle failed: {sig}");
    }
});
