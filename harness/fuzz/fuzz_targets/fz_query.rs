#![no_main]
//! C20 oracle inside: hover and both completions return for every text and every position.
//! Input: two little-endian u16 (line, column; reduced so that positions in and just around the
//! text are the common case) followed by the text.
use libfuzzer_sys::fuzz_target;

fuzz_target!(|data: &[u8]| {
    if data.len() < 4 {
        return;
    }
    let Ok(text) = std::str::from_utf8(&data[4..]) else { return };
    if text.len() > 2048 || verif::fuzzsupport::nesting_depth(text) > 200 {
        return;
    }
    let lines = text.split('\n').count() as u32;
    let line = u16::from_le_bytes([data[0], data[1]]) as u32 % (lines + 3);
    let col = u16::from_le_bytes([data[2], data[3]]) as u32 % 120;
    let ctx = verif::fuzzsupport::ctx();
    if let Some((sig, detail)) = verif::props::c20::fuzz_query(ctx, text, line, col) {
        if verif::fuzzsupport::is_known(&sig) {
            return;
        }
        eprintln!("VIOLATION property=C20 signature={sig}\n{detail}");
        panic!("C20 oracle failed: {sig}");
    }
});
