#!/usr/bin/env python3
"""usage: keep_seed.py <new-id e.g. C01-S7> <src dir /tmp/seed-C01/SEED1> <round> <caught_by> <signatures> <history>
Copies a confirmed seeded change (patch.diff, demo/, the agent's meta.json, confirm.json written by
tools/confirm_seeds.sh) to /verif/seeded/<new-id>/ and writes its meta.json."""
import json, os, shutil, subprocess, sys
nid, src, rnd, caught, sigs, hist = sys.argv[1:7]
dst = f"/verif/seeded/{nid}"
if os.path.exists(dst):
    shutil.rmtree(dst)
os.makedirs(dst)
shutil.copy(f"{src}/patch.diff", f"{dst}/patch.diff")
if os.path.isdir(f"{src}/demo"):
    shutil.copytree(f"{src}/demo", f"{dst}/demo")
for extra in os.listdir(src):
    p = os.path.join(src, extra)
    if extra in ("patch.diff", "demo", "meta.json", "confirm.json", "tests.txt", "before.txt", "after.txt"):
        continue
    if os.path.isdir(p):
        shutil.copytree(p, os.path.join(dst, "demo_" + extra))
    elif os.path.getsize(p) < 200_000:
        shutil.copy(p, os.path.join(dst, extra))
agent = json.load(open(f"{src}/meta.json"))
conf = json.load(open(f"{src}/confirm.json"))
wt = os.path.dirname(src.rstrip("/"))
base = subprocess.run(["git", "-C", wt, "rev-parse", "--short", "HEAD"], capture_output=True, text=True).stdout.strip()
files = agent.get("files") or []
meta = {
    "id": nid, "round": int(rnd), "property": nid.split("-")[0], "base_commit": base,
    "needs_to_manifest": agent.get("needs", ""),
    "files": files,
    "author": ("fresh sub-agent given only the property text and a scratch worktree; the two changes had to sit in two prescribed places (tools/round7_areas.json)" if int(rnd) >= 7 else
               "fresh sub-agent given only the property text and a scratch worktree; asked for (1) a fault needing two cooperating conditions and (2) one needing an unusual size/count/position/value"),
    "confirmed": {
        "how": f"in the scratch worktree {wt}: git apply patch.diff; cargo test --workspace --no-fail-fast --offline (tools/confirm_seeds.sh); demonstration: run.sh / compiler run demo/main.gom --dump-ast --dump-go with the clean and the changed compiler",
        "tests_ok": conf["tests_ok"], "tests_failed_same_16_go_toolchain_tests": conf["tests_failed"],
        "stable_baseline_tests_not_passing": conf["stable_baseline_tests_not_passing"],
        "demo_output_differs_from_clean_compiler": conf["demo_output_differs"],
    },
    "checks_run": "git apply patch.diff in a private copy of /repo and /verif (tools/mklab.sh, tools/lab_try.sh) with the checks as they stood when the change arrived, then - after a strengthening - git -C /repo apply patch.diff; ./check <ID> quick (VERIF_SEED default); git -C /repo checkout -- .  (tools/try_seeds.sh)",
    "caught_by": caught, "signatures": sigs, "history": hist,
}
json.dump(meta, open(f"{dst}/meta.json", "w"), indent=1)
print("kept", nid)
