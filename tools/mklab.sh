#!/bin/bash
# usage: mklab.sh <dir>  -- a private copy of the committed /verif and /repo (git worktrees of both HEADs) whose
# harness path-depends on the copy of /repo: seeded changes can be tried there (REPO_DIR=<dir>/repo
# VERIF_DIR=<dir>/verif VERIF_REPO=<dir>/repo tools/try_seeds.sh ...) while /repo and /verif stay free.
# Remove with: git -C /repo worktree remove --force <dir>/repo; git -C /verif worktree remove --force <dir>/verif
set -e
d=$1; mkdir -p "$d"
git -C /repo worktree add --detach "$d/repo" HEAD >/dev/null
git -C /verif worktree add --detach "$d/verif" HEAD >/dev/null
sed -i "s|path = \"/repo/crates/|path = \"$d/repo/crates/|" "$d/verif/harness/verif/Cargo.toml"
[ -f "$d/verif/harness/fuzz/Cargo.toml" ] && sed -i "s|/repo/crates/|$d/repo/crates/|" "$d/verif/harness/fuzz/Cargo.toml"
echo "lab at $d"
