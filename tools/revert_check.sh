#!/bin/bash
# usage: revert_check.sh "<commit>:<PROP>" ...  -- sensitivity of the regression cases: with the fix reverted the check must fail
for spec in "$@"; do
  c=${spec%%:*}; p=${spec##*:}
  cd /repo; git status --short | grep -q . && { echo "/repo dirty"; exit 2; }
  git show $c | git apply -R || { echo "cannot revert $c"; continue; }
  cd /verif; out=$(./check $p quick 2>&1); rc=$?
  echo "== revert $c: $p exit=$rc"; echo "$out" | grep -E "VIOLATION|signature:" | head -4
  cd /repo && git checkout -- .
done
cd /verif && ./check --build | tail -1
