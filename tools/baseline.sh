#!/bin/bash
# Runs the repository's pinned test suite (guard off) and compares with BASELINE.json's stable_pass list.
cd /repo && cargo test --workspace --no-fail-fast --offline 2>&1 | grep -E "^test .* (ok|FAILED)$" | sort > /tmp/verif-tests.txt
python3 - <<'PY'
import json,re
b=json.load(open('/root/.vp/BASELINE.json'))
res={}
for l in open('/tmp/verif-tests.txt'):
    m=re.match(r'test (\S+) \.\.\. (ok|FAILED)',l)
    if m: res[m.group(1)]=m.group(2)
missing=[]
for s in b['stable_pass']:
    parts=s.split('::')
    cands=['::'.join(parts[i:]) for i in (1,2)]
    if not any(res.get(c)=='ok' for c in cands): missing.append(s)
print("passed:",sum(1 for v in res.values() if v=='ok'),"failed:",sum(1 for v in res.values() if v!='ok'))
print("stable baseline tests not passing:",missing)
raise SystemExit(1 if missing else 0)
PY
