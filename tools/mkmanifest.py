#!/usr/bin/env python3
"""Regenerates /verif/MANIFEST.json from the table below (run from /verif)."""
import json, os, sys

ALL = ["C%02d" % i for i in range(1, 21)]

# id -> (technique, level text, level note, design ref)
PROG_NOTE = "Trusted: refsem (reference interpreter over the generator's typed model) as the source meaning; miniGo (own Go-subset lexer/parser/type checker/interpreter) as the Go toolchain, calibrated on every run against the Go recorded from real runs of the corpus; shapes excluded by open known findings are counted in the evidence (excluded_by_gate). Absence beyond the explored programs is not shown."
CLAIMED = {
 "C06": ("exhaustive pattern matrices (all matrices of <=3/4 rows over all depth-2 patterns of four types) evaluated on all scrutinee values + random matrices; first-match reference semantics vs emitted Go",
         "Exploration: every matrix of <=3 (quick) / <=4 (thorough) rows over all patterns of depth <=2 for bool, Opt[bool], (bool,bool) and a three-variant enum, plus random matrices over ints, strings, unit, tuples, a struct, enums and generic Opt[T] (depth <=3, <=6 rows) and destructuring lets; each program applies the match to ALL values of the scrutinee type over representative leaf domains that some row matches and to one unmatched value; stdout/end under miniGo must equal first-match semantics (failed match must fail at that point); ticked scrutinee detects double evaluation.",
         PROG_NOTE, "DESIGN.md §5 C06"),
 "C19": ("exhaustive enumeration of the compiler's name-encoding functions over a small identifier alphabet + directed collision programs + differential PBT with hostile identifier pools",
         "Exploration: (1) go_ident/go_type_name_for/ref_struct_name/array_helper_fn_name/trait_impl_fn_name/inherent_method_fn_name on every identifier over {A,B,a,b,_,1} (len<=3/4) and every pair/(trait,type)/(type,method) combination: distinct entities must get distinct Go identifiers, user names must not come out as Go keywords/predeclared names; (2) 28 directed programs (two of them across packages / through dyn), one per collision family, must build and print the expected output; (1b) 120k/600k pseudo-random tuple types of depth <=5 (Vec/Ref/array/function components, package-qualified and generic-instance names): every struct name a legal Go identifier, distinct types distinct names; (3) ~50k/800k generated programs whose function/type/field/local names come from pools of Go keywords, predeclared identifiers, runtime-helper and temporary look-alikes must type-check as Go and behave as the (name-independent) reference interpreter says. twin-types: 2-3 packages declare enums / structs of one name (shared variant names), a generic enum is instantiated at the same-named types of two packages; helper names (Ref cells, array helpers, trait-impl functions) over 84 small function types must be pairwise distinct; hostile pools include trait / method names and names that look like the runtime's pure helpers or start like a builtin.",
         PROG_NOTE, "DESIGN.md §5 C19"),
 "C03": ("generated accepted programs re-type-checked at every IR stage by independent checkers; single ill-typed statement injected at random positions must be rejected",
         "Exploration: (a) ~54k (quick) / ~880k (thorough) accepted generated programs: four independent IR type checkers (Core, Mono, Lift, ANF) must find every variable bound with the binder's type, every call/constructor/projection/operator/branch consistent with declared signatures, and no TParam/TVar/TApp residue after monomorphisation (a third of the programs with traits, impls, all method call forms, bounded generics and dyn values: dyn coercions and dyn calls are checked too); (b) ~40k / 600k programs with one ill-typed statement inserted at a random position in a random nested block (fixed kinds, systematic one-point type mutations, occurs-check shapes, pattern/scrutinee mismatches, trait-method calls with a wrong argument type or count on concrete and dyn receivers, coercion to dyn without an impl, local annotations naming unknown types or applying a nominal type to the wrong number of arguments) must be rejected with an error diagnostic (never accepted, never a crash); (c) twins: 1.5k / 20k two- or three-package projects in which a struct/enum name is declared in two packages and a value of one is used where the other is required (5 sites, same or different shapes): rejected, and the control with the right type accepted.",
         "Trusted: irck (sensitivity measured by 26k injected IR corruptions, 99.3% caught); the catalogue of ill-typed statements follows the language description; ill-typedness that depends on inference order is not injected.",
         "DESIGN.md §5 C03"),
 "C01": ("differential PBT: reference interpreter of the generated typed program vs Go-subset interpreter of the emitted Go; type-directed program generator; corpus outputs recorded from real Go",
         "Exploration: ~76k (quick) / ~1.1M (thorough) type-directed random programs in three size classes and five generator biases are compiled; stdout and end state (normal exit / division by zero / index out of range / failed match) of the emitted Go under miniGo must equal refsem's run of the source model (a third of the programs with traits, trait/inherent impls, every method call form, bounded generics and `dyn Tr` values; refsem dispatches on the receiver's run-time type); additionally the Go currently emitted for every corpus program must reproduce the output recorded from real Go.",
         PROG_NOTE, "DESIGN.md §5 C01"),
 "C02": ("generated programs -> emitted Go text judged by an independent Go-subset parser and type checker",
         "Exploration: the same generator under all biases; the emitted Go text must parse and type-check under miniGo's checker (declare-before-use, redeclaration, assignability, call/return/literal typing, unused variables/imports, constant overflow and constant division by zero, missing return, type-switch rules, array lengths). A share of the programs has traits, impls, every method call form, bounded generics and dyn values. extern phase (4k / 60k programs): 1-4 `extern \"go\"` bindings to Go packages whose import paths have 1-5 segments, called from main / a helper / a closure / a dead function / never: every import is used, every package qualifier has its import, none is listed twice, no call is lost.",
         PROG_NOTE, "DESIGN.md §5 C02"),
 "C07": ("differential PBT biased to generics + invariants of the monomorphised IR",
         "Exploration: generator biased to generic functions/types with composite type arguments (tuples, arrays, Vec, Ref, structs, enums, nested); behaviour oracle of C01 plus, on Compilation.mono: unique instance names, no more instances than distinct reachable type-argument tuples computed from the model, every referenced instance exists once, no TParam/TVar/TApp residue. Half of the programs have traits: generic functions with one or two trait bounds, called from main at one or two implementing types (nominal types, an instance of a generic type, integers, string, bool), whose bodies call the bound's methods as p.m(a) and Tr::m(p, a), also from closures.",
         PROG_NOTE, "DESIGN.md §5 C07"),
 "C08": ("differential PBT biased to closures (captures, nesting, calls through variables)",
         "Exploration: generator biased to closures capturing params/lets/pattern variables/Refs/other closures, nested closures, closures called from other scopes; behaviour oracle of C01. Flows of closures into declared function-typed positions are excluded while KF-05 is open (counted). A third of the programs has traits: closures capture trait objects and values of bounded type parameters and call their methods.",
         PROG_NOTE, "DESIGN.md §5 C08"),
 "C09": ("differential PBT on tick traces: effects planted in every operand/argument/condition/branch position",
         "Exploration: generator biased to effects: print ticks in operands, call arguments, && / || operands, if/match/while conditions and branches, discarded lets, Ref updates, operations that fail at run time; the sequence of printed lines and the failure point of the emitted Go must equal the reference run. A third of the programs has traits and trait objects (calls through bounds and dyn receivers, also in the tail position of while bodies). A separate phase generates programs with `go`: all schedules (stateless DFS over choice points before every Ref access/print/spawn) are enumerated with the reference interpreter and replayed under miniGo's deterministic scheduler.",
         PROG_NOTE, "DESIGN.md §5 C09"),
 "C05": ("exhaustive scope skeletons + shadowing-biased random programs; resolution read from the HIR and compared with the generator's binder for every use",
         "Exploration: every sequence of <=5 (quick) / <=6 (thorough) scope operations over two names (let, use, open/close if-block, match arm, closure, while body) is turned into a program, plus random longer skeletons (6-15 operations), wide skeletons (20-60 operations, mostly lets, so that many bindings are in scope at once) and type-directed programs from a 3-name pool in which top-level functions may be spelled like the locals that shadow them. For each accepted program every use's NameRef::Local id must equal the id of the binder the generator intended, a well-scoped program must not be rejected for scoping reasons, an unbound use must be rejected, and the compiled program must print the intended binder's value (reference interpreter vs Go-subset interpreter).",
         "Trusted: the harness' own scoping model (a stack), text-range matching of binders/uses, miniGo for the behavioural part. Depth beyond the enumerated skeleton length is only sampled.",
         "DESIGN.md §5 C05"),
 "C11": ("exhaustive operator pairs/triples (quads thorough) + random syntax trees printed with minimal parentheses and random trivia; parse-back round trip; literal fidelity oracle",
         "Exploration: all trees over 20 operators of size 2 and 3 (4 in thorough) in three contexts, the same trees fully parenthesised, random whole files over every item/expr/pattern/type form, and enumerated + random literal spellings. Oracle: convert(parse_ast_file(print(t))) == t structurally; a literal's AST value equals the characters/number it denotes. A deliberately wrong printer (omitting needed parentheses) must be rejected by the oracle for every pair (selftest case), else the run is inconclusive (exit 2).",
         "Trusted: the harness' tree model, printer and AST converter (written from the documented binding powers); derive expansion is avoided in round-trip trees.",
         "DESIGN.md §5 C11"),
 "C04": ("fuzzing-style generated inputs (Unicode/token soups, corpus mutations, deep nesting, JSON artifact mutations) against a crash/diagnostic oracle",
         "Exploration: random Unicode and token sequences, mutated corpus programs, 1..256-deep nestings of every bracketing form, every depth 1..300 of 14 unclosed openers x 7 contexts x 13 following items (unwind), one fragment repeated 1..600 times inside 21 constructs (repeat), projects on disk disturbed by file-system operations (layouts: non-UTF-8, empty/deleted/duplicated files, directory named x.gom, symlinks, file for directory, case twins, BOM, CRLF ...), and single-leaf/raw mutations of the interface/core artifacts of all corpus projects are pushed through compile, check_package, build_package, read_core and link_cores under panic capture in memory-capped worker processes; Err must carry an error diagnostic, ranges must lie in the text. cli phase (1.2k / 20k projects): the goml command-line binary itself (built from the working tree) runs `run`, `check` and `build` of every package in dependency order and `link` on projects with a defect planted in a chosen file, mostly not the entry file (parse / lex / type error after 0-400 padding lines, unknown import) and disturbed layouts: it must end with status 0 or 1 (no panic, no signal), say something on stderr when it fails, and every `file: line:col` it prints must lie inside that file. Absence of crashes beyond the explored inputs is not shown.",
         "Trusted: in-process calls stand for the CLI subcommands except in the cli phase; non-termination is only observable as a watchdog hit (reported as inconclusive, exit 2); resource exhaustion is observed as a worker abort under a 6 GiB address-space cap.",
         "DESIGN.md §5 C04"),
 "C12": ("exhaustive short strings + random/mutated texts; round-trip & tiling oracle on lexer and CST",
         "Exploration: every string of <=3 (quick) / <=4 (thorough) symbols over a 46-symbol alphabet covering each token class is enumerated, plus the exhaustive unwind (depth x opener x context x following item) and repeat (fragment repeated 1..600 times in 21 constructs) families, random token/Unicode soups and corpus mutations; each input is judged by a complete oracle (text round-trip, token tiling on char boundaries, leaves==lexer tokens, ranges in bounds, parse twice equal). Absence beyond the explored inputs is not shown. mlstring: every multi-line string of 1-3 lines whose lines end in LF or CR LF independently and in one of 6 last characters (none, ASCII, blank, 2/3/4-byte) in 4 contexts (7.5k texts).",
         "Trusted: rowan's text(); the harness oracle. Inputs longer than the bounds are only sampled.",
         "DESIGN.md §5 C12"),
 "C10": ("exhaustive 8-bit literal and operator tables + random wide-integer and float programs; Rust fixed-width/IEEE arithmetic as reference, emitted Go run under the Go-subset interpreter",
         "Exploration: every int8/uint8 literal spelling (in range, boundary, out of range, with/without suffix/annotation) must be accepted at exactly the written value or rejected; every binary/unary operator on all ordered pairs from a boundary-dense 8-bit value set (tables of 35x35 operand pairs per operator and type); ~40k random programs per class over all ten integer types (boundary, random, MIN/-1, division by zero) and ~30k float32/float64 programs (finite decimals; float32 results rounded per operation); printed results via *_to_string must equal the reference arithmetic.",
         "Trusted: Rust's wrapping integer and IEEE float arithmetic as the meaning of intN/uintN/floatN; miniGo (calibrated in setup against values fixed by the Go specification); NaN/infinities/negative zero and float overflow are not judged.",
         "DESIGN.md §5 C10"),
 "C13": ("generated multi-package projects compiled repeatedly: same process, fresh processes (fresh hash seeds), other root directory and directory creation order; byte equality of Go, stage dumps, diagnostics, interface hashes",
         "Exploration: ~2000 generated projects (1-4 packages, DAG imports, cross-package generics/traits/impls) (multi-file packages incl. file names differing only in case, extern-go bindings to several Go packages) plus ~1600 projects with an injected error and the 8 corpus projects: every run (in-process repeat, 1-2 fresh worker processes, a copy created in another directory order under another root, a package's files handed to check/build in reverse order) must give byte-identical Go text, Core/Mono/Lift/ANF dumps, the same diagnostics in the same order and identical interface hashes from check and build. The projects also carry types that derive ToString and ToJson (one attribute, stacked attributes), bindings to several Go packages, generic instances that occur only in the fields of unused non-generic types, and impls that miss several methods of their trait (several diagnostics for one item).",
         "Trusted: tmpfs directory enumeration follows creation order (varied explicitly); std RandomState reseeds per process. Nondeterminism that needs more than two processes to show is only sampled.",
         "DESIGN.md §5 C13"),
 "C14": ("generated multi-package projects: whole-program compile vs check/build per package in random topological orders with artifacts round-tripped through files, then link; behaviour compared under the Go-subset interpreter",
         "Exploration: ~6000 generated projects (incl. declaration-only library packages), ~2000 broken ones (text replacement or a compile-stage error), ~3000 with one of the isolation/coherence defects of C16, plus the 8 corpus projects: acceptance must agree between the two pipelines, the linked program must print what the whole-program one prints (miniGo), the result must not depend on which topological build order was used, and check and build must emit byte-identical interface files. A share of the generated projects has a marker trait without methods and a one-method trait implemented in a library, with the entry package coercing a library value to `dyn` of both.",
         "Trusted: in-process separate::{check,build}_package / read_core / link_cores with files on disk stand for the CLI; miniGo for both sides.",
         "DESIGN.md §5 C14"),
 "C15": ("model-based histories of {edit, check, build, link} over small dependency graphs with a reference staleness model + exhaustive/random single-field corruption of interface/core JSON",
         "Exploration: ~5000 random histories (typed edit operators: body-only vs interface-changing of 15 kinds; rebuild subsets; link) checked after every step against a model that tracks which interface each package was built against: link must succeed iff nothing is stale and then behave as a fresh whole-program compile, interface-changing edits must change the hash, body-only edits must not; every header field of every artifact (exhaustive) and ~7000 random leaf alterations (with and without recomputed hash) must be rejected. Interface edits include the reordering of a struct's fields.",
         "Trusted: 'visible to dependents' = everything outside function bodies; staleness propagates through the deps recorded in the hash. Findings KF-55/56/57 gate the shapes they cover.",
         "DESIGN.md §5 C15"),
 "C16": ("generated legal package graphs must be accepted; one injected isolation/coherence defect (13 kinds) must be rejected by every entry point",
         "Exploration: ~2000 legal projects (all placements of types/traits/impls/qualified references permitted by the imports) must compile whole-program and separately; ~9000 projects with exactly one defect (use of a non-imported package in expression/type/pattern position, missing package, misnamed package declaration, import cycle of length 1-3, orphan impl, duplicate impl in one or sibling packages) must be rejected by compile, check, build (+link), independent of directory enumeration order. Defects include references (call, trait call, inherent call, constructor, struct literal) from a file that lacks the import another file of its package has.",
         "Trusted: a defect counts as reported when an error diagnostic comes back; goml being stricter than the statement (per-file imports) is not judged.",
         "DESIGN.md §5 C16"),
 "C17": ("generated trait/impl/receiver programs calling one method through every applicable call form; results must agree with each other and with the impl's body; negative programs (no impl for dyn coercion, ambiguous names) must be rejected",
         "Exploration: ~20k programs over receivers (primitives, structs, enums, generic instances, tuples; other-package types), inherent and trait methods, called as x.m(a), T::m(x,a), Tr::m(x,a), through T: Tr bounds, through dyn Tr and from inside closures capturing the receiver or the trait object; method names include names the Go back end escapes (range, len, new, init ...); each prints a per-impl constant combined with its arguments, all forms must print the same under miniGo as the reference; ~4000 programs coercing a type without impl to dyn Tr and ~3000 with ambiguous method names must be rejected; ~2000 inherent/trait name clashes; a third of the programs also call a printing trait method with its result discarded in tail / statement / let / while-tail / if-tail / match-arm position through every form and must print every call in order.",
         "Trusted: miniGo; call forms the language does not offer are not generated (listed in the evidence assumptions).",
         "DESIGN.md §5 C17"),
 "C18": ("generated derive(ToString/ToJson) types and values; emitted Go run under the Go-subset interpreter; strict JSON parser + structural decoder as the oracle",
         "Exploration: ~20k random non-generic struct/enum definitions (nesting, recursion through enums) with random values, ~8000 with field/variant names chosen from generated identifiers and helper names, ~10k with hostile strings (controls, quotes, backslashes, non-BMP, BOM): to_json must parse under a strict RFC 8259 parser, decode back to the value (object per struct, tag/fields per variant), to_string must match the documented rendering; a type the derive cannot handle must be rejected by a derive diagnostic, not by the typer or by Go. Now and then a struct has 6-45 fields or a variant 5-24 payload fields; a user trait with a method named to_string / to_json may be implemented for a derived type.",
         "Trusted: the JSON shape given in the property text and samples; miniGo's %q. Findings KF-36..40 gate the shapes they cover.",
         "DESIGN.md §5 C18"),
 "C20": ("fuzzed editor states (prefixes, truncations and mutations of generated and corpus programs) x cursor positions incl. out-of-text; crash oracle; hover type vs generator's type; every completion inserted and type-checked",
         "Exploration: ~50k (text, line, col) requests to hover_type, dot_completions and colon_colon_completions on prefixes/mutations of valid programs with positions inside, at the edges of and beyond the text must return without panic; ~8000 hovers on local binders/uses of accepted generated programs and on method names in calls on generic instances (one- and two-parameter types, impls for one instance) must print the generator's type / the method's type at that instance; ~24k completion sites: every offered item is inserted after `x.` / `Path::` and the result must type-check. Hover also on programs whose types derive ToString / ToJson (binders typed only through the derived method); `Pkg::` completion next to entry-package items whose names start with the package's name; thorough adds a libFuzzer campaign (fz_query: bytes -> position + text -> the three queries).",
         "Trusted: the generator's type of a local is what a correct compiler assigns (program accepted first); completeness of completion lists is not judged. Findings KF-47..50 gate the shapes they cover.",
         "DESIGN.md §5 C20"),
}

# session 7: one more sentence per level text
ADD7 = {
 "C01": "fnfields phase (3k / 60k programs): a struct with 2-4 function-typed fields built at one site with plain functions and capturing closures in every mixture, fields read back and called, expected output computed directly; directed programs include methods with type parameters of their own.",
 "C02": "fnfields phase as in C01 (the emitted Go must type-check); directed programs include methods with type parameters of their own.",
 "C03": "Ill-typed kinds also cover calls with too FEW arguments (trait methods on concrete and dyn receivers, enum variants) and every builtin called with 0-4 arguments; generic functions build and take apart arrays / Vecs / Refs / tuples of a type parameter.",
 "C05": "A tenth skeleton operation opens a curried closure `|a| |a| { .. }` (both parameters spelled alike); nested single closures are written curried half of the time.",
 "C07": "Generic functions build and take apart arrays / Vecs / Refs / tuples of a type parameter; a directed program calls methods of a generic impl that have type parameters of their own at two type arguments per receiver instance, and generated generic inherent methods may have one type parameter of their own. A compiler panic on a non-trivial case fails the property (as a Go text that does not build does).",
 "C08": "fnfields phase (3k / 60k programs): closures and plain functions stored in 2-4 function-typed struct fields in every mixture and order at one construction site, read back and called in main or in helpers defined after the site; the closures capture the constructor's parameters and a shared Ref cell.",
 "C10": "Operators are also applied to one variable on both sides (x / x with x = 0 must fail, x - x, x == x ..), directly and inside a helper function.",
 "C16": "Legal projects also call an `extern \"go\"` function of an imported package through the package path and use a trait whose impls for another package's types live in the trait's package, statically and as `dyn`, from a third package.",
 "C17": "dyn-impl section (a seventh of the positive cases): a second trait implemented for the trait-object type `dyn Tr` (its method calls a method of Tr on the receiver) next to an impl for one of the concrete types; seven call forms on the trait object and four on the concrete value must each run the right impl.",
 "C19": "29 directed programs now, one of them makes trait objects from the function types () -> T, (unit) -> T, (T) -> T and from Vec / Ref / array receivers (vtable constructors and wrappers are named after the receiver type).",
 "C20": "The fixed programs whose hover answers query_test.rs pins down are a labelled case (phase fixed): a wrong answer is a violation, a missing label makes a violation-free run inconclusive. `Pkg::` completion is also requested next to imported packages whose names end or start with Pkg.",
}
for _k, _v in ADD7.items():
    _t = CLAIMED[_k]
    CLAIMED[_k] = (_t[0], _t[1] + " " + _v, _t[2], _t[3])

NOT_YET = "check not built yet (work in progress; see DESIGN.md Appendix D)"

def main():
    checks = []
    for pid in ALL:
        if pid not in CLAIMED: continue
        tech, text, note, ref = CLAIMED[pid]
        checks.append({
            "property_id": pid,
            "quick_cmd": "./check %s quick" % pid,
            "thorough_cmd": "./check %s thorough" % pid,
            "evidence_file": "/verif/evidence/%s.json" % pid,
            "replay_cmd_template": "./check --replay %s {path}" % pid,
            "engine": "verif-harness",
            "level_claimed": {"category": "exploration", "text": text, "design_ref": ref},
            "level_note": note,
            "technique": tech,
        })
    m = {
        "version": 1,
        "setup_cmd": "./check --build",
        "hooks": {
            "guard": "goml_verif",
            "enable": "/verif/harness/.cargo/config.toml sets rustflags = [\"--cfg\", \"goml_verif\"] for the harness build (which compiles /repo/crates/* as path dependencies from the working tree); the one hook turns two loops that could spin forever into deterministic panics: the typer's constraint solver after 1000 + 8 x constraints rounds, monomorphisation after 20000 instances. Every other entry point and IR the checks use is `pub`; no other hook exists",
            "baseline_off_cmd": "cd /repo && cargo test --workspace --no-fail-fast --offline",
            "source_commits": ["4b52e68"],
            "add_only": True,
        },
        "engines": [
            {"name": "verif-harness", "path": "/verif/harness/verif", "serves_properties": sorted(CLAIMED),
             "kind_free_text": "Rust PBT driver: proptest byte-string strategies (seeded, shrinking at ValueTree level) decoded into structured cases; 16 worker processes; per-property oracles"},
            {"name": "minigo", "path": "/verif/harness/minigo", "serves_properties": [],
             "kind_free_text": "independent lexer/parser/type checker/interpreter for the Go subset goml emits (no Go toolchain offline)"},
        ],
        "checks": checks,
        "not_applicable": [{"property_id": p, "reason": NOT_YET} for p in ALL if p not in CLAIMED],
        "notes": "All checks are property-based / generated-input searches against explicit oracles; see DESIGN.md.",
    }
    json.dump(m, open("MANIFEST.json", "w"), indent=1)
    print("claimed:", sorted(CLAIMED))

main()
