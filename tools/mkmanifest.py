#!/usr/bin/env python3
"""Regenerates /verif/MANIFEST.json from the table below (run from /verif)."""
import json, os, sys

ALL = ["C%02d" % i for i in range(1, 21)]

# id -> (technique, level text, level note, design ref)
PROG_NOTE = "Trusted: refsem (reference interpreter over the generator's typed model) as the source meaning; miniGo (own Go-subset lexer/parser/type checker/interpreter) as the Go toolchain, calibrated on every run against the Go recorded from real runs of the corpus; shapes excluded by open known findings are counted in the evidence (excluded_by_gate). Absence beyond the explored programs is not shown."
CLAIMED = {
 "C06": ("exhaustive pattern matrices (all matrices of <=3/4 rows over all depth-2 patterns of four types) evaluated on all scrutinee values + random matrices; first-match reference semantics vs emitted Go",
         "Exploration: every matrix of <=3 (quick) / <=4 (thorough) rows over all patterns of depth <=2 for bool, Opt[bool], (bool,bool) and a three-variant enum, plus random matrices over ints, strings, unit, tuples, a struct, enums and generic Opt[T] (depth <=3, <=6 rows) and destructuring lets; each program applies the match to ALL values of the scrutinee type over representative leaf domains that some row matches and to one unmatched value; stdout/end under miniGo must equal first-match semantics (failed match must fail at that point); ticked scrutinee detects double evaluation.",
         PROG_NOTE, "DESIGN.md §5 C06"),
 "C19": ("exhaustive enumeration of the compiler's name-encoding functions over a small identifier alphabet + directed collision programs + differential PBT with hostile identifier pools",
         "Exploration: (1) go_ident/go_type_name_for/ref_struct_name/array_helper_fn_name/trait_impl_fn_name/inherent_method_fn_name on every identifier over {A,B,a,b,_,1} (len<=3/4) and every pair/(trait,type)/(type,method) combination: distinct entities must get distinct Go identifiers, user names must not come out as Go keywords/predeclared names; (2) 24 directed programs, one per collision family, must build and print the expected output; (3) ~50k/800k generated programs whose function/type/field/local names come from pools of Go keywords, predeclared identifiers, runtime-helper and temporary look-alikes must type-check as Go and behave as the (name-independent) reference interpreter says.",
         PROG_NOTE, "DESIGN.md §5 C19"),
 "C03": ("generated accepted programs re-type-checked at every IR stage by independent checkers; single ill-typed statement injected at random positions must be rejected",
         "Exploration: (a) ~54k (quick) / ~880k (thorough) accepted generated programs: four independent IR type checkers (Core, Mono, Lift, ANF) must find every variable bound with the binder's type, every call/constructor/projection/operator/branch consistent with declared signatures, and no TParam/TVar/TApp residue after monomorphisation; (b) ~40k / 600k programs with one ill-typed statement of 28 kinds inserted at a random position in a random nested block must be rejected with an error diagnostic (never accepted, never a crash).",
         "Trusted: irck (sensitivity measured by 26k injected IR corruptions, 99.3% caught); the catalogue of ill-typed statements follows the language description; ill-typedness that depends on inference order is not injected.",
         "DESIGN.md §5 C03"),
 "C01": ("differential PBT: reference interpreter of the generated typed program vs Go-subset interpreter of the emitted Go; type-directed program generator; corpus outputs recorded from real Go",
         "Exploration: ~76k (quick) / ~1.1M (thorough) type-directed random programs in three size classes and five generator biases are compiled; stdout and end state (normal exit / division by zero / index out of range / failed match) of the emitted Go under miniGo must equal refsem's run of the source model; additionally the Go currently emitted for every corpus program must reproduce the output recorded from real Go.",
         PROG_NOTE, "DESIGN.md §5 C01"),
 "C02": ("generated programs -> emitted Go text judged by an independent Go-subset parser and type checker",
         "Exploration: the same generator under all biases; the emitted Go text must parse and type-check under miniGo's checker (declare-before-use, redeclaration, assignability, call/return/literal typing, unused variables/imports, constant overflow and constant division by zero, missing return, type-switch rules, array lengths).",
         PROG_NOTE, "DESIGN.md §5 C02"),
 "C07": ("differential PBT biased to generics + invariants of the monomorphised IR",
         "Exploration: generator biased to generic functions/types with composite type arguments (tuples, arrays, Vec, Ref, structs, enums, nested); behaviour oracle of C01 plus, on Compilation.mono: unique instance names, no more instances than distinct reachable type-argument tuples computed from the model, every referenced instance exists once, no TParam/TVar/TApp residue.",
         PROG_NOTE, "DESIGN.md §5 C07"),
 "C08": ("differential PBT biased to closures (captures, nesting, calls through variables)",
         "Exploration: generator biased to closures capturing params/lets/pattern variables/Refs/other closures, nested closures, closures called from other scopes; behaviour oracle of C01. Flows of closures into declared function-typed positions are excluded while KF-05 is open (counted).",
         PROG_NOTE, "DESIGN.md §5 C08"),
 "C09": ("differential PBT on tick traces: effects planted in every operand/argument/condition/branch position",
         "Exploration: generator biased to effects: print ticks in operands, call arguments, && / || operands, if/match/while conditions and branches, discarded lets, Ref updates, operations that fail at run time; the sequence of printed lines and the failure point of the emitted Go must equal the reference run. The goroutine part of the property (go e) is not yet covered by this check.",
         PROG_NOTE, "DESIGN.md §5 C09"),
 "C05": ("exhaustive scope skeletons + shadowing-biased random programs; resolution read from the HIR and compared with the generator's binder for every use",
         "Exploration: every sequence of <=5 (quick) / <=6 (thorough) scope operations over two names (let, use, open/close if-block, match arm, closure, while body) is turned into a program, plus random longer skeletons and type-directed programs from a 3-name pool. For each accepted program every use's NameRef::Local id must equal the id of the binder the generator intended, a well-scoped program must not be rejected for scoping reasons, an unbound use must be rejected, and the compiled program must print the intended binder's value (reference interpreter vs Go-subset interpreter).",
         "Trusted: the harness' own scoping model (a stack), text-range matching of binders/uses, miniGo for the behavioural part. Depth beyond the enumerated skeleton length is only sampled.",
         "DESIGN.md §5 C05"),
 "C11": ("exhaustive operator pairs/triples (quads thorough) + random syntax trees printed with minimal parentheses and random trivia; parse-back round trip; literal fidelity oracle",
         "Exploration: all trees over 20 operators of size 2 and 3 (4 in thorough) in three contexts, the same trees fully parenthesised, random whole files over every item/expr/pattern/type form, and enumerated + random literal spellings. Oracle: convert(parse_ast_file(print(t))) == t structurally; a literal's AST value equals the characters/number it denotes. A deliberately wrong printer (omitting needed parentheses) must be rejected by the oracle in setup, else exit 2.",
         "Trusted: the harness' tree model, printer and AST converter (written from the documented binding powers); derive expansion is avoided in round-trip trees.",
         "DESIGN.md §5 C11"),
 "C04": ("fuzzing-style generated inputs (Unicode/token soups, corpus mutations, deep nesting, JSON artifact mutations) against a crash/diagnostic oracle",
         "Exploration: random Unicode and token sequences, mutated corpus programs, 1..256-deep nestings of every bracketing form, and single-leaf/raw mutations of the interface/core artifacts of all corpus projects are pushed through compile, check_package, build_package, read_core and link_cores under panic capture in memory-capped worker processes; Err must carry an error diagnostic, ranges must lie in the text. Absence of crashes beyond the explored inputs is not shown.",
         "Trusted: in-process calls stand for the CLI subcommands; non-termination is only observable as a watchdog hit (reported as inconclusive, exit 2); resource exhaustion is observed as a worker abort under a 6 GiB address-space cap.",
         "DESIGN.md §5 C04"),
 "C12": ("exhaustive short strings + random/mutated texts; round-trip & tiling oracle on lexer and CST",
         "Exploration: every string of <=3 (quick) / <=4 (thorough) symbols over a 46-symbol alphabet covering each token class is enumerated, plus random token/Unicode soups and corpus mutations; each input is judged by a complete oracle (text round-trip, token tiling on char boundaries, leaves==lexer tokens, ranges in bounds, parse twice equal). Absence beyond the explored inputs is not shown.",
         "Trusted: rowan's text(); the harness oracle. Inputs longer than the bounds are only sampled.",
         "DESIGN.md §5 C12"),
}

NOT_YET = "check not built yet (work in progress; see DESIGN.md Appendix D)"

def main():
    checks = []
    for pid in ALL:
        if pid not in CLAIMED: continue
        tech, text, note, ref = CLAIMED[pid]
        checks.append({
            "property_id": pid,
            "quick_cmd": "./check %s quick" % pid,
            "thorough_cmd": "./check %s thorough" % pid,
            "evidence_file": "/verif/evidence/%s.json" % pid,
            "replay_cmd_template": "./check --replay %s {path}" % pid,
            "engine": "verif-harness",
            "level_claimed": {"category": "exploration", "text": text, "design_ref": ref},
            "level_note": note,
            "technique": tech,
        })
    m = {
        "version": 1,
        "setup_cmd": "./check --build",
        "hooks": {
            "guard": "goml_verif",
            "enable": "no hooks are needed so far: every entry point and IR the checks use is `pub`; the harness path-depends on /repo/crates/* and is rebuilt by cargo from the working tree",
            "baseline_off_cmd": "cd /repo && cargo test --workspace --no-fail-fast --offline",
            "source_commits": [],
            "add_only": True,
        },
        "engines": [
            {"name": "verif-harness", "path": "/verif/harness/verif", "serves_properties": sorted(CLAIMED),
             "kind_free_text": "Rust PBT driver: proptest byte-string strategies (seeded, shrinking at ValueTree level) decoded into structured cases; 16 worker processes; per-property oracles"},
            {"name": "minigo", "path": "/verif/harness/minigo", "serves_properties": [],
             "kind_free_text": "independent lexer/parser/type checker/interpreter for the Go subset goml emits (no Go toolchain offline)"},
        ],
        "checks": checks,
        "not_applicable": [{"property_id": p, "reason": NOT_YET} for p in ALL if p not in CLAIMED],
        "notes": "All checks are property-based / generated-input searches against explicit oracles; see DESIGN.md.",
    }
    json.dump(m, open("MANIFEST.json", "w"), indent=1)
    print("claimed:", sorted(CLAIMED))

main()
