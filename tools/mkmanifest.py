#!/usr/bin/env python3
"""Regenerates /verif/MANIFEST.json from the table below (run from /verif)."""
import json, os, sys

ALL = ["C%02d" % i for i in range(1, 21)]

# id -> (technique, level text, level note, design ref)
CLAIMED = {
 "C05": ("exhaustive scope skeletons + shadowing-biased random programs; resolution read from the HIR and compared with the generator's binder for every use",
         "Exploration: every sequence of <=5 (quick) / <=6 (thorough) scope operations over two names (let, use, open/close if-block, match arm, closure, while body) is turned into a program, plus random longer skeletons and type-directed programs from a 3-name pool. For each accepted program every use's NameRef::Local id must equal the id of the binder the generator intended, a well-scoped program must not be rejected for scoping reasons, an unbound use must be rejected, and the compiled program must print the intended binder's value (reference interpreter vs Go-subset interpreter).",
         "Trusted: the harness' own scoping model (a stack), text-range matching of binders/uses, miniGo for the behavioural part. Depth beyond the enumerated skeleton length is only sampled.",
         "DESIGN.md §5 C05"),
 "C11": ("exhaustive operator pairs/triples (quads thorough) + random syntax trees printed with minimal parentheses and random trivia; parse-back round trip; literal fidelity oracle",
         "Exploration: all trees over 20 operators of size 2 and 3 (4 in thorough) in three contexts, the same trees fully parenthesised, random whole files over every item/expr/pattern/type form, and enumerated + random literal spellings. Oracle: convert(parse_ast_file(print(t))) == t structurally; a literal's AST value equals the characters/number it denotes. A deliberately wrong printer (omitting needed parentheses) must be rejected by the oracle in setup, else exit 2.",
         "Trusted: the harness' tree model, printer and AST converter (written from the documented binding powers); derive expansion is avoided in round-trip trees.",
         "DESIGN.md §5 C11"),
 "C04": ("fuzzing-style generated inputs (Unicode/token soups, corpus mutations, deep nesting, JSON artifact mutations) against a crash/diagnostic oracle",
         "Exploration: random Unicode and token sequences, mutated corpus programs, 1..256-deep nestings of every bracketing form, and single-leaf/raw mutations of the interface/core artifacts of all corpus projects are pushed through compile, check_package, build_package, read_core and link_cores under panic capture in memory-capped worker processes; Err must carry an error diagnostic, ranges must lie in the text. Absence of crashes beyond the explored inputs is not shown.",
         "Trusted: in-process calls stand for the CLI subcommands; non-termination is only observable as a watchdog hit (reported as inconclusive, exit 2); resource exhaustion is observed as a worker abort under a 6 GiB address-space cap.",
         "DESIGN.md §5 C04"),
 "C12": ("exhaustive short strings + random/mutated texts; round-trip & tiling oracle on lexer and CST",
         "Exploration: every string of <=3 (quick) / <=4 (thorough) symbols over a 46-symbol alphabet covering each token class is enumerated, plus random token/Unicode soups and corpus mutations; each input is judged by a complete oracle (text round-trip, token tiling on char boundaries, leaves==lexer tokens, ranges in bounds, parse twice equal). Absence beyond the explored inputs is not shown.",
         "Trusted: rowan's text(); the harness oracle. Inputs longer than the bounds are only sampled.",
         "DESIGN.md §5 C12"),
}

NOT_YET = "check not built yet (work in progress; see DESIGN.md Appendix D)"

def main():
    checks = []
    for pid in ALL:
        if pid not in CLAIMED: continue
        tech, text, note, ref = CLAIMED[pid]
        checks.append({
            "property_id": pid,
            "quick_cmd": "./check %s quick" % pid,
            "thorough_cmd": "./check %s thorough" % pid,
            "evidence_file": "/verif/evidence/%s.json" % pid,
            "replay_cmd_template": "./check --replay %s {path}" % pid,
            "engine": "verif-harness",
            "level_claimed": {"category": "exploration", "text": text, "design_ref": ref},
            "level_note": note,
            "technique": tech,
        })
    m = {
        "version": 1,
        "setup_cmd": "./check --build",
        "hooks": {
            "guard": "goml_verif",
            "enable": "no hooks are needed so far: every entry point and IR the checks use is `pub`; the harness path-depends on /repo/crates/* and is rebuilt by cargo from the working tree",
            "baseline_off_cmd": "cd /repo && cargo test --workspace --no-fail-fast --offline",
            "source_commits": [],
            "add_only": True,
        },
        "engines": [
            {"name": "verif-harness", "path": "/verif/harness/verif", "serves_properties": sorted(CLAIMED),
             "kind_free_text": "Rust PBT driver: proptest byte-string strategies (seeded, shrinking at ValueTree level) decoded into structured cases; 16 worker processes; per-property oracles"},
            {"name": "minigo", "path": "/verif/harness/minigo", "serves_properties": [],
             "kind_free_text": "independent lexer/parser/type checker/interpreter for the Go subset goml emits (no Go toolchain offline)"},
        ],
        "checks": checks,
        "not_applicable": [{"property_id": p, "reason": NOT_YET} for p in ALL if p not in CLAIMED],
        "notes": "All checks are property-based / generated-input searches against explicit oracles; see DESIGN.md.",
    }
    json.dump(m, open("MANIFEST.json", "w"), indent=1)
    print("claimed:", sorted(CLAIMED))

main()
