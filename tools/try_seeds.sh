#!/bin/bash
# usage: try_seeds.sh "<patch>:<PROP,PROP>" ...   -- batch version of try_seed.sh
for spec in "$@"; do
  patch=${spec%%:*}; props=${spec##*:}
  cd "${REPO_DIR:-/repo}" || exit 2
  git status --short | grep -q . && { echo "/repo is not clean"; exit 2; }
  git apply "$patch" || { echo "patch does not apply: $patch"; continue; }
  cd "${VERIF_DIR:-/verif}"
  echo "######## $patch"
  for p in ${props//,/ }; do
    out=$(./check $p quick 2>&1); rc=$?
    echo "== $p exit=$rc $(echo "$out" | grep -E "^$p quick" | head -1)"
    echo "$out" | grep -E "VIOLATION|signature:|INCONCLUSIVE" | head -6
  done
  cd "${REPO_DIR:-/repo}" && git checkout -- . && git status --short | head -3
done
cd "${VERIF_DIR:-/verif}" && ./check --build
