#!/bin/bash
# usage: synclab.sh <dir>  -- copy the working-tree sources of /verif (harness sources, tools, known findings) into the lab
d=$1
rsync -a /verif/harness/verif/src/ "$d/verif/harness/verif/src/"
rsync -a /verif/harness/minigo/src/ "$d/verif/harness/minigo/src/"
rsync -a /verif/harness/fuzz/fuzz_targets/ "$d/verif/harness/fuzz/fuzz_targets/"
rsync -a /verif/tools/ "$d/verif/tools/"
rsync -a /verif/findings/ "$d/verif/findings/"
cp /verif/known_findings.json /verif/check "$d/verif/"
