#!/bin/bash
# usage: mk_regression.sh <fix-commit> <PROP> <signature-substring> <KF-id>
# Reverts one fix in /repo's working tree, runs the quick check, stores the replay of the matching
# violation as findings/<KF-id>.json, and restores /repo.
set -u
c=$1; prop=$2; pat=$3; kf=$4
cd /repo && git show $c | git apply -R || { echo "cannot revert $c"; exit 1; }
cd /verif && rm -rf replays/$prop && ./check $prop quick > /tmp/mkreg.log 2>&1
cd /repo && git checkout -- . 
cd /verif
f=$(grep -l -F "$pat" replays/$prop/*.json 2>/dev/null | grep -v all_failures | head -1)
if [ -z "$f" ]; then echo "no violation matching '$pat' (see /tmp/mkreg.log)"; grep -E "^ +[0-9]+  " /tmp/mkreg.log | head; exit 1; fi
cp "$f" findings/$kf.json && echo "stored findings/$kf.json from $f: $(python3 -c "import json;print(json.load(open('findings/$kf.json'))['signature'])")"
