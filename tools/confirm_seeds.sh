#!/bin/bash
# usage: confirm_seeds.sh <ID>...  -- for each /tmp/seed-<ID>/SEED{1,2}: apply in its own scratch worktree,
# run the repository test suite there, compare with the baseline's stable_pass list, run the demonstration
# with the clean and the changed compiler.  Writes /tmp/seed-<ID>/SEEDn/confirm.json
export CARGO_NET_OFFLINE=true
CLEAN=/tmp/seed-clean-bin
if [ ! -x $CLEAN/compiler ]; then
  mkdir -p $CLEAN
  (cd /repo && git stash list >/dev/null; git -C /repo status --short | grep -q . && { echo "/repo dirty"; exit 2; }
   cd /repo && cargo build -q --offline -p compiler --bin compiler && cp target/debug/compiler $CLEAN/compiler) || exit 2
fi
for id in "$@"; do
 for s in SEED1 SEED2; do
  W=${SEED_PREFIX:-/tmp/seed-}$id; D=$W/$s
  [ -f $D/patch.diff ] || continue
  cd $W || continue
  git checkout -q -- . ; git apply $D/patch.diff || { echo "$id $s: patch does not apply"; continue; }
  CARGO_TARGET_DIR=$W/target cargo test --workspace --no-fail-fast --offline 2>&1 | grep -E "^test .* (ok|FAILED)$" | sort > $D/tests.txt
  CARGO_TARGET_DIR=$W/target cargo build -q --offline -p compiler --bin compiler 2>/dev/null
  demo=$D/demo/main.gom
  if [ -f $D/run.sh ] && [ ! -f $D/demo/run.sh ]; then
    ( cd $D; ulimit -v 4000000; timeout 120 sh run.sh $CLEAN/compiler > $D/before.txt 2>&1; echo "exit=$?" >> $D/before.txt )
    ( cd $D; ulimit -v 4000000; timeout 120 sh run.sh $W/target/debug/compiler > $D/after.txt 2>&1; echo "exit=$?" >> $D/after.txt )
  elif [ -f $D/demo/run.sh ]; then
    ( cd $D/demo; ulimit -v 4000000; timeout 120 sh run.sh $CLEAN/compiler > $D/before.txt 2>&1; echo "exit=$?" >> $D/before.txt )
    ( cd $D/demo; ulimit -v 4000000; timeout 120 sh run.sh $W/target/debug/compiler > $D/after.txt 2>&1; echo "exit=$?" >> $D/after.txt )
  else
    ( ulimit -v 4000000; timeout 20 $CLEAN/compiler run $demo --dump-ast --dump-go > $D/before.txt 2>&1; echo "exit=$?" >> $D/before.txt )
    ( ulimit -v 4000000; timeout 20 $W/target/debug/compiler run $demo --dump-ast --dump-go > $D/after.txt 2>&1; echo "exit=$?" >> $D/after.txt )
  fi
  git checkout -q -- .
  python3 - $D $id $s <<'PY'
import json,re,sys
D,id,s=sys.argv[1:4]
b=json.load(open('/root/.vp/BASELINE.json'))
res={}
for l in open(D+'/tests.txt'):
    m=re.match(r'test (\S+) \.\.\. (ok|FAILED)',l)
    if m: res[m.group(1)]=m.group(2)
missing=[]
for t in b['stable_pass']:
    parts=t.split('::')
    cands=['::'.join(parts[i:]) for i in (1,2)]
    if not any(res.get(c)=='ok' for c in cands): missing.append(t)
bef=open(D+'/before.txt',errors='replace').read(); aft=open(D+'/after.txt',errors='replace').read()
out={'tests_ok':sum(1 for v in res.values() if v=='ok'),'tests_failed':sum(1 for v in res.values() if v!='ok'),
     'stable_baseline_tests_not_passing':missing,'demo_output_differs':bef!=aft,
     'before_tail':bef[-300:],'after_tail':aft[-300:]}
json.dump(out,open(D+'/confirm.json','w'),indent=1)
print(id,s,'tests ok',out['tests_ok'],'failed',out['tests_failed'],'stable missing',len(missing),'demo differs',out['demo_output_differs'])
PY
 done
 rm -rf $W/target
done
