#!/usr/bin/env python3
"""usage: seed_table.py <round>  -- prints the DESIGN.md table rows of the seeded changes of that round"""
import json, os, sys
rnd = int(sys.argv[1])
rows = []
for d in sorted(os.listdir('/verif/seeded')):
    p = f'/verif/seeded/{d}/meta.json'
    if not os.path.exists(p):
        continue
    m = json.load(open(p))
    if m.get('round') != rnd:
        continue
    needs = ' '.join(m.get('needs_to_manifest', '').split()).replace('|', '/')
    if len(needs) > 140:
        needs = needs[:137] + '...'
    rows.append(f"| {m['id']} | {needs} | {m['caught_by']}: `{m['signatures']}` | {m['history']} |")
print('\n'.join(rows))
