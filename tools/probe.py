#!/usr/bin/env python3
"""probe.py HDRFILE TESTSFILE : compile each snippet (name ::: body-of-main) and run the Go through minigo."""
import subprocess,sys,os
hdr=open(sys.argv[1]).read()
d='/tmp/probe-dir'; os.makedirs(d,exist_ok=True)
for line in open(sys.argv[2]).read().split('\n'):
    if ':::' not in line: continue
    name,t=line.split(':::',1)
    src=hdr+"fn main() {\n"+t+"\n ()\n}\n"
    open(d+'/main.gom','w').write(src)
    r=subprocess.run(['/verif/harness/target/release/verif','compile',d+'/main.gom','--go'],capture_output=True,text=True)
    st=r.stderr.strip().split('\n')[0].split(' in')[0]
    if 'ok' in st:
        open('/tmp/probe-out.go','w').write(r.stdout)
        c=subprocess.run(['/verif/harness/target/release/minigo','check','/tmp/probe-out.go'],capture_output=True,text=True)
        if c.returncode!=0:
            go='GO-REJECT '+(c.stdout+c.stderr).strip().split('\n')[0][:140]
        else:
            g=subprocess.run(['/verif/harness/target/release/minigo','run','/tmp/probe-out.go'],capture_output=True,text=True)
            go=(g.stdout.strip().replace('\n','\\n')+' | '+g.stderr.strip().split('\n')[-1])[:150]
    else: go=(r.stderr.strip().split('\n')[1:2] or [''])[0][:120]
    print(name.strip().ljust(28), st.ljust(12), go)
