#!/usr/bin/env python3
"""usage: seed_prompt.py <ID>  -- prints the task text given to a seeding sub-agent (it sees only the property text and its own worktree)."""
import sys, json
pid = sys.argv[1]
extra = sys.argv[2] if len(sys.argv) > 2 else ""
prop = None
for line in open('/verif/properties.jsonl'):
    p = json.loads(line)
    if p['id'] == pid:
        q = p.get('quantifier')
        if isinstance(q, dict):
            q = q.get('text', '')
        prop = f"{pid} — {p.get('title','')}\n\nStatement: {p.get('statement','')}\n\nQuantifier: {q}\n"
print(f"""You are helping to evaluate a verification effort by producing realistic *faulty changes* to a compiler. Work ONLY inside the git worktree `/tmp/seed-{pid}` (a checkout of the repository lijunchen/goml: a statically typed ML/Rust-like language whose Rust compiler — lexer, parser, typer, match compiler, mono, lift, ANF — emits Go source). Do not read or touch `/verif` or `/repo` or any other `/tmp/seed-*` directory; do not run `git commit` or `git stash`; never push. The sandbox has no network; `cargo build --offline` and `cargo test --workspace --no-fail-fast --offline` work inside the worktree (16 tests that need a Go toolchain fail before and after any change — there is NO `go` binary here; 59 tests pass and must keep passing). The CLI binary is called `compiler` (`cargo run -q -p compiler --bin compiler -- run <file> --dump-go`; `check` / `build` / `link` subcommands exist for separate compilation). Always give the CLI a path with a directory component (`demo/main.gom`, not `main.gom`).

Start by reading `AGENTS.md` (language introduction) and the pipeline: `crates/compiler/src/pipeline/pipeline.rs`, then the stages relevant to the property below.

## The property your change must break

{prop}

## Task
Produce TWO independent changes (different mechanisms, different files if possible) to the compiler's source such that each one:
1. still compiles, and the repository's existing test suite passes exactly as before (`cargo test --workspace --no-fail-fast --offline`: the same 59 tests pass; the 16 Go-dependent tests fail as before);
2. makes the property above FALSE for some inputs, but only for inputs that need something specific to manifest — a particular combination of language features, an unusual operand/shape/size, a multi-step sequence, a particular position, or two cooperating sites that each look fine alone — NOT something every ordinary program would expose at once. Prefer a corner that a straightforward test generator for this property would be unlikely to produce by default (an unusual nesting, a rarely used builtin or type, a specific count or length, an interaction with another language feature);
{extra}3. looks like a plausible mistake or an over-eager "optimisation"/refactoring a developer could make (small diff, no obviously malicious code, no dead giveaway comments).

For each change deliver, under `/tmp/seed-{pid}/SEED1/` and `/tmp/seed-{pid}/SEED2/`:
* `patch.diff` — `git diff` of ONLY that change against the worktree's HEAD (apply one change at a time: revert the first before making the second; verify each patch applies cleanly to a clean checkout with `git apply --check`);
* `demo/main.gom` (plus further files/directories if it needs packages, and a `run.sh <path-to-compiler-binary>` script if the demonstration needs more than `compiler run demo/main.gom --dump-go`, or a small Rust test file if it needs the library API) — a small input that shows the breakage, and `demo/README.md` explaining: what the input means / should produce, what the compiler does differently WITH the change (quote the relevant emitted Go lines, IR dump lines or diagnostics before and after), and why the existing tests do not notice;
* `meta.json` — {{"property": "{pid}", "needs": "<what an input needs in order to manifest the fault>", "files": ["..."], "tests_run": "<command and result summary>"}}.
When both are done, make sure the worktree itself is back at a clean HEAD state except for the two SEED directories (untracked), and delete the worktree's `target/` directory to free disk space. Reply with a short summary of both changes (mechanism, trigger condition, files).""")
