#!/bin/bash
# usage: sweep.sh "C01 C02 ..." "1 2 3"  -- runs the quick tier of each check under each seed, prints one line per run
for p in $1; do for s in $2; do
  out=$(VERIF_SEED=$s ./check $p quick 2>&1); rc=$?
  echo "$p seed=$s exit=$rc $(echo "$out" | grep -E "^$p quick" | head -1)"
  [ $rc -ne 0 ] && echo "$out" | grep -E "signature:|INCONCLUSIVE" | head -5
done; done
