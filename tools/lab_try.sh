#!/bin/bash
# usage: lab_try.sh <lab dir> "<patch>:<PROP,PROP>" ...  -- tools/try_seeds.sh inside a lab made by tools/mklab.sh
lab=$1; shift
export REPO_DIR=$lab/repo VERIF_DIR=$lab/verif VERIF_REPO=$lab/repo
exec "$lab/verif/tools/try_seeds.sh" "$@"
