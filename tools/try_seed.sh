#!/bin/bash
# usage: try_seed.sh <patch.diff> <PROP> [PROP...]   -- applies a seeded change to /repo, runs the quick checks, reverts
patch=$1; shift
cd /repo || exit 2
git status --short | grep -q . && { echo "/repo is not clean"; exit 2; }
git apply "$patch" || { echo "patch does not apply"; exit 2; }
cd /verif
for p in "$@"; do
  out=$(./check $p quick 2>&1); rc=$?
  echo "== $p exit=$rc $(echo "$out" | grep -E "^$p quick" | head -1)"
  echo "$out" | grep -E "VIOLATION|signature:|INCONCLUSIVE" | head -6
done
cd /repo && git checkout -- . && git status --short | head -3
cd /verif && ./check --build
