#!/bin/bash
# usage: sweep_thorough.sh "C01 C02 ..."  -- runs the thorough tier of each check once, prints one line per run
for p in $1; do
  s=$(date +%s); out=$(./check $p thorough 2>&1); rc=$?
  echo "$p thorough exit=$rc $(( $(date +%s)-s ))s $(echo "$out" | grep -E "^$p thorough" | head -1)"
  [ $rc -ne 0 ] && echo "$out" | grep -E "VIOLATION|signature:|INCONCLUSIVE" | head -8
done
